import numpy as np
from pymbolic.geometric_algebra import *
from pymbolic.geometric_algebra import _OuterProduct,_GeometricProduct,_InnerProduct,_LeftContractionProduct,_RightContractionProduct,_ScalarProduct
out=[]
P=out.append
sp5=Space(5, np.diag(np.array([2,3,-1,0,5],dtype=object)))
sp4=Space(4, np.diag(np.array([2,3,-1,0],dtype=object)))
for a in range(32): P(f"bc {a} {bit_count(a)}")
for a in range(32):
    for b in range(32):
        ws=[c.orthogonal_blade_product_weight(a,b,sp5) for c in (_OuterProduct,_GeometricProduct,_InnerProduct,_LeftContractionProduct,_RightContractionProduct,_ScalarProduct)]
        P(f"b {a} {b} {canonical_reordering_sign(a,b)} "+" ".join(str(int(w)) for w in ws))
def lcg(s): return (s*1103515245+12345)%2147483648
def gen(seed,dims):
    s=lcg(seed); n=(s//65536)%4; d={}
    for _ in range(n):
        s=lcg(s); k=(s//65536)%(2**dims); s=lcg(s); v=((s//65536)%7)-3
        d[k]=v
    return d,s
def sh(m):
    d=m.data if isinstance(m,MultiVector) else m
    return "{"+", ".join(f"{k}: {v}" for k,v in d.items())+"}"
def tr(f):
    try: return f()
    except ValueError: return "ERR"
s=42
for _ in range(400):
    da,s1=gen(s,4); db,s2=gen(s1,4); s=s2
    a=MultiVector(dict(da),sp4); b=MultiVector(dict(db),sp4)
    P(f"A {sh(a)} B {sh(b)}")
    P(f"mul {sh(a*b)}"); P(f"out {sh(a^b)}"); P(f"inn {sh(a|b)}"); P(f"lc {sh(a<<b)}"); P(f"rc {sh(a>>b)}")
    P(f"sp {tr(lambda: a.scalar_product(b))}")
    P(f"rev {sh(a.rev())} invol {sh(a.invol())} p2 {sh(a.project(2))}")
    P(f"nsq {tr(lambda: a.norm_squared())}")
    try:
        nsq=a.norm_squared()
        r=a.inv()
        P("inv "+"{"+", ".join(f"{k}: {int(round(v*nsq))}" for k,v in r.data.items())+"}"+f" / {nsq}")
    except (ZeroDivisionError,NotImplementedError,ValueError) as e:
        P(f"inv {type(e).__name__}")
    low=lambda x: str(bool(x)).lower()
    P(f"eq {low(a==b)} {low(a==a)} bool {low(bool(a))} eq0 {low(a==0)}")
    P(f"dual {sh(a.dual())}")
    pg=a.get_pure_grade()
    P(f"pg {'none' if pg is None else '(some %d)'%pg}")
for p in [[0,1,2],[1,0,2],[2,0,1],[2,1,0],[0,2,1],[1,2,0],[3,1,0,2],[1,0,3]]:
    try: r=f"(some {permutation_sign(p)})"
    except IndexError: r="none"
    P(f"ps {p} {r}")
for t in [[2,0,1],[3,1],[0,3,2,1],[1],[]]:
    b_,s_=sp4.bits_and_sign(tuple(t))
    P(f"bs {t} {b_} {s_}")
P("ot "+sh(MultiVector({(1,0):2,(0,1):2,(2,1):3,(3,):4,(1,2):1},sp4)))
open("/tmp/agent_c18/py_out.txt","w").write("\n".join(out)+"\n")
