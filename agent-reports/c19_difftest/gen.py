import random, sys
from pymbolic.polynomial import Polynomial, _sort_uniq
from pymbolic import var
from pymbolic.algorithm import extended_euclidean, lcm, gcd, find_factors, integer_power
from pymbolic.mapper.evaluator import EvaluationMapper
random.seed(12345)
xv = var('x')
lean = ["import PV.Model.Algo", "open PV.Algo", "set_option maxRecDepth 100000"]
exp = []
def lint(n): return f"({n} : Int)"
def lterms(l): return "[" + ", ".join(f"({e}, ({c} : Int))" for e,c in l) + "]"
def pterms(l): return "[" + ", ".join(f"({e}, {c})" for e,c in l) + "]"
def emit(code, expected):
    lean.append(f"#eval IO.println ({code})"); exp.append(expected)
def optstr(f):
    try: return "some " + f()
    except (IndexError, ZeroDivisionError, RuntimeError) as e: return "none"
# integer_power
for _ in range(60):
    x = random.randint(-5,5); n = random.randint(-2,40)
    emit(f"match integerPowerInt {lint(x)} {lint(n)} with | some v => s!\"some {{v}}\" | none => \"none\"", optstr(lambda: str(integer_power(x,n))))
# ext euclid
for _ in range(300):
    q = random.choice([0,1,-1,random.randint(-50,50), random.randint(-10**6,10**6)]); r = random.choice([0,1,-1,q,-q,random.randint(-50,50), random.randint(-10**6,10**6)])
    g,a,b = extended_euclidean(q,r)
    emit(f"let t := extEuclid {lint(q)} {lint(r)}; s!\"{{t.1}} {{t.2.1}} {{t.2.2}}\"", f"{g} {a} {b}")
    emit(f"match PV.Algo.lcm {lint(q)} {lint(r)} with | some v => s!\"some {{v}}\" | none => \"none\"", optstr(lambda: str(lcm(q,r))))
for n in list(range(1,200)) + [random.randint(1,10**6) for _ in range(50)]:
    a,b = find_factors(n)
    emit(f"let t := findFactors {n}; s!\"{{t.1}} {{t.2}}\"", f"{a} {b}")
def fmt(l): return "[" + ", ".join(f"({e}, {c})" for e,c in l) + "]"
def rterms(k, maxe=4, maxc=2):
    return [(random.randint(0,maxe), random.randint(-maxc,maxc)) for _ in range(k)]
def rpoly(maxlen=4, maxe=5, maxc=2, nz=True):
    exps = sorted(random.sample(range(maxe+1), random.randint(0,maxlen)))
    return [(e, random.choice([c for c in range(-maxc,maxc+1) if c or not nz])) for e in exps]
for _ in range(400):
    l = rterms(random.randint(0,7))
    emit(f"match sortUniqPy {lterms(l)} with | some v => s!\"some {{v}}\" | none => \"none\"", optstr(lambda: fmt(_sort_uniq(list(l)))))
for _ in range(300):
    p = rpoly(); q = rpoly()
    P = Polynomial(xv, tuple(p)); Q = Polynomial(xv, tuple(q))
    emit(f"toString (add {lterms(p)} {lterms(q)})", fmt((P+Q).data))
    emit(f"toString (sub {lterms(p)} {lterms(q)})", fmt((P-Q).data))
    emit(f"match mulPy {lterms(p)} {lterms(q)} with | some v => s!\"some {{v}}\" | none => \"none\"", optstr(lambda: fmt((P*Q).data)))
    n = random.randint(0,5)
    emit(f"match powPy {lterms(p)} {n} with | some v => s!\"some {{v}}\" | none => \"none\"", optstr(lambda: fmt((P**n).data)))
    x = random.randint(-4,4)
    class EM(EvaluationMapper):
        pass
    emit(f"match evalHornerPy {lterms(p)} {lint(x)} with | some v => s!\"some {{v}}\" | none => \"none\"", "some " + str(EvaluationMapper({'x': x}).rec(P)))
    # stride
    L = list(range(random.randint(0,12))); st = random.randint(0,5); sp = random.randint(1,4)
    emit(f"toString (stride {L} {st} {sp})".replace("[]","([] : List Nat)"), str(L[st::sp]))
open("/tmp/agent_c19/difftest/DiffTest.lean","w").write("\n".join(lean)+"\n")
open("/tmp/agent_c19/difftest/expected.txt","w").write("\n".join(exp)+"\n")
print(len(exp))
