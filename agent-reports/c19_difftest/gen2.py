import random
from pymbolic.polynomial import Polynomial
from pymbolic import var
random.seed(777)
xv = var('x')
lean = ["import PV.Model.Algo", "open PV.Algo", "set_option maxRecDepth 100000"]
exp = []
def lterms(l): return "[" + ", ".join(f"({e}, ({c} : Int))" for e,c in l) + "]"
def fmt(l): return "[" + ", ".join(f"({e}, {c})" for e,c in l) + "]"
def rpoly(maxlen=4, maxe=6, maxc=3):
    exps = sorted(random.sample(range(maxe+1), random.randint(0,maxlen)))
    return [(e, random.choice([c for c in range(-maxc,maxc+1) if c])) for e in exps]
for i in range(500):
    q = rpoly(maxlen=3, maxe=3, maxc=2)
    if i % 3 == 0:
        # make exact multiples sometimes
        a = rpoly(maxlen=3, maxe=3)
        p = list((Polynomial(xv, tuple(a))*Polynomial(xv, tuple(q))).data) if q else a
        try:
            p = list((Polynomial(xv,tuple(p)) + Polynomial(xv, tuple(rpoly(maxlen=1,maxe=1)))).data)
        except Exception: pass
    else:
        p = rpoly()
    try:
        Q,R = divmod(Polynomial(xv, tuple(p)), Polynomial(xv, tuple(q)))
        e = f"some ({fmt(Q.data)}, {fmt(R.data)})"
    except (ZeroDivisionError, IndexError) as ex:
        e = "none"
    lean.append(f"#eval IO.println (match divmod {lterms(p)} {lterms(q)} with | some v => s!\"some {{v}}\" | none => \"none\")"); exp.append(e)
# specific IndexError example for mul
p=((0,-1),(1,-1),(2,1)); q=((0,-1),(1,1),(2,-1),(3,1))
try:
    Polynomial(xv,p)*Polynomial(xv,q); print("no error")
except IndexError: print("IndexError confirmed")
open("/tmp/agent_c19/difftest/DiffTest2.lean","w").write("\n".join(lean)+"\n")
open("expected2.txt","w").write("\n".join(exp)+"\n")
