#!/bin/sh
# Differential test: Lean model (PV.Model.Algo) vs the real pymbolic code on identical inputs.
set -e
cd /tmp/agent_c19/difftest
/venv/bin/python gen.py; /venv/bin/python gen2.py
cd /tmp/agent_c19/PV && lake build >/dev/null
lake env lean /tmp/agent_c19/difftest/DiffTest.lean  > /tmp/agent_c19/difftest/actual.txt
lake env lean /tmp/agent_c19/difftest/DiffTest2.lean > /tmp/agent_c19/difftest/actual2.txt
cd /tmp/agent_c19/difftest
diff expected.txt actual.txt && diff expected2.txt actual2.txt && echo "ALL MATCH"
