-- run:  cd /tmp/agent_c18/PV && lake env lean ../differential_test_lean_side.lean > ../lean_out.txt
--       cd /tmp && /venv/bin/python /tmp/agent_c18/differential_test_python_side.py   (writes py_out.txt)
--       diff /tmp/agent_c18/lean_out.txt /tmp/agent_c18/py_out.txt
import PV.Model.GA
open PV.GA

def gm : Nat → Int := fun i => match i with | 0 => 2 | 1 => 3 | 2 => -1 | 3 => 0 | _ => 5

def showMV (m : MV) : String := "{" ++ ", ".intercalate (m.map fun (k, v) => s!"{k}: {v}") ++ "}"
def showOpt : Option Int → String | none => "ERR" | some v => s!"{v}"
def showInv : InvResult → String
  | .zeroDivision => "ZeroDivisionError" | .notImplemented => "NotImplementedError"
  | .valueError => "ValueError" | .ok n d => s!"{showMV n} / {d}"

def lcg (s : Nat) : Nat := (s * 1103515245 + 12345) % 2147483648
def genMV (seed : Nat) (dims : Nat) : MV × Nat := Id.run do
  let mut s := lcg seed
  let n := (s / 65536) % 4
  let mut d : MV := []
  for _ in [0:n] do
    s := lcg s
    let k := (s / 65536) % (2 ^ dims)
    s := lcg s
    let v : Int := ((s / 65536) % 7 : Nat) - 3
    d := dictSet d k v
  return (d, s)

def main : IO Unit := do
  for a in [0:32] do
    IO.println s!"bc {a} {bitCount a}"
  for a in [0:32] do
    for b in [0:32] do
      IO.println s!"b {a} {b} {reorderSign a b} {wOuter gm a b} {wGeometric gm a b} {wInner gm a b} {wLeftContraction gm a b} {wRightContraction gm a b} {wScalar gm a b}"
  let mut s := 42
  for _ in [0:400] do
    let (a, s1) := genMV s 4
    let (b, s2) := genMV s1 4
    s := s2
    IO.println s!"A {showMV a} B {showMV b}"
    IO.println s!"mul {showMV (mvMul gm a b)}"
    IO.println s!"out {showMV (mvOuter gm a b)}"
    IO.println s!"inn {showMV (mvInner gm a b)}"
    IO.println s!"lc {showMV (mvLeftContraction gm a b)}"
    IO.println s!"rc {showMV (mvRightContraction gm a b)}"
    IO.println s!"sp {showOpt (scalarProduct gm a b)}"
    IO.println s!"rev {showMV (rev a)} invol {showMV (invol a)} p2 {showMV (project a 2)}"
    IO.println s!"nsq {showOpt (normSquared gm a)}"
    IO.println s!"inv {showInv (inv gm 4 a)}"
    IO.println s!"eq {mvEq a b} {mvEq a a} bool {mvBool a} eq0 {mvEqScalar a 0}"
    IO.println s!"dual {showMV (dual gm 4 a)}"
    IO.println s!"pg {getPureGrade a}"
  for p in [[0,1,2],[1,0,2],[2,0,1],[2,1,0],[0,2,1],[1,2,0],[3,1,0,2],[1,0,3]] do
    IO.println s!"ps {p} {permutationSign? p}"
  for t in [[2,0,1],[3,1],[0,3,2,1],[1],[]] do
    IO.println s!"bs {t} {(bitsAndSign t).1} {(bitsAndSign t).2}"
  IO.println s!"ot {showMV (ofTuplesDict [([1,0],2),([0,1],2),([2,1],3),([3],4),([1,2],1)])}"
#eval main
