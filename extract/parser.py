"""T-gen for C07 (also C06): regenerate lean/PV/Generated/Parser.lean from the LIVE source of the
parser of the working tree of /repo (pymbolic/parser.py).

What is read, with `inspect` + `ast`, from the module `pymbolic.parser` that is importable in this
process (it must lie under ctx["repo"]); the class is the class of the module-level object `parse`
and every method is the function Python's attribute look-up finds on it (MRO):

  * `parse_terminal`   — the `if next_tag is _t: return …` chain, one row per branch (tag, what is
                         made of the token text), the final `pstate.expected("terminal")`;
  * `parse_prefix`     — `pstate.expect_not_end()`, then every `elif pstate.is_next(_t):` branch with
                         its BODY translated statement by statement into the language of
                         lean/PV/Model/ParserTable.lean (`C07Cmd`), the final
                         `else: left_exp = self.parse_terminal(pstate)`;
  * `parse_postfix`    — `did_something = False; next_tag = pstate.next_tag()`, then every
                         `elif next_tag is _t and _PREC_x > min_precedence:` branch: tag test (or
                         `next_tag in self._COMP_TABLE`), precedence NAME of the guard, `>` / `>=`,
                         the body (which level the operand is parsed at, which node is built from
                         which locals in which order, `did_something = True`);
  * `parse_expression` — matched against a fixed template (prefix, `while did_something` loop with the
                         end-of-input return); read: the default of `min_precedence` and the tail
                         after the loop as a term;
  * `parse_arglist`    — matched against a fixed template; read: its four tags and two levels;
  * `__call__`         — matched against a fixed template with or without the end-of-input check;
                         read: dropped tag, default level, whether the check is there;
  * `parse_float`, `_join_to_slice`, `Parser._COMP_TABLE` (run-time value), the dataclass fields of
    every node class a body builds.

A tag constant (`_openpar`) is resolved to the string it is bound to in the module; how the token
model shows a token of that tag (`.sym "("` / a token class) is computed from the rule(s) of the tag
in `Parser.lex_table`: the six classes int / float / imaginary / identifier / True / False as in
harness/syntax.py (`lex_tokens`), otherwise the rule must be ONE literal (escaped punctuation, an
optional trailing `\\b`), whose text every token of that tag carries.

What is recorded is what the source SAYS.  Any statement or expression shape this reader does not
know is an `ExtractError` (reported by the check as a broken obligation) — never a default.  The
translation normalises exactly three things, each meaning-preserving in Python:
  * `if c: v = A  else: v = B` (one assignment to the same name in both arms, `pass` standing for
    `v = v`) is written `v = (A if c else B)`, i.e. `.assign v (.cond c A B)`; an `if` without
    `else` gets `v = v`;
  * a `self.parse_expression(pstate, L)` call nested inside the right-hand side is hoisted into a
    temporary (`$1 = self.parse_expression(pstate, L)`) — accepted only when everything Python
    evaluates before the call is a plain name / attribute load;
  * `e = pstate.copy(); try: x = self.parse_expression(e, L)  except ParseError: …  else: …;
    pstate.assign(e)` is one statement `.tryParse` — accepted only when nothing between the copy
    and the `try` moves `pstate`.
"""
from __future__ import annotations

import ast
import builtins
import dataclasses
import inspect
import os
import re
import textwrap

from harness.leanio import LEAN

from .classes import ExtractError
from .lex import lean_str
from .prec import extract_prec, write_if_changed

PREC_NAMES = {
    "_PREC_COMMA": "comma", "_PREC_SLICE": "slice", "_PREC_IF": "ifp", "_PREC_LOGICAL_OR": "lor",
    "_PREC_LOGICAL_AND": "land", "_PREC_BITWISE_OR": "bor", "_PREC_BITWISE_XOR": "bxor",
    "_PREC_BITWISE_AND": "band", "_PREC_COMPARISON": "comparison", "_PREC_SHIFT": "shift",
    "_PREC_PLUS": "plus", "_PREC_TIMES": "times", "_PREC_POWER": "power", "_PREC_UNARY": "unary",
    "_PREC_CALL": "call",
}
# tag string -> token class of the model (harness/syntax.py: lex_tokens, PV/Model/Lexer.lean: tokOf)
TOKEN_CLASSES = {"int": "int", "float": "float", "imaginary": "imaginary",
                 "identifier": "identifier", "True": "tTrue", "False": "tFalse"}
PRIMITIVE_CLASSES = [
    "Sum", "Product", "BitwiseOr", "BitwiseXor", "BitwiseAnd", "LogicalOr", "LogicalAnd",
    "Quotient", "FloorDiv", "Remainder", "Power", "LeftShift", "RightShift", "LogicalNot",
    "BitwiseNot", "Comparison", "If", "Call", "CallWithKwargs", "Subscript", "Lookup", "Slice",
    "Wildcard", "Variable"]
META = set(".^$*+?{}[]\\|()")


# {{{ the live module

def _mod(ctx=None):
    import pymbolic.parser as pa
    repo = (ctx or {}).get("repo")
    if repo:
        here = os.path.realpath(pa.__file__)
        root = os.path.realpath(repo)
        if not here.startswith(root.rstrip(os.sep) + os.sep):
            raise ExtractError(f"pymbolic.parser was imported from {here}, not from {root}")
    return pa


def _fn_ast(fn, what, pa):
    if not inspect.isfunction(fn):
        raise ExtractError(f"{what}: not a plain function ({type(fn).__name__})")
    if fn.__globals__ is not pa.__dict__:
        raise ExtractError(f"{what}: defined outside pymbolic.parser")
    try:
        src = textwrap.dedent(inspect.getsource(fn))
    except (OSError, TypeError) as e:
        raise ExtractError(f"{what}: no source ({e})")
    mod = ast.parse(src)
    if len(mod.body) != 1 or not isinstance(mod.body[0], ast.FunctionDef):
        raise ExtractError(f"{what}: source is not a single function definition")
    node = mod.body[0]
    if node.decorator_list:
        raise ExtractError(f"{what}: decorated")
    return node


def _body(node):
    body = list(node.body)
    if (body and isinstance(body[0], ast.Expr) and isinstance(body[0].value, ast.Constant)
            and isinstance(body[0].value.value, str)):
        body = body[1:]
    return body


def _plain_params(node, names, what, defaults=0):
    a = node.args
    if (a.vararg or a.kwarg or a.kwonlyargs or a.posonlyargs or a.kw_defaults
            or [x.arg for x in a.args] != names or len(a.defaults) != defaults):
        raise ExtractError(f"{what}: signature is not ({', '.join(names)}) with {defaults} default(s)")

# }}}


# {{{ template matcher

def _same(a, b):
    return ast.dump(a) == ast.dump(b)


def match_template(t, n, binds, what):
    """structural comparison of the template `t` with the node `n`; a Name `H_x` in the template
    binds the node it meets (the same hole must meet equal nodes); an expression statement `H_x`
    at the end of a block binds the remaining statements"""
    if isinstance(t, ast.Name) and t.id.startswith("H_"):
        if t.id in binds and not _same(binds[t.id], n):
            raise ExtractError(f"{what}: `{ast.unparse(n)}` where `{ast.unparse(binds[t.id])}` was "
                               f"used before ({t.id})")
        binds[t.id] = n
        return
    if type(t) is not type(n):
        raise ExtractError(f"{what}: expected `{_short(t)}`, found `{_short(n)}`")
    for field in t._fields:
        if field in ("ctx", "type_comment", "kind"):
            continue
        tv, nv = getattr(t, field, None), getattr(n, field, None)
        _match_value(tv, nv, binds, what, (t, n))


def _short(x):
    try:
        return ast.unparse(x).split("\n")[0][:80]
    except Exception:
        return type(x).__name__


def _match_value(tv, nv, binds, what, ctx):
    if isinstance(tv, list):
        if not isinstance(nv, list):
            raise ExtractError(f"{what}: shape differs at `{_short(ctx[1])}`")
        if (tv and isinstance(tv[-1], ast.Expr) and isinstance(tv[-1].value, ast.Name)
                and tv[-1].value.id.startswith("H_")):
            head = tv[:-1]
            if len(nv) < len(head):
                raise ExtractError(f"{what}: statements missing in `{_short(ctx[1])}`")
            for a, b in zip(head, nv):
                match_template(a, b, binds, what)
            binds[tv[-1].value.id] = nv[len(head):]
            return
        if len(tv) != len(nv):
            raise ExtractError(f"{what}: expected {len(tv)} item(s) in `{_short(ctx[0])}`, found "
                               f"{len(nv)} in `{_short(ctx[1])}`")
        for a, b in zip(tv, nv):
            _match_value(a, b, binds, what, ctx)
    elif isinstance(tv, ast.AST):
        if not isinstance(nv, ast.AST):
            raise ExtractError(f"{what}: shape differs at `{_short(ctx[1])}`")
        match_template(tv, nv, binds, what)
    else:
        if tv != nv:
            raise ExtractError(f"{what}: expected `{_short(ctx[0])}`, found `{_short(ctx[1])}`")


def _template(src):
    node = ast.parse(textwrap.dedent(src)).body[0]
    return node


def _match_fn(src, fn_node, what):
    import copy
    t = _template(src)
    n = copy.copy(fn_node)
    n.body = _body(fn_node)
    n.returns = None
    t.returns = None
    binds = {}
    match_template(t, n, binds, what)
    return binds

# }}}


# {{{ Lean syntax

def L_list(xs, sep=", "):
    return "[" + sep.join(xs) + "]"


def L_bool(b):
    return "true" if b else "false"

# }}}


class Reader:
    def __init__(self, pa, ctx):
        self.pa = pa
        self.ctx = ctx
        self.cls = type(pa.parse)
        if self.cls.__module__ != pa.__name__:
            raise ExtractError(f"pymbolic.parser.parse is a {self.cls.__module__}.{self.cls.__qualname__}")
        shadow = set(vars(pa.parse)) & {"parse_terminal", "parse_prefix", "parse_expression",
                                         "parse_postfix", "parse_arglist", "parse_float",
                                         "_COMP_TABLE", "lex_table", "__call__"}
        if shadow:
            raise ExtractError(f"the instance pymbolic.parser.parse shadows {sorted(shadow)}")
        import pymbolic.primitives as prim
        self.prim = prim
        self.lex_texts = self._lex_texts()
        self.used_classes = {}
        pp, _sp = extract_prec(ctx)
        for name, field in PREC_NAMES.items():
            if name not in pa.__dict__:
                raise ExtractError(f"{name} is not defined in pymbolic.parser")
            if pp[field] != pa.__dict__[name]:
                raise ExtractError(f"extract/prec.py reads {field} = {pp[field]}, the module has "
                                   f"{name} = {pa.__dict__[name]}")

    def method(self, name):
        fn = getattr(self.cls, name, None)
        if fn is None:
            raise ExtractError(f"{self.cls.__name__}.{name} does not exist")
        return _fn_ast(fn, f"{self.cls.__name__}.{name}", self.pa), fn

    # {{{ tags

    def _lex_texts(self):
        """tag string -> set of literal texts of its rules (None for a non-literal rule)"""
        import pytools.lex
        table = getattr(self.cls, "lex_table")
        res = {}
        self.lex_tags = []
        for tag, rule in table:
            self.lex_tags.append(tag)
            res.setdefault(tag, set()).add(self._literal(rule) if isinstance(rule, pytools.lex.RE)
                                           else None)
        return res

    @staticmethod
    def _literal(rule):
        src = rule.Content
        if rule.RE.flags & ~re.UNICODE:
            return None
        if src.endswith("\\b"):
            src = src[:-2]
        out = []
        i = 0
        while i < len(src):
            ch = src[i]
            if ch == "\\":
                if i + 1 >= len(src) or src[i + 1].isalnum():
                    return None
                out.append(src[i + 1])
                i += 2
            elif ch in META:
                return None
            else:
                out.append(ch)
                i += 1
        return "".join(out) if out else None

    def tag_of_value(self, value, what):
        """the Lean `C07Tag` of a tag STRING"""
        if not isinstance(value, str):
            raise ExtractError(f"{what}: tag {value!r} is not a string")
        if not any(t is value for t in self.lex_tags):
            raise ExtractError(f"{what}: no rule of lex_table carries the tag object {value!r} "
                               "(the parser compares tags with `is`)")
        if value in TOKEN_CLASSES:
            tok = "." + TOKEN_CLASSES[value]
        else:
            texts = self.lex_texts.get(value)
            if not texts or None in texts or len(texts) != 1:
                raise ExtractError(f"{what}: the rule(s) of tag {value!r} in lex_table are not one "
                                   "literal: its tokens have no fixed text")
            tok = f".sym {lean_str(next(iter(texts)))}"
        return f"⟨{lean_str(value)}, {tok}⟩"

    def tag(self, node, what):
        """a module-level tag constant used as `_openpar`"""
        if not isinstance(node, ast.Name) or node.id not in self.pa.__dict__:
            raise ExtractError(f"{what}: `{_short(node)}` is not a module-level tag constant")
        return self.tag_of_value(self.pa.__dict__[node.id], what)

    # }}}

    def level(self, node, what):
        if node is None:
            return ".dflt"
        if isinstance(node, ast.Name) and node.id in PREC_NAMES:
            return f"(.prec .{PREC_NAMES[node.id]})"
        if (isinstance(node, ast.Constant) and isinstance(node.value, int)
                and not isinstance(node.value, bool) and node.value >= 0):
            return f"(.lit {node.value})"
        raise ExtractError(f"{what}: level `{_short(node)}` is neither a _PREC_ constant nor a literal")

    def prec_name(self, node, what):
        if isinstance(node, ast.Name) and node.id in PREC_NAMES:
            return "." + PREC_NAMES[node.id]
        raise ExtractError(f"{what}: `{_short(node)}` is not a _PREC_ constant")

    def class_of(self, obj, what):
        pa, prim = self.pa, self.prim
        for n in PRIMITIVE_CLASSES:
            if obj is getattr(prim, n, None):
                self.used_classes[n] = obj
                return "." + n
        import immutabledict
        table = [(getattr(pa, "FinalizedTuple", None), ".FinalizedTuple"),
                 (getattr(pa, "FinalizedList", None), ".FinalizedList"),
                 (getattr(pa, "FinalizedContainer", None), ".FinalizedContainer"),
                 (builtins.tuple, ".tuple"), (builtins.list, ".list"),
                 (immutabledict.immutabledict, ".immutabledict"),
                 (getattr(pa, "_join_to_slice", None), ".joinToSlice")]
        for o, name in table:
            if o is not None and obj is o:
                return name
        qn = getattr(obj, "__module__", "?") + "." + getattr(obj, "__qualname__", repr(obj))
        return f"(.other {lean_str(qn)})"


class Body:
    """reads the statements of one function (or one branch); `locals_` are the names that may be
    read, `scope` the imports seen so far"""

    def __init__(self, rd: Reader, what, params, dispatch=None, scope=None, fn_locals=()):
        self.rd = rd
        self.what = what
        # every name the enclosing function binds anywhere (Python makes it local everywhere):
        # such a name may only be read where this reader has seen it bound on the same path
        self.fn_locals = set(fn_locals)
        self.locals = set(params)
        self.dispatch = dispatch            # name of the local that holds `pstate.next_tag()`
        self.scope = dict(scope or {})      # local import name -> object
        self.ntemp = 0
        self.copies = {}                    # name of a `pstate.copy()` still at the current position

    def err(self, msg, n=None):
        tail = f": `{_short(n)}`" if n is not None else ""
        return ExtractError(f"{self.what}: {msg}{tail}")

    # {{{ names

    def do_import(self, st):
        import importlib
        if isinstance(st, ast.Import):
            for al in st.names:
                mod = importlib.import_module(al.name)
                if al.asname:
                    self.scope[al.asname] = mod
                else:
                    self.scope[al.name.split(".")[0]] = importlib.import_module(al.name.split(".")[0])
        else:
            if st.level:
                raise self.err("relative import", st)
            mod = importlib.import_module(st.module)
            for al in st.names:
                if not hasattr(mod, al.name):
                    raise self.err("import of a missing name", st)
                self.scope[al.asname or al.name] = getattr(mod, al.name)

    def resolve(self, node):
        """the run-time object a Name / dotted Attribute denotes (locals shadow nothing here: a
        local of that name is an error)"""
        if isinstance(node, ast.Name):
            if node.id in self.locals:
                raise self.err("a local variable is used where a class or function is expected", node)
            if node.id in self.scope:
                return self.scope[node.id]
            if node.id in self.fn_locals:
                raise self.err("a name the function binds elsewhere is read where it is not bound", node)
            if node.id in self.rd.pa.__dict__:
                return self.rd.pa.__dict__[node.id]
            if hasattr(builtins, node.id):
                return getattr(builtins, node.id)
            raise self.err("unknown name", node)
        if isinstance(node, ast.Attribute):
            base = self.resolve(node.value)
            if not inspect.ismodule(base) or not hasattr(base, node.attr):
                raise self.err("attribute of something that is not a module", node)
            return getattr(base, node.attr)
        raise self.err("not a name", node)

    def _global_only(self, node):
        if isinstance(node, ast.Name) and (node.id in self.fn_locals or node.id in self.locals
                                           or node.id in self.scope):
            raise self.err("a module-level constant is shadowed by a local name", node)

    def tag(self, node):
        self._global_only(node)
        return self.rd.tag(node, self.what)

    def level(self, node):
        if node is not None:
            self._global_only(node)
        return self.rd.level(node, self.what)

    def prec_name(self, node):
        self._global_only(node)
        return self.rd.prec_name(node, self.what)

    def is_pstate_call(self, node, meth, nargs=None):
        return (isinstance(node, ast.Call) and isinstance(node.func, ast.Attribute)
                and isinstance(node.func.value, ast.Name) and node.func.value.id == "pstate"
                and node.func.attr == meth and not node.keywords
                and (nargs is None or len(node.args) == nargs))

    def is_self_call(self, node, meth):
        return (isinstance(node, ast.Call) and isinstance(node.func, ast.Attribute)
                and isinstance(node.func.value, ast.Name) and node.func.value.id == "self"
                and node.func.attr == meth and not node.keywords)

    def parse_call_level(self, node, state_name="pstate"):
        """`self.parse_expression(<state_name>[, lvl])` -> Lean level, else None"""
        if not self.is_self_call(node, "parse_expression"):
            return None
        if not (1 <= len(node.args) <= 2) or not (isinstance(node.args[0], ast.Name)
                                                   and node.args[0].id == state_name):
            raise self.err("parse_expression call of an unknown form", node)
        return self.level(node.args[1] if len(node.args) == 2 else None)

    # }}}

    # {{{ conditions

    def cond(self, node):
        if isinstance(node, ast.UnaryOp) and isinstance(node.op, ast.Not):
            return f"(.not {self.cond(node.operand)})"
        if isinstance(node, ast.BoolOp):
            op = ".and" if isinstance(node.op, ast.And) else ".or"
            parts = [self.cond(v) for v in node.values]
            acc = parts[-1]
            for p in reversed(parts[:-1]):
                acc = f"({op} {p} {acc})"
            return acc
        if isinstance(node, ast.Name):
            if node.id not in self.locals:
                raise self.err("truth value of an unknown name", node)
            return f"(.truthy {lean_str(node.id)})"
        if (isinstance(node, ast.Call) and isinstance(node.func, ast.Name)
                and node.func.id == "isinstance" and "isinstance" not in self.locals
                and "isinstance" not in self.scope and "isinstance" not in self.rd.pa.__dict__
                and len(node.args) == 2 and not node.keywords):
            x, c = node.args
            if not isinstance(x, ast.Name) or x.id not in self.locals:
                raise self.err("isinstance of something that is not a local variable", node)
            cs = c.elts if isinstance(c, ast.Tuple) else [c]
            names = [self.rd.class_of(self.resolve(k), self.what) for k in cs]
            return f"(.isInst {lean_str(x.id)} {L_list(names)})"
        if self.is_pstate_call(node, "is_at_end"):
            return f"(.atEnd {self._index_arg(node)})"
        if self.is_pstate_call(node, "is_next", 1):
            return f"(.isNext {self.tag(node.args[0])})"
        if (isinstance(node, ast.Compare) and len(node.ops) == 1
                and isinstance(node.ops[0], (ast.Is, ast.Eq))
                and self.is_pstate_call(node.left, "next_tag")):
            # `==` on tag strings is `is` on the interned constants
            return (f"(.nextTagIs {self._index_arg(node.left)} "
                    f"{self.tag(node.comparators[0])})")
        raise self.err("unknown condition", node)

    def _index_arg(self, call):
        if not call.args:
            return "0"
        if (len(call.args) == 1 and isinstance(call.args[0], ast.Constant)
                and isinstance(call.args[0].value, int) and call.args[0].value >= 0):
            return str(call.args[0].value)
        raise self.err("index argument is not a literal", call)

    # }}}

    # {{{ terms

    def term(self, node, hoisted=None):
        """Lean `C07Tm`; `hoisted` (a list) collects `(temp, level)` of nested parse_expression
        calls in evaluation order — None: such calls are not allowed here"""
        lvl = self.parse_call_level(node)
        if lvl is not None:
            if hoisted is None:
                raise self.err("parse_expression call where a pure expression is expected", node)
            self.ntemp += 1
            name = f"${self.ntemp}"
            hoisted.append((name, lvl))
            self.locals.add(name)
            return f"(.var {lean_str(name)})"
        if isinstance(node, ast.Name):
            if node.id not in self.locals:
                raise self.err("unknown local variable", node)
            return f"(.var {lean_str(node.id)})"
        if isinstance(node, ast.Constant) and node.value is None:
            return ".none"
        if isinstance(node, ast.Tuple):
            return self.tuple_term(node.elts, hoisted)
        if isinstance(node, ast.List):
            return f"(.lst {self.tuple_term(node.elts, hoisted)})"
        if isinstance(node, ast.BinOp) and isinstance(node.op, ast.Add):
            a = self.term(node.left, hoisted)
            b = self.term(node.right, hoisted)
            return f"(.tcat {a} {b})"
        if isinstance(node, ast.UnaryOp) and isinstance(node.op, ast.USub):
            return f"(.neg {self.term(node.operand, hoisted)})"
        if isinstance(node, ast.Attribute) and isinstance(node.value, ast.Name) \
                and node.value.id in self.locals:
            return f"(.attr {self.term(node.value, hoisted)} {lean_str(node.attr)})"
        if self.is_pstate_call(node, "next_str", 0):
            return ".nextStr"
        if isinstance(node, ast.Subscript) and self.is_comp_lookup(node):
            return ".compOp"
        if isinstance(node, ast.Call) and not node.keywords \
                and not any(isinstance(a, ast.Starred) for a in node.args):
            if self._touches_pstate(node.func):
                raise self.err("unknown pstate call inside an expression", node)
            cls = self.rd.class_of(self.resolve(node.func), self.what)
            args = [self.term(a, hoisted) for a in node.args]
            if len(args) > 3:
                raise self.err("call with more than three arguments", node)
            return "(" + " ".join([f".mk{len(args)}", cls] + args) + ")"
        raise self.err("unknown expression", node)

    def is_comp_lookup(self, node):
        return (isinstance(node.value, ast.Attribute)
                and isinstance(node.value.value, ast.Name) and node.value.value.id == "self"
                and node.value.attr == "_COMP_TABLE" and isinstance(node.slice, ast.Name)
                and self.dispatch is not None and node.slice.id == self.dispatch)

    def tuple_term(self, elts, hoisted):
        parts = []
        for e in elts:
            if isinstance(e, ast.Starred):
                parts.append(("true", self.term(e.value, hoisted)))
            else:
                parts.append(("false", self.term(e, hoisted)))
        acc = ".tnil"
        for star, t in reversed(parts):
            acc = f"(.tcons {star} {t} {acc})"
        return acc

    @staticmethod
    def _touches_pstate(node):
        return any(isinstance(n, ast.Name) and n.id in ("pstate", "self") for n in ast.walk(node))

    def check_hoist_order(self, node):
        """everything Python evaluates BEFORE a nested parse_expression call must be a plain name
        or attribute load (no call, no subscript: nothing with effects, nothing that reads pstate)"""
        order = list(self._eval_order(node))
        idx = [i for i, n in enumerate(order) if self.is_self_call(n, "parse_expression")]
        if not idx:
            return
        for n in order[:idx[0]]:
            if isinstance(n, ast.Subscript) and self.is_comp_lookup(n):
                continue        # a dictionary look-up with the local `next_tag`: no effect
            if isinstance(n, (ast.Call, ast.Subscript)):
                raise self.err("an expression with effects or reads of pstate is evaluated before "
                               "a nested parse_expression call", n)

    def _eval_order(self, n):
        """sub-expressions in the order Python finishes evaluating them"""
        if self.is_self_call(n, "parse_expression"):
            yield n
            return
        if isinstance(n, ast.Call):
            yield from self._eval_order(n.func)
            for a in n.args:
                yield from self._eval_order(a)
            yield n
            return
        for c in ast.iter_child_nodes(n):
            if isinstance(c, ast.expr):
                yield from self._eval_order(c)
        yield n

    # }}}

    # {{{ statements

    def simple(self, st):
        """one statement -> list of Lean `C07Stmt` (empty for imports), or None if it is not simple"""
        if isinstance(st, (ast.Import, ast.ImportFrom)):
            self.do_import(st)
            return []
        if isinstance(st, ast.Pass):
            return []
        if isinstance(st, ast.Expr):
            v = st.value
            if self.is_pstate_call(v, "advance", 0):
                self.copies.clear()
                return [".advance"]
            if self.is_pstate_call(v, "expect_not_end", 0):
                return [".expectNotEnd"]
            if self.is_pstate_call(v, "expect", 1):
                return [f".expect {self.tag(v.args[0])}"]
            raise self.err("unknown expression statement", st)
        if isinstance(st, ast.Assert):
            if st.msg is not None:
                raise self.err("assert with a message", st)
            return [f".assertC {self.cond(st.test)}"]
        if isinstance(st, ast.Assign) and len(st.targets) == 1:
            tgt = st.targets[0]
            if isinstance(tgt, ast.Tuple):
                if (len(tgt.elts) == 2 and all(isinstance(e, ast.Name) for e in tgt.elts)
                        and self.is_self_call(st.value, "parse_arglist")
                        and len(st.value.args) == 1 and isinstance(st.value.args[0], ast.Name)
                        and st.value.args[0].id == "pstate"):
                    a, k = tgt.elts[0].id, tgt.elts[1].id
                    self.locals.update((a, k))
                    self.copies.clear()
                    return [f".arglist {lean_str(a)} {lean_str(k)}"]
                raise self.err("unknown tuple assignment", st)
            if not isinstance(tgt, ast.Name):
                raise self.err("assignment to something that is not a name", st)
            x = tgt.id
            if x in ("pstate", "self", "min_precedence") or x == self.dispatch:
                raise self.err("assignment to a reserved name", st)
            if x == "did_something":
                if isinstance(st.value, ast.Constant) and st.value.value is True:
                    return [".setDid"]
                raise self.err("did_something is set to something other than True", st)
            if self.is_pstate_call(st.value, "copy", 0):
                self.copies[x] = True
                return []
            lvl = self.parse_call_level(st.value)
            if lvl is not None:
                self.locals.add(x)
                self.copies.clear()
                return [f".parse {lean_str(x)} {lvl}"]
            self.check_hoist_order(st.value)
            hoisted = []
            t = self.term(st.value, hoisted)
            out = [f".parse {lean_str(n)} {lv}" for n, lv in hoisted]
            if hoisted:
                self.copies.clear()
            self.locals.add(x)
            out.append(f".assign {lean_str(x)} {t}")
            return out
        if isinstance(st, ast.Try):
            return [self.try_parse(st)]
        return None

    def try_parse(self, st):
        if st.finalbody or len(st.handlers) != 1 or len(st.body) != 1 or len(st.orelse) != 2:
            raise self.err("try statement of an unknown shape", st)
        h = st.handlers[0]
        import pytools.lex
        if h.name is not None or h.type is None or self.resolve(h.type) is not pytools.lex.ParseError:
            raise self.err("handler does not catch exactly pytools.lex.ParseError", st)
        b = st.body[0]
        if not (isinstance(b, ast.Assign) and len(b.targets) == 1 and isinstance(b.targets[0], ast.Name)):
            raise self.err("try body is not one assignment", st)
        call = b.value
        if not (self.is_self_call(call, "parse_expression") and call.args
                and isinstance(call.args[0], ast.Name) and call.args[0].id in self.copies):
            raise self.err("try body does not parse on a copy of pstate taken at the current position", st)
        copy_name = call.args[0].id
        lvl = self.parse_call_level(call, copy_name)
        x = b.targets[0].id
        # except arm: one pure assignment, pstate untouched
        if not (len(h.body) == 1 and isinstance(h.body[0], ast.Assign) and len(h.body[0].targets) == 1
                and isinstance(h.body[0].targets[0], ast.Name)):
            raise self.err("except arm is not one assignment", st)
        fv = h.body[0].targets[0].id
        fail = self.term(h.body[0].value)
        # else arm: one pure assignment, then pstate.assign(copy)
        o0, o1 = st.orelse
        if not (isinstance(o0, ast.Assign) and len(o0.targets) == 1
                and isinstance(o0.targets[0], ast.Name)):
            raise self.err("else arm does not start with one assignment", st)
        if not (isinstance(o1, ast.Expr) and self.is_pstate_call(o1.value, "assign", 1)
                and isinstance(o1.value.args[0], ast.Name) and o1.value.args[0].id == copy_name):
            raise self.err("else arm does not end with pstate.assign(<the copy>)", st)
        ov = o0.targets[0].id
        if ov != fv:
            raise self.err("the two arms assign different names", st)
        saved = set(self.locals)
        self.locals.add(x)
        ok = self.term(o0.value)
        self.locals = saved | {ov}           # `x` exists on one path only
        self.copies.clear()
        return (f".tryParse {lean_str(x)} {lvl} {lean_str(ov)} {ok} {lean_str(fv)} {fail}")

    def pure_assign(self, stmts):
        """`[v = tm]` or `[pass]` or `[]` -> (v | None, tm | None); anything else -> False"""
        stmts = [s for s in stmts if not isinstance(s, (ast.Import, ast.ImportFrom))]
        if not stmts or (len(stmts) == 1 and isinstance(stmts[0], ast.Pass)):
            return (None, None)
        if (len(stmts) == 1 and isinstance(stmts[0], ast.Assign) and len(stmts[0].targets) == 1
                and isinstance(stmts[0].targets[0], ast.Name)
                and stmts[0].targets[0].id not in ("did_something",)
                and not any(self.is_self_call(n, "parse_expression") or self.is_self_call(n, "parse_arglist")
                            or self.is_pstate_call(n, "copy") for n in ast.walk(stmts[0].value))):
            return (stmts[0].targets[0].id, stmts[0].value)
        return False

    def commands(self, stmts):
        """statement list -> list of Lean `C07Cmd`"""
        out = []
        for st in stmts:
            if isinstance(st, ast.If):
                out.append(self.if_cmd(st))
                continue
            ss = self.simple(st)
            if ss is None:
                raise self.err("unknown statement", st)
            out.extend(f".s ({s})" for s in ss)
        return out

    def _arm_term(self, arm, v):
        """the term an arm assigns to `v` (`pass` = `v = v`); imports of the arm are visible in
        the arm only"""
        saved = dict(self.scope)
        try:
            for s in arm[2]:
                if isinstance(s, (ast.Import, ast.ImportFrom)):
                    self.do_import(s)
            return self.term(arm[1]) if arm[0] else f"(.var {lean_str(v)})"
        finally:
            self.scope = saved

    def if_as_assign(self, st):
        """`if c: v = A  else: v = B` (pure arms, `pass` = `v = v`) -> `.assign v (.cond c A B)`,
        else None"""
        a, b = self.pure_assign(st.body), self.pure_assign(st.orelse)
        if a is False or b is False:
            return None
        names = {x[0] for x in (a, b) if x[0] is not None}
        if len(names) != 1:
            return None
        v = names.pop()
        if any(x[0] is None for x in (a, b)) and v not in self.locals:
            raise self.err("a name is assigned in one arm only and does not exist before", st)
        c = self.cond(st.test)
        ta = self._arm_term(a + (st.body,), v)
        tb = self._arm_term(b + (st.orelse,), v)
        self.locals.add(v)
        return f".assign {lean_str(v)} (.cond {c} {ta} {tb})"

    def if_cmd(self, st):
        asg = self.if_as_assign(st)
        if asg is not None:
            return f".s ({asg})"
        c = self.cond(st.test)
        before = set(self.locals)
        scope = dict(self.scope)
        thn = self.simple_list(st.body)
        l1 = self.locals
        self.locals = set(before)
        self.scope = dict(scope)
        els = self.simple_list(st.orelse)
        self.scope = scope                    # imports of an arm are visible in the arm only
        self.locals = l1 & self.locals       # only names both arms define may be read afterwards
        return f".ifc {c} {L_list(thn)} {L_list(els)}"

    def simple_list(self, stmts):
        out = []
        for s in stmts:
            if isinstance(s, ast.If):
                asg = self.if_as_assign(s)
                if asg is None:
                    raise self.err("nested compound statement", s)
                out.append(asg)
                continue
            ss = self.simple(s)
            if ss is None:
                raise self.err("nested compound statement", s)
            out.extend(ss)
        return out

    def return_term(self, stmts):
        """`[if c: return A] … return B` -> term"""
        stmts = list(stmts)
        if not stmts:
            raise self.err("function falls off its end")
        st = stmts[0]
        if isinstance(st, (ast.Import, ast.ImportFrom)):
            self.do_import(st)
            return self.return_term(stmts[1:])
        if isinstance(st, ast.Return) and st.value is not None:
            if len(stmts) != 1:
                raise self.err("statements after return", stmts[1])
            return self.term(st.value)
        if isinstance(st, ast.If):
            a = self.return_term(st.body)
            rest = st.orelse if st.orelse else stmts[1:]
            if st.orelse and len(stmts) != 1:
                raise self.err("statements after an if/else that returns", stmts[1])
            b = self.return_term(rest)
            return f"(.cond {self.cond(st.test)} {a} {b})"
        raise self.err("unknown statement where a return is expected", st)

    # }}}


# {{{ the functions

def chain(node, what):
    """`if … elif … else …` -> [(test, body)], else-body"""
    rows = []
    while True:
        rows.append((node.test, node.body))
        if len(node.orelse) == 1 and isinstance(node.orelse[0], ast.If):
            node = node.orelse[0]
        else:
            return rows, node.orelse


def bound_names(node):
    """every name a function binds (imports, assignments, loop / with / except targets): Python
    treats each of them as local in the WHOLE function"""
    out = set()
    for n in ast.walk(node):
        if isinstance(n, (ast.Import, ast.ImportFrom)):
            for al in n.names:
                out.add(al.asname or al.name.split(".")[0])
        elif isinstance(n, ast.Name) and isinstance(n.ctx, (ast.Store, ast.Del)):
            out.add(n.id)
        elif isinstance(n, ast.ExceptHandler) and n.name:
            out.add(n.name)
        elif isinstance(n, (ast.FunctionDef, ast.ClassDef)) and n is not node:
            out.add(n.name)
    return out


def split_frame(rd, node, what):
    """leading imports of a method body are executed into a scope; returns (scope, other stmts)"""
    b = Body(rd, what, [])
    rest = []
    for st in _body(node):
        if isinstance(st, (ast.Import, ast.ImportFrom)) and not rest:
            b.do_import(st)
        else:
            rest.append(st)
    return b.scope, rest


def read_terminal(rd):
    node, _ = rd.method("parse_terminal")
    what = "parse_terminal"
    _plain_params(node, ["self", "pstate"], what)
    scope, rest = split_frame(rd, node, what)
    if len(rest) != 2 or not isinstance(rest[1], ast.If):
        raise ExtractError(f"{what}: body is not `next_tag = pstate.next_tag()` and one if-chain")
    binds = {}
    match_template(_template("H_NT = pstate.next_tag()"), rest[0], binds, what)
    nt = binds["H_NT"]
    if not isinstance(nt, ast.Name):
        raise ExtractError(f"{what}: dispatch variable is not a name")
    rows, final = chain(rest[1], what)
    fl = bound_names(node) - set(scope)
    b = Body(rd, what, [], dispatch=nt.id, scope=scope, fn_locals=fl)
    nsa = "pstate.next_str_and_advance()"
    out = []
    for test, body in rows:
        tb = {}
        match_template(_template(f"{nt.id} is H_TAG").value, test, tb, what)
        tag = b.tag(tb["H_TAG"])
        body = list(body)
        warn = False
        conv = None

        def m(src, stmt):
            bb = {}
            try:
                match_template(_template(src), stmt, bb, what)
            except ExtractError:
                return None
            return bb
        if len(body) == 1:
            if m(f"return int({nsa})", body[0]) is not None and b.resolve(ast.Name("int")) is int:
                conv = ".intOf"
            elif m(f"return self.parse_float({nsa})", body[0]) is not None:
                conv = ".floatOf"
            elif m(f"return complex({nsa})", body[0]) is not None \
                    and b.resolve(ast.Name("complex")) is complex:
                conv = ".complexOf"
        if conv is None and len(body) == 2:
            bb = m(f"assert {nsa} == H_TEXT", body[0])
            if bb is not None and isinstance(bb["H_TEXT"], ast.Constant) \
                    and isinstance(bb["H_TEXT"].value, str) and isinstance(body[1], ast.Return) \
                    and isinstance(body[1].value, ast.Constant) \
                    and isinstance(body[1].value.value, bool):
                conv = f".constBool {L_bool(body[1].value.value)} {lean_str(bb['H_TEXT'].value)}"
        if conv is None:
            stmts = list(body)
            if (len(stmts) == 3 and isinstance(stmts[0], ast.ImportFrom)
                    and isinstance(stmts[1], ast.Expr) and isinstance(stmts[1].value, ast.Call)):
                b.do_import(stmts[0])
                import warnings
                call = stmts[1].value
                if b.resolve(call.func) is warnings.warn and not any(
                        Body._touches_pstate(a) for a in call.args + [k.value for k in call.keywords]):
                    warn = True
                    stmts = stmts[2:]
            if len(stmts) == 1:
                bb = m(f"return H_CLS({nsa})", stmts[0])
                if bb is not None and rd.class_of(b.resolve(bb["H_CLS"]), what) == ".Variable":
                    conv = f".variable {L_bool(warn)}"
        if conv is None:
            raise ExtractError(f"{what}: unknown branch body: `{_short(body[0])}`")
        out.append(f"⟨{tag}, {conv}⟩")
    fb = {}
    if len(final) != 1:
        raise ExtractError(f"{what}: the final else is not one statement")
    match_template(_template("pstate.expected(H_WHAT)"), final[0], fb, what)
    return out


def read_prefix(rd):
    node, _ = rd.method("parse_prefix")
    what = "parse_prefix"
    _plain_params(node, ["self", "pstate"], what)
    scope, rest = split_frame(rd, node, what)
    if len(rest) != 3 or not isinstance(rest[1], ast.If):
        raise ExtractError(f"{what}: body is not expect_not_end, one if-chain, return")
    match_template(_template("pstate.expect_not_end()"), rest[0], {}, what)
    rb = {}
    match_template(_template("return H_RES"), rest[2], rb, what)
    if not isinstance(rb["H_RES"], ast.Name):
        raise ExtractError(f"{what}: returns something other than a local")
    res = rb["H_RES"].id
    rows, final = chain(rest[1], what)
    fl = bound_names(node) - set(scope)
    frame = Body(rd, what, [], scope=scope, fn_locals=fl)
    out = []
    for test, body in rows:
        tb = {}
        match_template(_template("pstate.is_next(H_TAG)").value, test, tb, what)
        tag = frame.tag(tb["H_TAG"])
        b = Body(rd, f"{what}[{tag}]", [], scope=scope, fn_locals=fl)
        cmds = b.commands(body)
        if res not in b.locals:
            raise ExtractError(f"{what}[{tag}]: does not assign {res}")
        out.append((tag, cmds))
    if len(final) != 1:
        raise ExtractError(f"{what}: the final else is not one statement")
    match_template(_template(f"{res} = self.parse_terminal(pstate)"), final[0], {}, what)
    return res, out


def read_postfix(rd):
    node, _ = rd.method("parse_postfix")
    what = "parse_postfix"
    _plain_params(node, ["self", "pstate", "min_precedence", "left_exp"], what)
    scope, rest = split_frame(rd, node, what)
    if len(rest) != 4 or not isinstance(rest[2], ast.If):
        raise ExtractError(f"{what}: body is not did_something = False, next_tag = …, one if-chain, return")
    match_template(_template("did_something = False"), rest[0], {}, what)
    nb = {}
    match_template(_template("H_NT = pstate.next_tag()"), rest[1], nb, what)
    if not isinstance(nb["H_NT"], ast.Name):
        raise ExtractError(f"{what}: dispatch variable is not a name")
    nt = nb["H_NT"].id
    match_template(_template("return left_exp, did_something"), rest[3], {}, what)
    rows, final = chain(rest[2], what)
    if final:
        raise ExtractError(f"{what}: the chain has a final else")
    fl = bound_names(node) - set(scope)
    frame = Body(rd, what, ["left_exp"], dispatch=nt, scope=scope, fn_locals=fl)
    out = []
    for test, body in rows:
        if not (isinstance(test, ast.BoolOp) and isinstance(test.op, ast.And) and len(test.values) == 2):
            raise ExtractError(f"{what}: test is not `<tag test> and <guard>`: `{_short(test)}`")
        t1, t2 = test.values
        if (isinstance(t1, ast.Compare) and len(t1.ops) == 1 and isinstance(t1.left, ast.Name)
                and t1.left.id == nt and isinstance(t1.ops[0], ast.Is)):
            tst = f".is {frame.tag(t1.comparators[0])}"
        elif (isinstance(t1, ast.Compare) and len(t1.ops) == 1 and isinstance(t1.left, ast.Name)
                and t1.left.id == nt and isinstance(t1.ops[0], ast.In)
                and ast.dump(t1.comparators[0]) == ast.dump(_template("self._COMP_TABLE").value)):
            tst = ".inComp"
        else:
            raise ExtractError(f"{what}: unknown tag test `{_short(t1)}`")
        if not (isinstance(t2, ast.Compare) and len(t2.ops) == 1
                and isinstance(t2.ops[0], (ast.Gt, ast.GtE))
                and isinstance(t2.comparators[0], ast.Name)
                and t2.comparators[0].id == "min_precedence"):
            raise ExtractError(f"{what}: unknown guard `{_short(t2)}`")
        prec = frame.prec_name(t2.left)
        strict = isinstance(t2.ops[0], ast.Gt)
        b = Body(rd, f"{what}[{tst}]", ["left_exp"], dispatch=nt, scope=scope, fn_locals=fl)
        cmds = b.commands(body)
        out.append((tst, prec, strict, cmds))
    return out


EXPR_TEMPLATE = """
def parse_expression(self, pstate, min_precedence=H_DEFAULT):
    left_exp = self.parse_prefix(pstate)
    did_something = True
    while did_something:
        did_something = False
        if pstate.is_at_end():
            return left_exp
        result = self.parse_postfix(pstate, min_precedence, left_exp)
        left_exp, did_something = result
    H_TAIL
"""

ARGLIST_TEMPLATE = """
def parse_arglist(self, pstate):
    pstate.expect_not_end()
    args = []
    kwargs = {}
    comma_allowed = False
    while True:
        pstate.expect_not_end()
        saw_comma = False
        if pstate.next_tag() is H_SEP:
            saw_comma = True
            if not comma_allowed:
                pstate.raise_parse_error(H_MSG1)
            pstate.advance()
            pstate.expect_not_end()
        if pstate.next_tag() is H_CLOSE:
            pstate.advance()
            return tuple(args), kwargs
        if not saw_comma and comma_allowed:
            pstate.raise_parse_error(H_MSG2)
        if (pstate.next_tag() is H_KWNAME
                and not pstate.is_at_end(1)
                and pstate.next_tag(1) == H_KWEQ):
            kw = pstate.next_str()
            pstate.advance()
            pstate.advance()
            kwargs[kw] = self.parse_expression(pstate, H_KWLVL)
        else:
            if kwargs:
                pstate.raise_parse_error(H_MSG3)
            args.append(self.parse_expression(pstate, H_POSLVL))
        comma_allowed = True
"""

CALL_HEAD = """
def __call__(self, expr_str, min_precedence=H_DEFAULT):
    lex_result = [(tag, s, idx, match_obj)
            for (tag, s, idx, match_obj) in pytools.lex.lex(
                self.lex_table, expr_str, match_objects=True)
            if tag is not H_DROP]
    pstate = pytools.lex.LexIterator(lex_result, expr_str)
    result = self.parse_expression(pstate, min_precedence)
"""
CALL_WITH_CHECK = CALL_HEAD + """    if not pstate.is_at_end():
        pstate.raise_parse_error(H_MSG)
    return result
"""
CALL_WITHOUT_CHECK = CALL_HEAD + """    return result
"""


def _nat_default(node, what):
    if (isinstance(node, ast.Constant) and isinstance(node.value, int)
            and not isinstance(node.value, bool) and node.value >= 0):
        return node.value
    raise ExtractError(f"{what}: default `{_short(node)}` is not a natural number literal")


def _msg(node, what):
    if not (isinstance(node, ast.Constant) and isinstance(node.value, str)):
        raise ExtractError(f"{what}: error message `{_short(node)}` is not a string literal")


def read_expression(rd):
    node, _ = rd.method("parse_expression")
    what = "parse_expression"
    binds = _match_fn(EXPR_TEMPLATE, node, what)
    dflt = _nat_default(binds["H_DEFAULT"], what)
    b = Body(rd, what, ["left_exp"])
    exit_tm = b.return_term(binds["H_TAIL"])
    return dflt, exit_tm


def read_arglist(rd):
    node, _ = rd.method("parse_arglist")
    what = "parse_arglist"
    binds = _match_fn(ARGLIST_TEMPLATE, node, what)
    for k in ("H_MSG1", "H_MSG2", "H_MSG3"):
        _msg(binds[k], what)
    tags = [rd.tag(binds[k], what) for k in ("H_SEP", "H_CLOSE", "H_KWNAME", "H_KWEQ")]
    lv = [rd.level(binds[k], what) for k in ("H_KWLVL", "H_POSLVL")]
    if tuple is not builtins.tuple or "tuple" in rd.pa.__dict__:
        raise ExtractError(f"{what}: `tuple` is shadowed")
    return tags, lv


def read_call(rd):
    node, _ = rd.method("__call__")
    what = "__call__"
    import pytools.lex
    if rd.pa.__dict__.get("pytools") is None or rd.pa.__dict__["pytools"].lex is not pytools.lex:
        raise ExtractError(f"{what}: `pytools.lex` is not the module pytools.lex")
    if pytools.lex.LexIterator.__module__ != "pytools.lex":
        raise ExtractError(f"{what}: LexIterator replaced")
    last = None
    for check in (True, False):
        try:
            binds = _match_fn(CALL_WITH_CHECK if check else CALL_WITHOUT_CHECK, node, what)
        except ExtractError as e:
            last = last or e
            continue
        if check:
            _msg(binds["H_MSG"], what)
        drop = binds["H_DROP"]
        if not isinstance(drop, ast.Name) or not isinstance(rd.pa.__dict__.get(drop.id), str):
            raise ExtractError(f"{what}: dropped tag `{_short(drop)}` is not a tag constant")
        return rd.pa.__dict__[drop.id], _nat_default(binds["H_DEFAULT"], what), check
    raise last


def read_float(rd):
    node, _ = rd.method("parse_float")
    what = "parse_float"
    binds = _match_fn("def parse_float(self, s):\n    return float(s.replace(H_A, H_B).replace(H_C, H_D))",
                      node, what)
    vals = []
    for k in ("H_A", "H_B", "H_C", "H_D"):
        n = binds[k]
        if not (isinstance(n, ast.Constant) and isinstance(n.value, str)):
            raise ExtractError(f"{what}: `{_short(n)}` is not a string literal")
        vals.append(n.value)
    if vals[1] != "e" or vals[3] != "e":
        raise ExtractError(f"{what}: replacement by something other than 'e'")
    if "float" in rd.pa.__dict__:
        raise ExtractError(f"{what}: `float` is shadowed")
    return [vals[0], vals[2]]


def read_join(rd):
    fn = rd.pa.__dict__.get("_join_to_slice")
    what = "_join_to_slice"
    node = _fn_ast(fn, what, rd.pa)
    _plain_params(node, ["left", "right"], what)
    b = Body(rd, what, ["left", "right"])
    return b.return_term(_body(node))


def read_comp(rd):
    table = getattr(rd.cls, "_COMP_TABLE", None)
    if not isinstance(table, dict):
        raise ExtractError("Parser._COMP_TABLE is not a dict")
    out = []
    for k, v in table.items():
        if not isinstance(v, str):
            raise ExtractError(f"_COMP_TABLE[{k!r}] is not a string")
        out.append(f"({rd.tag_of_value(k, '_COMP_TABLE')}, {lean_str(v)})")
    return out

# }}}


def read_all(rd):
    terms = read_terminal(rd)
    _res, pres = read_prefix(rd)
    posts = read_postfix(rd)
    dflt, exit_tm = read_expression(rd)
    al_tags, al_lv = read_arglist(rd)
    drop, cdflt, check = read_call(rd)
    freps = read_float(rd)
    join = read_join(rd)
    comp = read_comp(rd)
    ctors = []
    for n in PRIMITIVE_CLASSES:
        if n in rd.used_classes:
            c = rd.used_classes[n]
            if not dataclasses.is_dataclass(c):
                raise ExtractError(f"{n} is not a dataclass")
            ctors.append(f"({lean_str(n)}, {L_list([lean_str(f.name) for f in dataclasses.fields(c) if f.init])})")
    return dict(terms=terms, pres=pres, posts=posts, dflt=dflt, exit_tm=exit_tm, al_tags=al_tags,
                al_lv=al_lv, drop=drop, cdflt=cdflt, check=check, freps=freps, join=join, comp=comp,
                ctors=ctors)


def L_body(cmds, ind):
    if not cmds:
        return "[]"
    pad = " " * ind
    return "[\n" + ",\n".join(pad + c for c in cmds) + "]"


def L_pre_row(tag, cmds, ind=8):
    return f"{{ tag := {tag}, body := {L_body(cmds, ind)} }}"


def L_post_row(tst, prec, strict, cmds, ind=8):
    return (f"{{ test := {tst}, prec := {prec}, strict := {L_bool(strict)}, "
            f"body := {L_body(cmds, ind)} }}")


def L_arglist(d):
    t, lv = d["al_tags"], d["al_lv"]
    return (f"{{ sep := {t[0]}, close := {t[1]}, kwName := {t[2]}, kwEq := {t[3]}, "
            f"kwLvl := {lv[0]}, posLvl := {lv[1]} }}")


def L_call(d):
    return (f"{{ dropped := {lean_str(d['drop'])}, dflt := {d['cdflt']}, "
            f"endCheck := {L_bool(d['check'])} }}")


def render(rd):
    d = read_all(rd)
    lines = []
    lines.append("import PV.Model.ParserTable")
    lines.append("/- GENERATED by extract/parser.py from the source of pymbolic/parser.py — do not edit. -/")
    lines.append("namespace PV.Generated\n")
    lines.append("def c07ParserTable : C07ParserTable := {")
    lines.append("  compTable := [\n    " + ",\n    ".join(d["comp"]) + "],")
    lines.append(f"  joinToSlice := {d['join']},")
    lines.append(f"  floatReplaces := {L_list([lean_str(x) for x in d['freps']])},")
    lines.append("  ctors := [\n    " + ",\n    ".join(d["ctors"]) + "],")
    lines.append("  terminals := [\n    " + ",\n    ".join(d["terms"]) + "],")
    lines.append("  prefixes := [")
    lines.append(",\n".join("    " + L_pre_row(tag, cmds) for tag, cmds in d["pres"]) + "],")
    lines.append("  postfixes := [")
    lines.append(",\n".join("    " + L_post_row(*row) for row in d["posts"]) + "],")
    lines.append(f"  exprDefault := {d['dflt']},")
    lines.append(f"  exprExit := {d['exit_tm']},")
    lines.append(f"  arglist := {L_arglist(d)},")
    lines.append(f"  call := {L_call(d)} }}")
    lines.append("\nend PV.Generated\n")
    return "\n".join(lines)


def extract_parser(ctx=None):
    pa = _mod(ctx)
    rd = Reader(pa, ctx)
    text = render(rd)
    write_if_changed(os.path.join(LEAN, "PV", "Generated", "Parser.lean"), text)
    return text
