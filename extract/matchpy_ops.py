"""T-gen for C16: regenerate lean/PV/Generated/MatchpyOps.lean from the live classes of
pymbolic.interop.matchpy (working tree of /repo).

One `OpRow` per `Operation` subclass the bridge declares (class name, `arity`, the flags matchpy
reads: `commutative`, `associative`, `one_identity`, the operand fields of the dataclass, whether
ONE field holds the whole operand tuple, `_mapper_method`), one `AtomRow` per atom class, the
`(min_count, fixed_size)` of `Wildcard.dot/star/plus`, and the names of the `map_*` methods the two
mappers define.  Every shape this reader does not understand is an `ExtractError` (reported as a
broken obligation), never a silent default; in particular each class is probed once: an instance
built through matchpy's metaclass must have the operands it was given and the `repr` the model's
`MTerm.repr` predicts (that is what `PymbolicOp.__lt__` compares).
"""
from __future__ import annotations

import dataclasses
import os

from harness.leanio import LEAN

from .prec import write_if_changed

# canonical order of the rows (definition order in __init__.py); unknown classes are appended
ORDER = ["TupleOp", "Variable", "Call", "Subscript", "TrueDiv", "FloorDiv", "Modulo", "Power",
         "LeftShift", "RightShift", "Sum", "Product", "LogicalOr", "LogicalAnd", "BitwiseOr",
         "BitwiseAnd", "BitwiseXor", "LogicalNot", "BitwiseNot", "Comparison", "If"]
ATOMS = ["Scalar", "Id", "ComparisonOp"]


class ExtractError(Exception):
    pass


def _flag(cls, name):
    v = getattr(cls, name, None)
    if not isinstance(v, bool):
        raise ExtractError(f"{cls.__name__}.{name} = {v!r} is not a bool")
    return v


def lean_str(s):
    if not isinstance(s, str) or any(c in s for c in '"\\\n'):
        raise ExtractError(f"cannot write {s!r} as a Lean string literal")
    return '"' + s + '"'


def lean_bool(b):
    return "true" if b else "false"


def lean_list(xs):
    return "[" + ", ".join(xs) + "]"


def read_op(m, cls):
    from matchpy import Arity
    name = cls.__name__
    ar = getattr(cls, "arity", None)
    if not isinstance(ar, Arity) or not isinstance(ar.min_count, int) or ar.min_count < 0 \
            or not isinstance(ar.fixed_size, bool):
        raise ExtractError(f"{name}.arity = {ar!r} is not an Arity(min_count, fixed_size)")
    comm, assoc, oneid = (_flag(cls, k) for k in ("commutative", "associative", "one_identity"))
    if _flag(cls, "infix"):
        raise ExtractError(f"{name}.infix is set (str() of terms is not modelled that way)")
    if getattr(cls, "unpacked_args_to_init", None) is not True:
        raise ExtractError(f"{name}.unpacked_args_to_init is not True")
    method = getattr(cls, "_mapper_method", None)
    if not isinstance(method, str):
        raise ExtractError(f"{name}._mapper_method = {method!r} is not a string")
    if not dataclasses.is_dataclass(cls):
        raise ExtractError(f"{name} is not a dataclass")
    fs = dataclasses.fields(cls)
    operand_fields = [f.name for f in fs if not f.metadata.get("not_an_operand", False)]
    others = [f for f in fs if f.metadata.get("not_an_operand", False)]
    if [f.name for f in others] != ["variable_name"] or fs[-1].name != "variable_name" \
            or others[0].default is not None:
        raise ExtractError(f"{name}: the non-operand fields are {[f.name for f in others]}, "
                           "expected exactly a trailing variable_name = None")
    if "__eq__" not in cls.__dict__ or "__repr__" not in cls.__dict__:
        raise ExtractError(f"{name}: __eq__ / __repr__ are not generated for this class")
    if name != "TupleOp":
        if not issubclass(cls, m.PymbolicOp):
            raise ExtractError(f"{name} is not a PymbolicOp")
        if cls.__lt__ is not m.PymbolicOp.__lt__:
            raise ExtractError(f"{name}.__lt__ is not PymbolicOp.__lt__")
        packed = cls.operands is not m.PymbolicOp.operands
    else:
        packed = True
    if packed and len(operand_fields) != 1:
        raise ExtractError(f"{name}: overrides `operands` but has operand fields {operand_fields}")
    if not packed and (not ar.fixed_size or ar.min_count != len(operand_fields)):
        raise ExtractError(f"{name}: arity {ar} does not fit the operand fields {operand_fields}")
    if packed and ar.fixed_size:
        raise ExtractError(f"{name}: one packed operand field but a fixed arity {ar}")
    # probe: build one instance through the metaclass and compare with what the model predicts
    n = 2 if packed else len(operand_fields)
    dummies = tuple(m.Id(f"d{i}") for i in range(n))
    inst = cls(dummies) if name == "TupleOp" else cls(*dummies)
    if tuple(inst.operands) != dummies:
        raise ExtractError(f"{name}(*{dummies}).operands = {inst.operands!r}")
    if inst.variable_name is not None:
        raise ExtractError(f"{name}: variable_name of a fresh instance is {inst.variable_name!r}")
    if packed:
        if getattr(inst, operand_fields[0]) != dummies:
            raise ExtractError(f"{name}.{operand_fields[0]} does not hold the operand tuple")
        body = f"{operand_fields[0]}=({', '.join(map(repr, dummies))}), "
    else:
        for f, d in zip(operand_fields, dummies):
            if getattr(inst, f) is not d:
                raise ExtractError(f"{name}.{f} is not the operand it was given")
        body = "".join(f"{f}={d!r}, " for f, d in zip(operand_fields, dummies))
    want = f"{name}({body}variable_name=None)"
    if repr(inst) != want:
        raise ExtractError(f"repr of {name}: {repr(inst)!r}, the model predicts {want!r}")
    if type(inst).__name__ != name or (name != "TupleOp" and inst.name != name):
        raise ExtractError(f"{name}: instance class / name differ")
    return (name, ar.min_count, ar.fixed_size, comm, assoc, oneid, operand_fields, packed, method)


def read_atom(m, cls):
    name = cls.__name__
    if not dataclasses.is_dataclass(cls) or not issubclass(cls, m._Constant):
        raise ExtractError(f"{name} is not a _Constant dataclass")
    if cls.__lt__ is not m._Constant.__lt__:
        raise ExtractError(f"{name}.__lt__ is not _Constant.__lt__")
    fs = [f.name for f in dataclasses.fields(cls)]
    method = None
    for f in dataclasses.fields(cls):
        if f.name == "_mapper_method":
            method = f.default
            if not isinstance(method, str):
                raise ExtractError(f"{name}._mapper_method default is {method!r}")
    if method is None and hasattr(cls, "_mapper_method"):
        raise ExtractError(f"{name} has a _mapper_method that is not a dataclass field")
    inst = cls("v")
    want = f"{name}(value='v', variable_name=None" + (
        f", _mapper_method={method!r})" if method is not None else ")")
    if repr(inst) != want:
        raise ExtractError(f"repr of {name}: {repr(inst)!r}, the model predicts {want!r}")
    return (name, fs, method)


def own_handlers(cls):
    return sorted(k for k in vars(cls) if k.startswith("map_"))


def extract_matchpy(ctx=None):
    import matchpy

    import pymbolic.interop.matchpy as m
    import pymbolic.interop.matchpy.mapper as mm
    import pymbolic.interop.matchpy.tofrom as tf
    import pymbolic.mapper as pm

    ops = {}
    atoms = {}
    for k, v in vars(m).items():
        if not isinstance(v, type) or v.__module__ != m.__name__:
            continue
        if issubclass(v, matchpy.Operation):
            if k.startswith("_") or v is m.PymbolicOp:
                continue            # abstract bases
            ops[k] = read_op(m, v)
        elif issubclass(v, matchpy.Atom) and not issubclass(v, matchpy.Wildcard):
            if k.startswith("_"):
                continue
            atoms[k] = read_atom(m, v)
    names = [n for n in ORDER if n in ops] + sorted(n for n in ops if n not in ORDER)
    anames = [n for n in ATOMS if n in atoms] + sorted(n for n in atoms if n not in ATOMS)
    wild = []
    for kind in ("dot", "star", "plus"):
        w = getattr(m.Wildcard, kind)("n")
        if not isinstance(w, matchpy.Wildcard) or w.variable_name != "n" or w.optional is not None:
            raise ExtractError(f"Wildcard.{kind} builds {w!r}")
        wild.append((kind, int(w.min_count), bool(w.fixed_size)))
    if m.Wildcard.__lt__ is not matchpy.Wildcard.__lt__ or m.Wildcard.__eq__ is not matchpy.Wildcard.__eq__:
        raise ExtractError("the bridge's Wildcard overrides __lt__ / __eq__")
    if tf.ToMatchpyExpressionMapper.__mro__[1:] != (pm.Mapper, object):
        raise ExtractError("ToMatchpyExpressionMapper no longer derives from pymbolic.mapper.Mapper only")
    if tf.FromMatchpyExpressionMapper.__mro__[1:] != (mm.Mapper, object):
        raise ExtractError("FromMatchpyExpressionMapper no longer derives from the bridge's Mapper only")
    to_h = own_handlers(tf.ToMatchpyExpressionMapper)
    from_h = own_handlers(tf.FromMatchpyExpressionMapper)

    def op_row(r):
        name, mc, fx, c, a, o, fields, packed, method = r
        return (f"  ⟨{lean_str(name)}, {mc}, {lean_bool(fx)}, {lean_bool(c)}, {lean_bool(a)}, "
                f"{lean_bool(o)}, {lean_list([lean_str(f) for f in fields])}, {lean_bool(packed)}, "
                f"{lean_str(method)}⟩")

    def atom_row(r):
        name, fs, method = r
        return (f"  ⟨{lean_str(name)}, {lean_list([lean_str(f) for f in fs])}, "
                f"{'none' if method is None else 'some ' + lean_str(method)}⟩")

    text = ("import PV.Model.Matchpy\n"
            "/- GENERATED by extract/matchpy_ops.py from /repo — do not edit. -/\n"
            "namespace PV.Generated\nopen PV.Matchpy\n\n"
            "def matchpyOps : List OpRow := [\n" + ",\n".join(op_row(ops[n]) for n in names)
            + "]\n\n"
            "def matchpyAtoms : List AtomRow := [\n" + ",\n".join(atom_row(atoms[n]) for n in anames)
            + "]\n\n"
            "def matchpyWild : List (String × Nat × Bool) := "
            + lean_list([f"({lean_str(k)}, {mc}, {lean_bool(fx)})" for k, mc, fx in wild]) + "\n\n"
            "def matchpyToHandlers : List String := " + lean_list([lean_str(h) for h in to_h]) + "\n\n"
            "def matchpyFromHandlers : List String := " + lean_list([lean_str(h) for h in from_h])
            + "\n\nend PV.Generated\n")
    write_if_changed(os.path.join(LEAN, "PV", "Generated", "MatchpyOps.lean"), text)
    return ops, atoms, wild, to_h, from_h
