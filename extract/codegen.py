"""T-gen for C13: regenerate lean/PV/Generated/Codegen.lean from the LIVE source of the code
generators of the working tree under ctx["repo"]:

  pymbolic/interop/ast.py
    A. `ASTToPymbolic` (+ its base `ASTMapper`): the class-level operator dictionaries
       (`bin_op_map`, `unary_op_map`, `comparison_op_map`, and any other `*_map` dict: a
       `bool_op_map` does not exist today) read from the live class objects — keys are operator
       classes of Python's `ast`, values are node classes, strings, or module-level helper functions
       whose one-line bodies (`return p.Sum((x, y))`, `return -x`) are read with `ast`; every
       `map_*` handler translated statement by statement into the handler language `C13FProg` of
       lean/PV/Model/CodegenTable.lean; the dispatch (`__call__`, `rec`, `not_supported`); the MRO
       and `_fields` of the `ast` classes the model speaks.
    B. `PymbolicToASTMapper`: every `map_*` attribute (class body, inherited `Mapper` stubs;
       aliases resolved through the function object) as a `C13TProg` — which `ast` class is built,
       which operator object, the arguments IN EVALUATION ORDER under the field names Python binds
       them to (positional arguments resolved with `_fields` of the live `ast` class); the folding
       helper `_map_multi_children_op` (start element, iteration slice, argument roles of the
       `ast.BinOp` it builds); `to_python_ast`.
    E. `to_evaluatable_python_function`: dependency mapper and its flags, how the names are
       ordered, the kind of parameters, the body.
  pymbolic/compiler.py
    C. `CompileMapper`: the class body (every override; `map_constant` as a text condition,
       `map_common_subexpression`, `rec_with_force_parens_around`, `map_foreign`; the two array /
       polynomial printers are recorded as outside the tree model).
    D. `CompiledExpression`: `__init__`, `_compile` statement by statement (what is stored, how the
       eval globals are built, free-variable discovery, set differences, sort key, concatenation
       order, the mapper and precedence of the body, the lambda text, the `eval`), `__getstate__`,
       `__setstate__`, `__call__`, `context`.

What is recorded is what the source SAYS; names are resolved like Python does (function globals,
class attributes through the MRO, function objects behind aliases).  A statement / expression shape
this reader does not know is an `ExtractError` (reported by the check as a broken obligation) —
never a default.
"""
from __future__ import annotations

import ast
import builtins
import dataclasses
import inspect
import linecache
import os
import textwrap

from harness.leanio import LEAN

from .classes import ExtractError
from .evaluator import check_repo
from .prec import write_if_changed


def q(s):
    return '"' + s.replace("\\", "\\\\").replace('"', '\\"').replace("\n", "\\n") + '"'


def lb(b):
    return "true" if b else "false"


def lint(n):
    return f"({n})" if n < 0 else str(n)


def lstrs(xs):
    return "[" + ", ".join(q(x) for x in xs) + "]"


def short(n):
    try:
        return ast.unparse(n).splitlines()[0][:90]
    except Exception:
        return ast.dump(n)[:90]


def fn_ast(fn, what):
    fn = inspect.unwrap(fn)
    if not inspect.isfunction(fn):
        raise ExtractError(f"{what}: not a plain Python function ({type(fn).__name__})")
    linecache.checkcache()
    try:
        src = textwrap.dedent(inspect.getsource(fn))
    except (OSError, TypeError) as e:
        raise ExtractError(f"{what}: no source ({e})") from None
    mod = ast.parse(src)
    if len(mod.body) != 1 or not isinstance(mod.body[0], ast.FunctionDef):
        raise ExtractError(f"{what}: source is not a single function definition")
    return mod.body[0], fn


def body_of(tree):
    """statements without the docstring and `pass`"""
    out = []
    for i, s in enumerate(tree.body):
        if (i == 0 and isinstance(s, ast.Expr) and isinstance(s.value, ast.Constant)
                and isinstance(s.value.value, str)):
            continue
        if isinstance(s, ast.Pass):
            continue
        out.append(s)
    return out


def is_name(n, ident=None):
    return isinstance(n, ast.Name) and (ident is None or n.id == ident)


def plain_params(tree, what, names=None, n=None):
    a = tree.args
    if a.vararg or a.kwarg or a.kwonlyargs or a.posonlyargs or a.defaults or a.kw_defaults:
        raise ExtractError(f"{what}: parameters are not plain positional ones")
    ps = [x.arg for x in a.args]
    if names is not None and ps != names:
        raise ExtractError(f"{what}: signature is ({', '.join(ps)}), not ({', '.join(names)})")
    if n is not None and len(ps) != n:
        raise ExtractError(f"{what}: expected {n} parameters")
    return ps


def defining_class(cls, name):
    for c in cls.__mro__:
        if name in c.__dict__:
            return c
    raise ExtractError(f"{cls.__name__}.{name}: not found along the MRO")


class Resolver:
    """name resolution inside one function: module globals, then builtins"""

    def __init__(self, fn):
        self.fn = fn

    def obj(self, node, local=()):
        """the Python object a Name / dotted name denotes, or None when it is a local"""
        if isinstance(node, ast.Name):
            if node.id in local:
                return None
            g = self.fn.__globals__
            if node.id in g:
                return g[node.id]
            if hasattr(builtins, node.id):
                return getattr(builtins, node.id)
            raise ExtractError(f"{self.fn.__qualname__}: unbound name {node.id!r}")
        if isinstance(node, ast.Attribute):
            base = self.obj(node.value, local)
            if base is None or not inspect.ismodule(base):
                return None
            if not hasattr(base, node.attr):
                raise ExtractError(f"{self.fn.__qualname__}: module {base.__name__} has no "
                                   f"attribute {node.attr}")
            return getattr(base, node.attr)
        return None


def exc_name(st, what):
    e = st.exc
    if e is None:
        raise ExtractError(f"{what}: bare raise")
    if isinstance(e, ast.Call):
        e = e.func
    if isinstance(e, ast.Name):
        return e.id
    if isinstance(e, ast.Attribute):
        return e.attr
    raise ExtractError(f"{what}: raise of something that is not an exception class / call")


# {{{ A. ASTToPymbolic

AST_CLASSES = ["Constant", "Name", "BinOp", "UnaryOp", "BoolOp", "IfExp", "Compare", "Call",
               "Attribute", "Subscript", "Tuple", "List", "Slice"]

REC_TEXT = '''def rec(self, expr, *args, **kwargs):
    mro = list(type(expr).__mro__)
    dispatch_class = kwargs.pop('dispatch_class', type(self))
    while mro:
        method_name = 'map_' + mro.pop(0).__name__
        try:
            method = getattr(dispatch_class, method_name)
        except AttributeError:
            pass
        else:
            return method(self, expr, *args, **kwargs)
    return self.not_supported(expr)'''

NONE_OR_REC_TEXT = '''def none_or_rec(x):
    if x is None:
        return x
    else:
        return self.rec(x)'''


def node_class_name(obj):
    """pymbolic node class -> name (must be a dataclass of pymbolic.primitives)"""
    import pymbolic.primitives as prim
    if (inspect.isclass(obj) and issubclass(obj, prim.Expression) and dataclasses.is_dataclass(obj)
            and getattr(prim, obj.__name__, None) is obj):
        return obj.__name__
    return None


def read_build(fn, what):
    """module-level helper `def f(x, y): return <build>` -> (name, arity, build)"""
    tree, fn = fn_ast(fn, what)
    params = plain_params(tree, what)
    body = body_of(tree)
    if len(body) != 1 or not isinstance(body[0], ast.Return) or body[0].value is None:
        raise ExtractError(f"{what}: body is not a single `return <expression>`")
    rs = Resolver(fn)

    def build(n):
        if isinstance(n, ast.Name):
            if n.id in params:
                return ("arg", params.index(n.id))
            raise ExtractError(f"{what}: name {n.id!r} is not a parameter")
        if isinstance(n, ast.Constant) and type(n.value) is int:
            return ("int", n.value)
        if isinstance(n, ast.UnaryOp) and isinstance(n.op, ast.USub):
            if isinstance(n.operand, ast.Constant) and type(n.operand.value) is int:
                return ("int", -n.operand.value)
            return ("neg", build(n.operand))
        if isinstance(n, ast.Tuple):
            return ("tuple", [build(e) for e in n.elts])
        if isinstance(n, ast.Call):
            cls = node_class_name(rs.obj(n.func, params))
            if cls is None or n.keywords or any(isinstance(a, ast.Starred) for a in n.args):
                raise ExtractError(f"{what}: call is not p.<NodeClass>(positional arguments): {short(n)}")
            return ("node", cls, [build(a) for a in n.args])
        raise ExtractError(f"{what}: expression outside the builder language: {short(n)}")

    return fn.__name__, len(params), build(body[0].value)


def read_op_maps(cls):
    """every dict-valued class attribute named `*_map` along the MRO -> [(attr, [(key, value)])]"""
    import pymbolic.interop.ast as ia
    maps = []
    for name in sorted(n for n in dir(cls) if n.endswith("_map") and not n.startswith("__")):
        d = getattr(cls, name)
        what = f"{cls.__name__}.{name}"
        if not isinstance(d, dict):
            raise ExtractError(f"{what}: not a dict")
        entries = []
        for k, v in d.items():
            if not (inspect.isclass(k) and getattr(ast, k.__name__, None) is k):
                raise ExtractError(f"{what}: key {k!r} is not a class of Python's ast module")
            if isinstance(v, str):
                val = ("str", v)
            elif node_class_name(v) is not None:
                val = ("cls", node_class_name(v))
            elif inspect.isfunction(v):
                if v.__module__ != ia.__name__ or ia.__dict__.get(v.__name__) is not v:
                    raise ExtractError(f"{what}[{k.__name__}]: function {v.__qualname__} is not a "
                                       "module-level function of pymbolic.interop.ast")
                val = ("fn",) + read_build(v, f"{what}[{k.__name__}] = {v.__name__}")
            else:
                raise ExtractError(f"{what}[{k.__name__}]: value {v!r} is neither a node class, a "
                                   "string nor a module-level function")
            entries.append((k.__name__, val))
        maps.append((name, entries))
    return maps


class FHandlerReader:
    """one `map_*` method of ASTToPymbolic -> C13FProg"""

    def __init__(self, fn, what):
        self.what = what
        self.tree, self.fn = fn_ast(fn, what)
        plain_params(self.tree, what, ["self", "expr"])
        self.rs = Resolver(self.fn)
        self.none_or_rec = None

    def fail(self, msg, node=None):
        at = f" at `{short(node)}`" if node is not None else ""
        raise ExtractError(f"{self.what}: {msg}{at}")

    def field(self, n):
        if isinstance(n, ast.Attribute) and is_name(n.value, "expr") and not n.attr.startswith("__"):
            return n.attr
        return None

    def rec_arg(self, n):
        """`self.rec(X)` -> X"""
        if (isinstance(n, ast.Call) and isinstance(n.func, ast.Attribute) and is_name(n.func.value, "self")
                and n.func.attr == "rec"):
            if len(n.args) != 1 or n.keywords or isinstance(n.args[0], ast.Starred):
                self.fail("self.rec with other than one argument", n)
            return n.args[0]
        return None

    def comp_over_field(self, n, elt_ok):
        """one-`for` comprehension over `expr.F` whose loop variable is a name -> (F, var)"""
        if len(n.generators) != 1:
            self.fail("comprehension with more than one `for`", n)
        g = n.generators[0]
        f = self.field(g.iter)
        if g.ifs or g.is_async or not isinstance(g.target, ast.Name) or f is None:
            self.fail("comprehension is not `… for v in expr.<field>`", n)
        return f, g.target.id

    def fexpr(self, n, loc):
        if isinstance(n, ast.Name):
            if n.id in loc:
                return ("loc", n.id)
            self.fail("name used as a value is not a local", n)
        f = self.field(n)
        if f is not None:
            return ("field", f)
        x = self.rec_arg(n)
        if x is not None:
            f = self.field(x)
            if f is not None:
                return ("recF", f)
            if isinstance(x, ast.Name) and loc.get(x.id) == "node":
                return ("recLoc", x.id)
            self.fail("self.rec of something that is neither expr.<field> nor an unpacked node", n)
        if isinstance(n, ast.Call):
            fo = self.rs.obj(n.func, set(loc) | {self.none_or_rec})
            plain = not n.keywords and not any(isinstance(a, ast.Starred) for a in n.args)
            # tuple([self.rec(v) for v in expr.F])
            if fo is builtins.tuple and plain and len(n.args) == 1 and isinstance(n.args[0], ast.ListComp):
                lc = n.args[0]
                f, v = self.comp_over_field(lc, None)
                x = self.rec_arg(lc.elt)
                if not (x is not None and is_name(x, v)):
                    self.fail("list comprehension element is not self.rec(<loop variable>)", lc)
                return ("recEach", f)
            # none_or_rec(expr.F)
            if isinstance(n.func, ast.Name) and n.func.id == self.none_or_rec and plain \
                    and len(n.args) == 1 and self.field(n.args[0]) is not None:
                return ("noneOrRecF", self.field(n.args[0]))
            # p.Cls(...)
            cls = node_class_name(fo) if fo is not None else None
            if cls is not None:
                if not plain:
                    self.fail("node constructor with keyword / star arguments", n)
                return ("node", cls, [self.fexpr(a, loc) for a in n.args])
            # X(...) for a looked-up constructor
            if isinstance(n.func, ast.Name) and loc.get(n.func.id) == "mapval":
                if not plain:
                    self.fail("operator constructor with keyword / star arguments", n)
                return ("applyLoc", n.func.id, [self.fexpr(a, loc) for a in n.args])
            self.fail("call outside the handler language", n)
        if isinstance(n, ast.DictComp):
            f, v = self.comp_over_field(n, None)
            x = self.rec_arg(n.value)
            ok = (isinstance(n.key, ast.Attribute) and is_name(n.key.value, v) and n.key.attr == "arg"
                  and x is not None and isinstance(x, ast.Attribute) and is_name(x.value, v)
                  and x.attr == "value")
            if not ok:
                self.fail("dict comprehension is not {kw.arg: self.rec(kw.value) for kw in expr.<f>}", n)
            return ("kwDict", f)
        self.fail("expression outside the handler language", n)

    def key_src(self, n, loc):
        """`type(expr.F)` / `type(x)` -> key source"""
        if not (isinstance(n, ast.Call) and self.rs.obj(n.func, loc) is builtins.type
                and len(n.args) == 1 and not n.keywords):
            self.fail("operator map is not indexed by type(…)", n)
        a = n.args[0]
        f = self.field(a)
        if f is not None:
            return ("field", f)
        if isinstance(a, ast.Name) and loc.get(a.id) == "op":
            return ("loc", a.id)
        self.fail("type(…) of something that is neither expr.<field> nor an unpacked operator", n)

    def lookup_try(self, st, loc):
        """try: X = self.M[type(K)]  except KeyError: raise E(…) from None"""
        ok = (len(st.body) == 1 and isinstance(st.body[0], ast.Assign) and len(st.handlers) == 1
              and not st.orelse and not st.finalbody)
        if not ok:
            self.fail("try statement is not a single guarded assignment", st)
        a, h = st.body[0], st.handlers[0]
        v = a.value
        ok = (len(a.targets) == 1 and isinstance(a.targets[0], ast.Name) and isinstance(v, ast.Subscript)
              and isinstance(v.value, ast.Attribute) and is_name(v.value.value, "self")
              and is_name(h.type, "KeyError") and len(h.body) == 1 and isinstance(h.body[0], ast.Raise))
        if not ok:
            self.fail("try statement is not `X = self.<map>[type(…)]` guarded by KeyError", st)
        r = h.body[0]
        if not (r.cause is not None and isinstance(r.cause, ast.Constant) and r.cause.value is None):
            self.fail("the KeyError handler does not `raise … from None`", r)
        return a.targets[0].id, v.value.attr, self.key_src(v.slice, loc), exc_name(r, self.what)

    def prog(self, stmts, loc):
        stmts = list(stmts)
        if not stmts:
            self.fail("control reaches the end of the handler (implicit `return None`)")
        st, rest = stmts[0], stmts[1:]
        if isinstance(st, ast.FunctionDef):
            if ast.unparse(st) != NONE_OR_REC_TEXT or self.none_or_rec is not None:
                self.fail("nested function is not the known `none_or_rec`", st)
            self.none_or_rec = st.name
            return self.prog(rest, loc)
        if isinstance(st, ast.Return):
            if rest:
                self.fail("statements after return", rest[0])
            if st.value is None:
                self.fail("bare return", st)
            return ("ret", self.fexpr(st.value, loc))
        if isinstance(st, ast.Raise):
            return ("raise", exc_name(st, self.what))
        if isinstance(st, ast.Try):
            x, m, src, exc = self.lookup_try(st, loc)
            return ("lookupOp", x, m, src, exc, self.prog(rest, {**loc, x: "mapval"}))
        if isinstance(st, ast.Assign):
            if len(st.targets) != 1:
                self.fail("chained assignment", st)
            t = st.targets[0]
            if isinstance(t, ast.Tuple) and len(t.elts) == 1 and isinstance(t.elts[0], ast.Name):
                f = self.field(st.value)
                if f is None:
                    self.fail("single-element unpacking of something that is not expr.<field>", st)
                x = t.elts[0].id
                # what the name holds is decided by the field: operator objects / nodes
                kind = "op" if f == "ops" else "node"
                return ("unpack1", x, f, self.prog(rest, {**loc, x: kind}))
            if not isinstance(t, ast.Name) or t.id in ("self", "expr"):
                self.fail("assignment to something other than one local name", st)
            kind = "val"
            if isinstance(st.value, ast.Subscript):
                # comp = self.comparison_op_map[type(op)] outside a try: not the known shape
                self.fail("operator map lookup outside try/except KeyError", st)
            return ("assign", t.id, self.fexpr(st.value, loc), self.prog(rest, {**loc, t.id: kind}))
        if isinstance(st, ast.If):
            t = st.test
            # if getattr(expr, "F", []):
            if (isinstance(t, ast.Call) and self.rs.obj(t.func, loc) is builtins.getattr
                    and len(t.args) == 3 and not t.keywords and is_name(t.args[0], "expr")
                    and isinstance(t.args[1], ast.Constant) and isinstance(t.args[1].value, str)
                    and isinstance(t.args[2], ast.List) and not t.args[2].elts):
                if not st.orelse or rest:
                    self.fail("`if getattr(expr, …, [])` without else / with statements after it", st)
                return ("ifNonEmpty", t.args[1].value, self.prog(st.body, loc), self.prog(st.orelse, loc))
            # if isinstance(expr.F, slice):
            if (isinstance(t, ast.Call) and self.rs.obj(t.func, loc) is builtins.isinstance
                    and len(t.args) == 2 and not t.keywords and self.field(t.args[0]) is not None
                    and self.rs.obj(t.args[1], loc) is builtins.slice):
                if not st.orelse:
                    self.fail("`if isinstance(expr.<f>, slice)` without else", st)
                dead = "; ".join(ast.unparse(s) for s in st.body)
                return ("ifBuiltinSlice", self.field(t.args[0]), dead,
                        self.prog(list(st.orelse) + rest, loc))
            self.fail("if statement outside the handler language", st)
        self.fail("statement outside the handler language", st)

    def read(self):
        return self.prog(body_of(self.tree), {})


def read_from_table():
    import pymbolic.interop.ast as ia
    cls, base = ia.ASTToPymbolic, ia.ASTMapper
    if cls.__mro__ != (cls, base, object):
        raise ExtractError("ASTToPymbolic: MRO is not (ASTToPymbolic, ASTMapper, object)")
    for name in ("__call__", "rec", "not_supported"):
        if defining_class(cls, name) is not base:
            raise ExtractError(f"ASTToPymbolic.{name} is not ASTMapper's")
    # __call__: return self.rec(expr, *args, **kwargs)
    tree, _ = fn_ast(base.__call__, "ASTMapper.__call__")
    b = body_of(tree)
    if not (len(b) == 1 and ast.unparse(b[0]) == "return self.rec(expr, *args, **kwargs)"):
        raise ExtractError("ASTMapper.__call__ is not `return self.rec(expr, *args, **kwargs)`")
    tree, _ = fn_ast(base.rec, "ASTMapper.rec")
    if ast.unparse(tree) != REC_TEXT:
        raise ExtractError("ASTMapper.rec is not the known walk along type(expr).__mro__ "
                           "(first `map_<class name>` attribute of the mapper class wins, else "
                           "self.not_supported(expr))")
    tree, _ = fn_ast(base.not_supported, "ASTMapper.not_supported")
    b = body_of(tree)
    if not (len(b) == 1 and isinstance(b[0], ast.Raise)):
        raise ExtractError("ASTMapper.not_supported is not a single raise")
    not_supported = exc_name(b[0], "ASTMapper.not_supported")

    classes = []
    for name in AST_CLASSES:
        c = getattr(ast, name)
        classes.append((name, ["map_" + k.__name__ for k in c.__mro__], list(c._fields)))
    classes.append(("NoneType", ["map_" + k.__name__ for k in type(None).__mro__], []))

    handlers = []
    for name in sorted(n for n in dir(cls) if n.startswith("map_")):
        owner = defining_class(cls, name)
        fn = owner.__dict__[name]
        what = f"{owner.__name__}.{name}"
        if not inspect.isfunction(fn):
            raise ExtractError(f"{what}: not a plain function")
        handlers.append((name, fn.__qualname__, FHandlerReader(fn, what).read()))
    return dict(classes=classes, handlers=handlers, notSupported=not_supported,
                maps=read_op_maps(cls))


def l_build(b):
    k = b[0]
    if k == "arg":
        return f"(.arg {b[1]})"
    if k == "int":
        return f"(.int {lint(b[1])})"
    if k == "neg":
        return f"(.neg {l_build(b[1])})"
    if k == "tuple":
        return "(.tuple [" + ", ".join(l_build(x) for x in b[1]) + "])"
    if k == "node":
        return f"(.node {q(b[1])} [" + ", ".join(l_build(x) for x in b[2]) + "])"
    raise ExtractError(f"internal: no Lean form for build {k}")


def l_mapval(v):
    if v[0] == "str":
        return f".str {q(v[1])}"
    if v[0] == "cls":
        return f".cls {q(v[1])}"
    return f".fn {q(v[1])} {v[2]} {l_build(v[3])}"


def l_fexpr(e):
    k = e[0]
    if k in ("loc", "field", "recF", "recLoc", "recEach", "kwDict", "noneOrRecF"):
        return f"(.{k} {q(e[1])})"
    if k == "node":
        return f"(.node {q(e[1])} [" + ", ".join(l_fexpr(x) for x in e[2]) + "])"
    if k == "applyLoc":
        return f"(.applyLoc {q(e[1])} [" + ", ".join(l_fexpr(x) for x in e[2]) + "])"
    raise ExtractError(f"internal: no Lean form for {k}")


def l_fprog(p):
    k = p[0]
    if k == "ret":
        return f"(.ret {l_fexpr(p[1])})"
    if k == "raise":
        return f"(.raise {q(p[1])})"
    if k == "assign":
        return f"(.assign {q(p[1])} {l_fexpr(p[2])}\n        {l_fprog(p[3])})"
    if k == "lookupOp":
        return (f"(.lookupOp {q(p[1])} {q(p[2])} (.{p[3][0]} {q(p[3][1])}) {q(p[4])}\n"
                f"        {l_fprog(p[5])})")
    if k == "unpack1":
        return f"(.unpack1 {q(p[1])} {q(p[2])}\n        {l_fprog(p[3])})"
    if k == "ifNonEmpty":
        return f"(.ifNonEmpty {q(p[1])}\n        {l_fprog(p[2])}\n        {l_fprog(p[3])})"
    if k == "ifBuiltinSlice":
        return f"(.ifBuiltinSlice {q(p[1])} {q(p[2])}\n        {l_fprog(p[3])})"
    raise ExtractError(f"internal: no Lean form for {k}")


def render_from(t):
    cl = ",\n".join(f"    ⟨{q(n)}, {lstrs(m)}, {lstrs(f)}⟩" for n, m, f in t["classes"])
    hs = ",\n".join(f"    ⟨{q(n)}, {q(d)},\n      {l_fprog(b)}⟩" for n, d, b in t["handlers"])
    ms = ",\n".join(
        f"    ({q(n)}, [\n" + ",\n".join(f"      ({q(k)}, {l_mapval(v)})" for k, v in es) + "])"
        for n, es in t["maps"])
    return ("/-- `ASTToPymbolic`: classes of Python's `ast`, handlers, operator dictionaries -/\n"
            "def c13FromTable : C13FromTable where\n"
            f"  classes := [\n{cl}\n  ]\n"
            f"  handlers := [\n{hs}\n  ]\n"
            f"  notSupported := {q(t['notSupported'])}\n"
            f"  maps := [\n{ms}\n  ]\n")

# }}}


# {{{ B. PymbolicToASTMapper

UNMODELLED_TAIL_OK = {"map_nan"}     # handlers whose statements after an `assert` may stay text
BUILTIN_TYPES = {"bool": bool, "int": int, "float": float, "complex": complex, "str": str}


def int_const(n):
    if n is None:
        return None
    if isinstance(n, ast.Constant) and type(n.value) is int:
        return n.value
    if (isinstance(n, ast.UnaryOp) and isinstance(n.op, ast.USub) and isinstance(n.operand, ast.Constant)
            and type(n.operand.value) is int):
        return -n.operand.value
    raise ExtractError(f"not an integer literal: {short(n)}")


def ast_class(obj):
    """a class of Python's ast module -> its name"""
    if inspect.isclass(obj) and issubclass(obj, ast.AST) and getattr(ast, obj.__name__, None) is obj:
        return obj.__name__
    return None


def ctor_args(call, cls_obj, what):
    """positional / keyword arguments of `ast.Cls(…)` -> [(field name, value node)] in evaluation
    order (positional arguments first, left to right, then the keywords as written)"""
    fields = list(cls_obj._fields)
    if any(isinstance(a, ast.Starred) for a in call.args) or any(k.arg is None for k in call.keywords):
        raise ExtractError(f"{what}: star arguments in {short(call)}")
    if len(call.args) > len(fields):
        raise ExtractError(f"{what}: more positional arguments than ast.{cls_obj.__name__} has fields")
    out = [(fields[i], a) for i, a in enumerate(call.args)]
    seen = {n for n, _ in out}
    for k in call.keywords:
        if k.arg in seen:
            raise ExtractError(f"{what}: field {k.arg} given twice in {short(call)}")
        if k.arg not in fields:
            raise ExtractError(f"{what}: ast.{cls_obj.__name__} has no field {k.arg}")
        seen.add(k.arg)
        out.append((k.arg, k.value))
    return out


def read_fold_helper(cls, name):
    owner = defining_class(cls, name)
    what = f"{owner.__name__}.{name}"
    tree, fn = fn_ast(owner.__dict__[name], what)
    ps = plain_params(tree, what, n=3)
    if ps[0] != "self":
        raise ExtractError(f"{what}: first parameter is not self")
    children, op_param = ps[1], ps[2]
    rs = Resolver(fn)
    b = body_of(tree)
    if len(b) != 4:
        raise ExtractError(f"{what}: body is not [mapped children; start; loop; return]")
    s0, s1, s2, s3 = b
    ok = (isinstance(s0, ast.Assign) and len(s0.targets) == 1 and isinstance(s0.targets[0], ast.Name)
          and isinstance(s0.value, ast.ListComp) and len(s0.value.generators) == 1)
    if ok:
        g = s0.value.generators[0]
        e = s0.value.elt
        ok = (not g.ifs and not g.is_async and isinstance(g.target, ast.Name) and is_name(g.iter, children)
              and isinstance(e, ast.Call) and ast.unparse(e) == f"self.rec({g.target.id})")
    if not ok:
        raise ExtractError(f"{what}: first statement is not `R = [self.rec(c) for c in {children}]`")
    R = s0.targets[0].id
    ok = (isinstance(s1, ast.Assign) and len(s1.targets) == 1 and isinstance(s1.targets[0], ast.Name)
          and isinstance(s1.value, ast.Subscript) and is_name(s1.value.value, R)
          and not isinstance(s1.value.slice, ast.Slice))
    if not ok:
        raise ExtractError(f"{what}: second statement is not `A = {R}[<int>]`")
    A = s1.targets[0].id
    init = int_const(s1.value.slice)
    ok = (isinstance(s2, ast.For) and not s2.orelse and isinstance(s2.target, ast.Name)
          and isinstance(s2.iter, ast.Subscript) and is_name(s2.iter.value, R)
          and isinstance(s2.iter.slice, ast.Slice) and len(s2.body) == 1
          and isinstance(s2.body[0], ast.Assign) and len(s2.body[0].targets) == 1
          and is_name(s2.body[0].targets[0], A) and isinstance(s2.body[0].value, ast.Call))
    if not ok:
        raise ExtractError(f"{what}: third statement is not `for c in {R}[lo:hi:step]: {A} = ast.<Cls>(…)`")
    sl = s2.iter.slice
    lo, hi, step = int_const(sl.lower), int_const(sl.upper), int_const(sl.step)
    c = s2.target.id
    call = s2.body[0].value
    cls_obj = rs.obj(call.func, set(ps) | {R, A, c})
    ctor = ast_class(cls_obj) if cls_obj is not None else None
    if ctor is None:
        raise ExtractError(f"{what}: the loop does not build a node of Python's ast: {short(call)}")
    names, roles = [], []
    for fname, v in ctor_args(call, cls_obj, what):
        if is_name(v, c):
            role = "item"
        elif is_name(v, op_param):
            role = "opParam"
        elif is_name(v, A):
            role = "acc"
        else:
            raise ExtractError(f"{what}: argument {short(v)} of the built node is neither the loop "
                               "variable, the operator parameter nor the accumulator")
        names.append(fname)
        roles.append(role)
    if not (isinstance(s3, ast.Return) and is_name(s3.value, A)):
        raise ExtractError(f"{what}: does not end in `return {A}`")
    return dict(name=name, init=init, lo=lo, hi=hi, step=step, ctor=ctor, argNames=names,
                argRoles=roles)


class THandlerReader:
    """one `map_*` attribute of PymbolicToASTMapper -> C13TProg"""

    def __init__(self, cls, name, fn, what, folds):
        self.cls, self.name, self.what, self.folds = cls, name, what, folds
        self.tree, self.fn = fn_ast(fn, what)
        a = self.tree.args
        ps = [x.arg for x in a.args]
        self.stub = a.vararg is not None or a.kwarg is not None
        if ps != ["self", "expr"] or a.kwonlyargs or a.posonlyargs or a.defaults:
            raise ExtractError(f"{what}: signature is not (self, expr) / (self, expr, *args, **kwargs)")
        if self.stub and not (a.vararg and a.vararg.arg == "args" and a.kwarg and a.kwarg.arg == "kwargs"):
            raise ExtractError(f"{what}: signature is not (self, expr, *args, **kwargs)")
        self.rs = Resolver(self.fn)

    def fail(self, msg, node=None):
        at = f" at `{short(node)}`" if node is not None else ""
        raise ExtractError(f"{self.what}: {msg}{at}")

    def field(self, n):
        if isinstance(n, ast.Attribute) and is_name(n.value, "expr") and not n.attr.startswith("__"):
            return n.attr
        return None

    def self_call(self, n, meth=None):
        if (isinstance(n, ast.Call) and isinstance(n.func, ast.Attribute) and is_name(n.func.value, "self")
                and (meth is None or n.func.attr == meth)):
            return n.func.attr
        return None

    def rec_of(self, n, what_arg):
        """n is `self.rec(<what_arg>)` where what_arg is a predicate on the argument node"""
        return (self.self_call(n, "rec") and len(n.args) == 1 and not n.keywords
                and not isinstance(n.args[0], ast.Starred) and what_arg(n.args[0]))

    def list_comp(self, n):
        if len(n.generators) != 1:
            self.fail("comprehension with more than one `for`", n)
        g = n.generators[0]
        if g.ifs or g.is_async:
            self.fail("filtered / async comprehension", n)
        e = n.elt
        # [self.rec(v) for v in expr.F] / for v in expr
        if isinstance(g.target, ast.Name):
            v = g.target.id
            if not self.rec_of(e, lambda a: is_name(a, v)):
                self.fail("comprehension element is not self.rec(<loop variable>)", n)
            if is_name(g.iter, "expr"):
                return ("recEach", ("self",))
            f = self.field(g.iter)
            if f is None:
                self.fail("comprehension does not iterate over expr / expr.<field>", n)
            return ("recEach", ("field", f))
        # [ast.keyword(arg=K, value=self.rec(V)) for K, V in sorted(expr.F.items())]
        t = g.target
        if (isinstance(t, ast.Tuple) and len(t.elts) == 2 and all(isinstance(x, ast.Name) for x in t.elts)):
            K, V = t.elts[0].id, t.elts[1].id
            it, is_sorted = g.iter, False
            if (isinstance(it, ast.Call) and self.rs.obj(it.func, {K, V}) is builtins.sorted
                    and len(it.args) == 1 and not it.keywords):
                it, is_sorted = it.args[0], True
            ok = (isinstance(it, ast.Call) and isinstance(it.func, ast.Attribute) and it.func.attr == "items"
                  and not it.args and not it.keywords and self.field(it.func.value) is not None)
            kwobj = self.rs.obj(e.func, {K, V}) if isinstance(e, ast.Call) else None
            if ok and kwobj is ast.keyword:
                args = dict(ctor_args(e, ast.keyword, self.what))
                if (set(args) == {"arg", "value"} and is_name(args["arg"], K)
                        and self.rec_of(args["value"], lambda a: is_name(a, V))):
                    return ("kwEach", self.field(it.func.value), is_sorted)
        self.fail("comprehension outside the handler language", n)

    def texpr(self, n):
        if is_name(n, "expr"):
            return ("self",)
        if isinstance(n, ast.UnaryOp) and isinstance(n.op, ast.USub) and is_name(n.operand, "expr"):
            return ("negSelf",)
        if isinstance(n, ast.Constant) and n.value is None:
            return ("none",)
        if isinstance(n, ast.List) and not n.elts:
            return ("emptyList",)
        f = self.field(n)
        if f is not None:
            return ("field", f)
        if self.rec_of(n, lambda a: self.field(a) is not None):
            return ("recF", self.field(n.args[0]))
        if isinstance(n, ast.ListComp):
            return self.list_comp(n)
        m = self.self_call(n)
        if m is not None:
            if m == "rec":
                self.fail("self.rec of something that is not expr.<field>", n)
            if m.startswith("map_"):
                self.fail("call of another handler inside an expression", n)
            if m not in self.folds:
                self.folds[m] = read_fold_helper(self.cls, m)
            if len(n.args) != 2 or n.keywords or any(isinstance(a, ast.Starred) for a in n.args):
                self.fail("folding helper not called with (children, operator)", n)
            ch, op = n.args
            if self.field(ch) is not None:
                children = ("field", self.field(ch))
            elif isinstance(ch, ast.Tuple) and ch.elts and all(self.field(x) is not None for x in ch.elts):
                children = ("fields", [self.field(x) for x in ch.elts])
            else:
                self.fail("children of the folding helper are neither expr.<field> nor a tuple of "
                          "fields", ch)
            opx = self.texpr(op)
            if opx[0] != "op":
                self.fail("operator argument of the folding helper is not an `ast` operator object", op)
            return ("foldCall", m, children, opx)
        if isinstance(n, ast.Call):
            obj = self.rs.obj(n.func, set())
            cls = ast_class(obj) if obj is not None else None
            if cls is None:
                self.fail("call outside the handler language", n)
            if issubclass(obj, (ast.operator, ast.unaryop, ast.boolop, ast.cmpop)):
                if n.args or n.keywords:
                    self.fail("operator object built with arguments", n)
                return ("op", cls)
            if len(n.args) == 1 and isinstance(n.args[0], ast.Starred) and not n.keywords:
                return ("mkStar", cls, list(obj._fields), self.texpr(n.args[0].value))
            pairs = ctor_args(n, obj, self.what)
            return ("mk", cls, [a for a, _ in pairs], [self.texpr(v) for _, v in pairs])
        self.fail("expression outside the handler language", n)

    def cond(self, n):
        if isinstance(n, ast.BoolOp) and isinstance(n.op, ast.And):
            cs = [self.cond(v) for v in n.values]
            out = cs[-1]
            for c in reversed(cs[:-1]):
                out = ("and", c, out)
            return out
        if (isinstance(n, ast.Call) and self.rs.obj(n.func, set()) is builtins.isinstance
                and len(n.args) == 2 and not n.keywords and is_name(n.args[0], "expr")):
            ts = n.args[1].elts if isinstance(n.args[1], ast.Tuple) else [n.args[1]]
            names = []
            for t in ts:
                o = self.rs.obj(t, set())
                hit = [k for k, v in BUILTIN_TYPES.items() if v is o]
                if not hit:
                    self.fail("isinstance against something other than bool / int / float / complex / "
                              "str", n)
                names.append(hit[0])
            return ("isInst", names)
        if (isinstance(n, ast.Compare) and len(n.ops) == 1 and isinstance(n.ops[0], ast.Lt)
                and is_name(n.left, "expr")):
            return ("selfLt", int_const(n.comparators[0]))
        self.fail("condition outside the handler language", n)

    def prog(self, stmts):
        stmts = list(stmts)
        if not stmts:
            self.fail("control reaches the end of the handler (implicit `return None`)")
        st, rest = stmts[0], stmts[1:]
        if isinstance(st, ast.Return):
            if rest:
                self.fail("statements after return", rest[0])
            if st.value is None:
                self.fail("bare return", st)
            m = self.self_call(st.value)
            if m is not None and m.startswith("map_"):
                if ast.unparse(st.value) != f"self.{m}(expr, *args, **kwargs)":
                    self.fail("delegation does not pass (expr, *args, **kwargs)", st)
                return ("delegate", m)
            return ("ret", self.texpr(st.value))
        if isinstance(st, ast.Raise):
            if st.cause is not None:
                self.fail("raise … from …", st)
            return ("raise", exc_name(st, self.what))
        if isinstance(st, ast.If):
            if not st.orelse:
                return ("ite", self.cond(st.test), self.prog(st.body), self.prog(rest))
            if rest:
                self.fail("statements after an if/else whose branches both end", rest[0])
            return ("ite", self.cond(st.test), self.prog(st.body), self.prog(st.orelse))
        if isinstance(st, ast.Assert):
            t = st.test
            ok = (isinstance(t, ast.Compare) and len(t.ops) == 1 and isinstance(t.ops[0], ast.IsNot)
                  and self.field(t.left) is not None and isinstance(t.comparators[0], ast.Constant)
                  and t.comparators[0].value is None)
            if not ok:
                self.fail("assert is not `assert expr.<field> is not None`", st)
            try:
                k = self.prog(rest)
            except ExtractError:
                if self.name not in UNMODELLED_TAIL_OK:
                    raise
                k = ("unmodelled", "\n".join(ast.unparse(s) for s in rest))
            return ("assertFieldNotNone", self.field(t.left), k)
        self.fail("statement outside the handler language", st)

    def read(self):
        return self.prog(body_of(self.tree))


def read_to_table():
    import pymbolic.interop.ast as ia
    import pymbolic.mapper as pm
    cls = ia.PymbolicToASTMapper
    if cls.__bases__ != (pm.CachedMapper,):
        raise ExtractError("PymbolicToASTMapper: bases are not (CachedMapper,)")
    for name in ("__call__", "rec", "get_cache_key", "__init__"):
        if defining_class(cls, name) is not pm.CachedMapper:
            raise ExtractError(f"PymbolicToASTMapper.{name} is not CachedMapper's")
    if cls.rec is not cls.__call__:
        raise ExtractError("PymbolicToASTMapper.rec is not its __call__")
    for name in ("map_foreign", "rec_fallback"):
        if defining_class(cls, name) is not pm.Mapper:
            raise ExtractError(f"PymbolicToASTMapper.{name} is not Mapper's")
    folds = {}
    handlers = []
    for name in sorted(n for n in dir(cls) if n.startswith("map_") and n != "map_foreign"):
        owner = defining_class(cls, name)
        fn = owner.__dict__[name]
        what = f"{owner.__name__}.{name}"
        if not inspect.isfunction(fn):
            raise ExtractError(f"{what}: not a plain function")
        handlers.append((name, fn.__qualname__, THandlerReader(cls, name, fn, what, folds).read()))
    # to_python_ast: return <Mapper>()(expr)
    tree, fn = fn_ast(ia.to_python_ast, "to_python_ast")
    ps = plain_params(tree, "to_python_ast", n=1)
    b = body_of(tree)
    ok = (len(b) == 1 and isinstance(b[0], ast.Return) and isinstance(b[0].value, ast.Call)
          and len(b[0].value.args) == 1 and is_name(b[0].value.args[0], ps[0]) and not b[0].value.keywords
          and isinstance(b[0].value.func, ast.Call) and not b[0].value.func.args
          and not b[0].value.func.keywords)
    if not ok:
        raise ExtractError("to_python_ast: body is not `return <MapperClass>()(expr)`")
    mobj = Resolver(fn).obj(b[0].value.func.func, set(ps))
    if not inspect.isclass(mobj):
        raise ExtractError("to_python_ast: the called object is not a class")
    return dict(mro=[c.__name__ for c in cls.__mro__], handlers=handlers,
                folds=[folds[k] for k in sorted(folds)], entryMapper=mobj.__name__)


def l_opt_int(n):
    return "none" if n is None else f"(some {lint(n)})"


def l_texpr(e):
    k = e[0]
    if k in ("self", "negSelf", "none", "emptyList"):
        return f".{k}"
    if k in ("field", "op", "recF"):
        return f"(.{k} {q(e[1])})"
    if k == "recEach":
        it = ".self" if e[1][0] == "self" else f"(.field {q(e[1][1])})"
        return f"(.recEach {it})"
    if k == "kwEach":
        return f"(.kwEach {q(e[1])} {lb(e[2])})"
    if k == "mk":
        return f"(.mk {q(e[1])} {lstrs(e[2])} [" + ", ".join(l_texpr(x) for x in e[3]) + "])"
    if k == "mkStar":
        return f"(.mkStar {q(e[1])} {lstrs(e[2])} {l_texpr(e[3])})"
    if k == "foldCall":
        ch = f"(.field {q(e[2][1])})" if e[2][0] == "field" else f"(.fields {lstrs(e[2][1])})"
        return f"(.foldCall {q(e[1])} {ch} {l_texpr(e[3])})"
    raise ExtractError(f"internal: no Lean form for {k}")


def l_tcond(c):
    if c[0] == "isInst":
        return f"(.isInst {lstrs(c[1])})"
    if c[0] == "selfLt":
        return f"(.selfLt {lint(c[1])})"
    return f"(.and {l_tcond(c[1])} {l_tcond(c[2])})"


def l_tprog(p):
    k = p[0]
    if k == "ret":
        return f"(.ret {l_texpr(p[1])})"
    if k in ("raise", "delegate", "unmodelled"):
        return f"(.{k} {q(p[1])})"
    if k == "ite":
        return f"(.ite {l_tcond(p[1])}\n        {l_tprog(p[2])}\n        {l_tprog(p[3])})"
    if k == "assertFieldNotNone":
        return f"(.assertFieldNotNone {q(p[1])}\n        {l_tprog(p[2])})"
    raise ExtractError(f"internal: no Lean form for {k}")


def render_to(t):
    hs = ",\n".join(f"    ⟨{q(n)}, {q(d)},\n      {l_tprog(b)}⟩" for n, d, b in t["handlers"])
    fs = ",\n".join(
        "    { name := %s, init := %s, lo := %s, hi := %s, step := %s, ctor := %s,\n"
        "      argNames := %s, argRoles := [%s] }" % (
            q(f["name"]), lint(f["init"]), l_opt_int(f["lo"]), l_opt_int(f["hi"]), l_opt_int(f["step"]),
            q(f["ctor"]), lstrs(f["argNames"]), ", ".join("." + r for r in f["argRoles"]))
        for f in t["folds"])
    return ("/-- `PymbolicToASTMapper`: handlers, folding helper, `to_python_ast` -/\n"
            "def c13ToTable : C13ToTable where\n"
            f"  mro := {lstrs(t['mro'])}\n"
            f"  handlers := [\n{hs}\n  ]\n"
            f"  folds := [\n{fs}\n  ]\n"
            f"  entryMapper := {q(t['entryMapper'])}\n")

# }}}


# {{{ C. CompileMapper

NUMPY_CONST_PREAMBLE = """try:
    import numpy
except ImportError:
    pass
else:
    if isinstance(expr, numpy.floating):
        expr = float(expr)
    elif isinstance(expr, numpy.complexfloating):
        expr = complex(expr)"""

OUTSIDE_TREE_MODEL = {"map_polynomial", "map_numpy_array"}
CLASS_BODY_METADATA = ("__module__", "__doc__", "__qualname__", "__firstlineno__",
                       "__static_attributes__", "__annotations__", "__dict__", "__weakref__")


def prec_name(rs, n, what, local=()):
    """a Name bound (in the function's globals) to one of the stringifier's PREC_* constants"""
    import pymbolic.mapper.stringifier as st
    if not (isinstance(n, ast.Name) and n.id.startswith("PREC_") and hasattr(st, n.id)):
        raise ExtractError(f"{what}: {short(n)} is not a PREC_* name of the stringifier")
    if rs.obj(n, local) != getattr(st, n.id):
        raise ExtractError(f"{what}: {n.id} is not the stringifier's constant")
    return n.id


def read_const_override(fn, what):
    tree, fn = fn_ast(fn, what)
    plain_params(tree, what, ["self", "expr", "enclosing_prec"])
    rs = Resolver(fn)
    body = body_of(tree)
    preamble = False
    if body and isinstance(body[0], ast.Try):
        if ast.unparse(body[0]) != NUMPY_CONST_PREAMBLE:
            raise ExtractError(f"{what}: try statement is not the known numpy-scalar normalisation")
        preamble, body = True, body[1:]
    if len(body) != 2:
        raise ExtractError(f"{what}: body is not [result = <text>(expr); if …: return … else: return …]")
    a, i = body
    ok = (isinstance(a, ast.Assign) and len(a.targets) == 1 and isinstance(a.targets[0], ast.Name)
          and isinstance(a.value, ast.Call) and len(a.value.args) == 1 and not a.value.keywords
          and is_name(a.value.args[0], "expr"))
    if not ok:
        raise ExtractError(f"{what}: first statement is not `result = repr(expr)` / `str(expr)`")
    R = a.targets[0].id
    f = rs.obj(a.value.func, {R})
    if f is builtins.repr:
        text = "repr"
    elif f is builtins.str:
        text = "str"
    else:
        raise ExtractError(f"{what}: the text of a constant is neither repr(expr) nor str(expr)")

    def edge_call(n, meth, lit):
        return (isinstance(n, ast.Call) and isinstance(n.func, ast.Attribute) and is_name(n.func.value, R)
                and n.func.attr == meth and len(n.args) == 1 and not n.keywords
                and isinstance(n.args[0], ast.Constant) and n.args[0].value == lit)

    def cond(n):
        if isinstance(n, ast.BoolOp):
            if (isinstance(n.op, ast.And) and len(n.values) == 2 and edge_call(n.values[0], "startswith", "(")
                    and edge_call(n.values[1], "endswith", ")")):
                return ("wrapped",)
            cs = [cond(v) for v in n.values]
            out = cs[-1]
            for c in reversed(cs[:-1]):
                out = ("and" if isinstance(n.op, ast.And) else "or", c, out)
            return out
        if isinstance(n, ast.UnaryOp) and isinstance(n.op, ast.Not):
            return ("not", cond(n.operand))
        if (isinstance(n, ast.Compare) and len(n.ops) == 1 and isinstance(n.ops[0], ast.In)
                and isinstance(n.left, ast.Constant) and isinstance(n.left.value, str)
                and is_name(n.comparators[0], R)):
            return ("has", n.left.value)
        if (isinstance(n, ast.Compare) and len(n.ops) == 1 and isinstance(n.ops[0], ast.Gt)
                and is_name(n.left, "enclosing_prec")):
            return ("encGt", prec_name(rs, n.comparators[0], what, {R}))
        raise ExtractError(f"{what}: condition outside the text-condition language: {short(n)}")

    def branch(stmts):
        if len(stmts) != 1 or not isinstance(stmts[0], ast.Return) or stmts[0].value is None:
            raise ExtractError(f"{what}: branch is not a single return")
        v = stmts[0].value
        if is_name(v, R):
            return False
        if ast.unparse(v) == f"self.parenthesize({R})":
            return True
        raise ExtractError(f"{what}: branch returns neither result nor self.parenthesize(result)")

    if not (isinstance(i, ast.If) and i.orelse):
        raise ExtractError(f"{what}: second statement is not an if/else")
    return ("constant", preamble, text, cond(i.test), branch(i.body), branch(i.orelse))


def read_compile_mapper():
    import importlib

    import pymbolic.compiler as pc
    import pymbolic.mapper.stringifier as st
    import pymbolic.primitives as prim
    cls = pc.CompileMapper
    bases = [b.__name__ for b in cls.__bases__]
    if cls.__bases__ != (st.StringifyMapper,):
        raise ExtractError(f"CompileMapper: bases are {bases}, not (StringifyMapper,)")
    rows = []
    for name, obj in cls.__dict__.items():
        what = f"CompileMapper.{name}"
        if name in CLASS_BODY_METADATA:
            continue
        if not inspect.isfunction(obj):
            raise ExtractError(f"{what}: not a plain function ({type(obj).__name__})")
        if obj.__name__ != name:
            raise ExtractError(f"{what}: alias of {obj.__name__}")
        if name == "map_constant":
            rows.append((name, read_const_override(obj, what)))
            continue
        if name in OUTSIDE_TREE_MODEL:
            rows.append((name, ("outside",)))
            continue
        tree, fn = fn_ast(obj, what)
        rs = Resolver(fn)
        body = [b for b in body_of(tree) if not isinstance(b, (ast.Import, ast.ImportFrom))]
        imported = {}
        for b in body_of(tree):
            if isinstance(b, ast.ImportFrom) and not b.level:
                mod = importlib.import_module(b.module)
                for al in b.names:
                    imported[al.asname or al.name] = getattr(mod, al.name)
            elif isinstance(b, (ast.Import, ast.ImportFrom)):
                raise ExtractError(f"{what}: plain / relative import inside the method")
        if name == "map_common_subexpression":
            plain_params(tree, what, ["self", "expr", "enclosing_prec"])
            ok = (len(body) == 1 and isinstance(body[0], ast.Return) and isinstance(body[0].value, ast.Call)
                  and ast.unparse(body[0].value.func) == "self.rec" and len(body[0].value.args) == 2
                  and not body[0].value.keywords and isinstance(body[0].value.args[0], ast.Attribute)
                  and is_name(body[0].value.args[0].value, "expr"))
            if not ok:
                raise ExtractError(f"{what}: body is not `return self.rec(expr.<field>, <precedence>)`")
            p2 = body[0].value.args[1]
            if is_name(p2, "enclosing_prec"):
                same = True
            else:
                prec_name(rs, p2, what)
                same = False
            rows.append((name, ("recChild", body[0].value.args[0].attr, same)))
        elif name == "rec_with_force_parens_around":
            a = tree.args
            if ([x.arg for x in a.args] != ["self", "expr"] or not a.vararg or a.vararg.arg != "args"
                    or not a.kwarg or a.kwarg.arg != "kwargs" or a.defaults or a.kwonlyargs):
                raise ExtractError(f"{what}: signature is not (self, expr, *args, **kwargs)")
            ok = (len(body) == 2 and isinstance(body[0], ast.While) and not body[0].orelse
                  and isinstance(body[0].test, ast.Call) and len(body[0].test.args) == 2
                  and is_name(body[0].test.args[0], "expr") and isinstance(body[0].test.args[1], ast.Name)
                  and rs.obj(body[0].test.func, set(imported)) is builtins.isinstance
                  and len(body[0].body) == 1 and isinstance(body[0].body[0], ast.Assign)
                  and len(body[0].body[0].targets) == 1 and is_name(body[0].body[0].targets[0], "expr")
                  and isinstance(body[0].body[0].value, ast.Attribute)
                  and is_name(body[0].body[0].value.value, "expr")
                  and isinstance(body[1], ast.Return) and isinstance(body[1].value, ast.Call))
            if not ok:
                raise ExtractError(f"{what}: body is not `while isinstance(expr, C): expr = expr.f` "
                                   "followed by a return of the base-class method")
            cname = body[0].test.args[1].id
            cobj = imported[cname] if cname in imported else rs.obj(body[0].test.args[1], set())
            if not (inspect.isclass(cobj) and getattr(prim, cobj.__name__, None) is cobj):
                raise ExtractError(f"{what}: {cname} is not a node class of pymbolic.primitives")
            call = body[1].value
            f = call.func
            okc = (isinstance(f, ast.Attribute) and isinstance(f.value, ast.Name)
                   and ast.unparse(call) == f"{f.value.id}.{f.attr}(self, expr, *args, **kwargs)")
            if not okc:
                raise ExtractError(f"{what}: does not return <Base>.<method>(self, expr, *args, **kwargs)")
            bobj = rs.obj(f.value, set())
            if not inspect.isclass(bobj):
                raise ExtractError(f"{what}: {f.value.id} is not a class")
            rows.append((name, ("peelThenBase", cobj.__name__, body[0].body[0].value.attr,
                                bobj.__name__, f.attr)))
        elif name == "map_foreign":
            plain_params(tree, what, ["self", "expr", "enclosing_prec"])
            ok = (len(body) == 1 and isinstance(body[0], ast.Return) and isinstance(body[0].value, ast.Call)
                  and isinstance(body[0].value.func, ast.Attribute)
                  and isinstance(body[0].value.func.value, ast.Name))
            if ok:
                f = body[0].value.func
                ok = ast.unparse(body[0].value) == f"{f.value.id}.{f.attr}(self, expr, enclosing_prec)"
            if not ok:
                raise ExtractError(f"{what}: body is not `return <Base>.<method>(self, expr, enclosing_prec)`")
            bobj = rs.obj(f.value, set())
            if not inspect.isclass(bobj):
                raise ExtractError(f"{what}: {f.value.id} is not a class")
            rows.append((name, ("callBase", bobj.__name__, f.attr)))
        else:
            raise ExtractError(f"{what}: the class body defines something this reader does not know")
    return dict(bases=bases, overrides=rows)


def l_textcond(c):
    k = c[0]
    if k == "wrapped":
        return ".wrapped"
    if k in ("has", "encGt"):
        return f"(.{k} {q(c[1])})"
    if k == "not":
        return f"(.not {l_textcond(c[1])})"
    return f"(.{k} {l_textcond(c[1])} {l_textcond(c[2])})"


def l_override(r):
    k = r[0]
    if k == "constant":
        return f".constant {lb(r[1])} {q(r[2])}\n      {l_textcond(r[3])} {lb(r[4])} {lb(r[5])}"
    if k == "recChild":
        return f".recChild {q(r[1])} {lb(r[2])}"
    if k == "peelThenBase":
        return ".peelThenBase " + " ".join(q(x) for x in r[1:])
    if k == "callBase":
        return f".callBase {q(r[1])} {q(r[2])}"
    if k == "outside":
        return ".outside"
    raise ExtractError(f"internal: no Lean form for {k}")


def render_compile_mapper(t):
    rows = ",\n".join(f"    ({q(n)}, {l_override(r)})" for n, r in t["overrides"])
    return ("/-- the class body of `CompileMapper` -/\n"
            "def c13CompileMapperTable : C13CompileMapperTable where\n"
            f"  bases := {lstrs(t['bases'])}\n"
            f"  overrides := [\n{rows}\n  ]\n")

# }}}


# {{{ D. CompiledExpression

def self_attr(n):
    if isinstance(n, ast.Attribute) and is_name(n.value, "self") and not n.attr.startswith("__"):
        return n.attr
    return None


def read_compile_method(cls):
    import importlib

    import pymbolic
    import pymbolic.mapper.stringifier as stmod
    import pymbolic.primitives as prim
    what = "CompiledExpression._compile"
    tree, fn = fn_ast(cls.__dict__["_compile"], what)
    ps = plain_params(tree, what, n=3)
    if ps[0] != "self":
        raise ExtractError(f"{what}: first parameter is not self")
    p_expr, p_vars = ps[1], ps[2]
    local_objs = {}
    names = {}          # role -> local variable name
    steps = []

    def fail(msg, node=None):
        at = f" at `{short(node)}`" if node is not None else ""
        raise ExtractError(f"{what}: {msg}{at}")

    def obj(n):
        if isinstance(n, ast.Name) and n.id in local_objs:
            return local_objs[n.id]
        if isinstance(n, ast.Attribute):
            base = obj(n.value)
            if base is not None and inspect.ismodule(base):
                if not hasattr(base, n.attr):
                    fail(f"module {base.__name__} has no attribute {n.attr}", n)
                return getattr(base, n.attr)
            return None
        if isinstance(n, ast.Name):
            if n.id in ps or n.id in names.values():
                return None
            g = fn.__globals__
            if n.id in g:
                return g[n.id]
            if hasattr(builtins, n.id):
                return getattr(builtins, n.id)
            fail(f"unbound name {n.id!r}", n)
        return None

    def role(r, n):
        return isinstance(n, ast.Name) and names.get(r) == n.id

    def bind(r, n):
        if not isinstance(n, ast.Name) or n.id in ps:
            fail("assignment target is not a fresh local name", n)
        if r in names and names[r] != n.id:
            fail(f"the {r} value is bound a second time under another name", n)
        names[r] = n.id

    def do_import(st):
        if isinstance(st, ast.Import):
            for al in st.names:
                if al.asname:
                    local_objs[al.asname] = importlib.import_module(al.name)
                else:
                    local_objs[al.name.split(".")[0]] = importlib.import_module(al.name.split(".")[0])
        else:
            if st.level:
                fail("relative import", st)
            mod = importlib.import_module(st.module)
            for al in st.names:
                local_objs[al.asname or al.name] = getattr(mod, al.name)

    for st in body_of(tree):
        if isinstance(st, (ast.Import, ast.ImportFrom)):
            do_import(st)
            continue
        # try: import N / except ImportError: pass / else: ctx["N"] = N
        if isinstance(st, ast.Try):
            ok = (len(st.body) == 1 and isinstance(st.body[0], ast.Import) and len(st.body[0].names) == 1
                  and not st.body[0].names[0].asname and len(st.handlers) == 1
                  and is_name(st.handlers[0].type, "ImportError") and len(st.handlers[0].body) == 1
                  and isinstance(st.handlers[0].body[0], ast.Pass) and not st.finalbody
                  and len(st.orelse) == 1 and isinstance(st.orelse[0], ast.Assign))
            if ok:
                N = st.body[0].names[0].name
                a = st.orelse[0]
                ok = (len(a.targets) == 1 and isinstance(a.targets[0], ast.Subscript)
                      and role("ctx", a.targets[0].value) and isinstance(a.targets[0].slice, ast.Constant)
                      and a.targets[0].slice.value == N and is_name(a.value, N))
            if not ok:
                fail("try statement is not `try: import N / except ImportError: pass / else: ctx['N'] = N`", st)
            steps.append(("ctxTryImport", N))
            continue
        if isinstance(st, ast.AugAssign):
            if not (isinstance(st.op, ast.Sub) and role("used", st.target)):
                fail("augmented assignment is not `used -= …`", st)
            v = st.value
            if (isinstance(v, ast.Call) and obj(v.func) is builtins.set and len(v.args) == 1
                    and not v.keywords and self_attr(v.args[0])):
                steps.append(("minusAttrSet", self_attr(v.args[0])))
                continue
            if isinstance(v, ast.SetComp) and len(v.generators) == 1:
                g = v.generators[0]
                e = v.elt
                ok = (not g.ifs and isinstance(g.target, ast.Name) and isinstance(e, ast.Call)
                      and len(e.args) == 1 and not e.keywords and is_name(e.args[0], g.target.id)
                      and obj(e.func) in (prim.Variable, pymbolic.var)
                      and "ctx" in names
                      and ast.unparse(g.iter) in (f"list({names['ctx']}.keys())", f"{names['ctx']}.keys()",
                                                   names["ctx"]))
                if ok:
                    steps.append(("minusCtxVars",))
                    continue
            fail("`used -= …` removes neither set(self.<attr>) nor the context names as variables", st)
        if isinstance(st, ast.Expr):
            # used.sort(key=lambda v: v.name)
            c = st.value
            ok = (isinstance(c, ast.Call) and isinstance(c.func, ast.Attribute) and c.func.attr == "sort"
                  and role("used", c.func.value) and not c.args and len(c.keywords) == 1
                  and c.keywords[0].arg == "key" and isinstance(c.keywords[0].value, ast.Lambda))
            if ok:
                lam = c.keywords[0].value
                ok = (len(lam.args.args) == 1 and ast.unparse(lam.body) == f"{lam.args.args[0].arg}.name")
            if not ok:
                fail("expression statement is not `used.sort(key=lambda v: v.name)`", st)
            steps.append(("sortByName",))
            continue
        if not (isinstance(st, ast.Assign) and len(st.targets) == 1):
            fail("statement outside the protocol language", st)
        t, v = st.targets[0], st.value
        ta = self_attr(t)
        if ta is not None:
            if is_name(v, p_expr):
                steps.append(("storeExpr", ta))
                continue
            if is_name(v, p_vars) or ast.unparse(v) == f"list({p_vars})":
                steps.append(("storeVars", ta, False))
                continue
            if isinstance(v, ast.ListComp) and len(v.generators) == 1:
                g = v.generators[0]
                e = v.elt
                if (not g.ifs and isinstance(g.target, ast.Name) and is_name(g.iter, p_vars)
                        and isinstance(e, ast.Call) and len(e.args) == 1 and not e.keywords
                        and is_name(e.args[0], g.target.id) and obj(e.func) is prim.make_variable):
                    steps.append(("storeVars", ta, True))
                    continue
            if (isinstance(v, ast.Call) and obj(v.func) is builtins.eval and len(v.args) == 2
                    and not v.keywords and role("lam", v.args[0]) and role("ctx", v.args[1])):
                steps.append(("evalCode", ta))
                continue
            fail("assignment to an attribute outside the protocol language", st)
        # ctx = self.context().copy() / self.context()
        src = ast.unparse(v)
        if src in ("self.context().copy()", "self.context()", "dict(self.context())"):
            bind("ctx", t)
            steps.append(("ctxFromContext", src != "self.context()"))
            continue
        # used = Mapper(composite_leaves=…)(self.A)
        if (isinstance(v, ast.Call) and isinstance(v.func, ast.Call) and len(v.args) == 1 and not v.keywords
                and self_attr(v.args[0]) and inspect.isclass(obj(v.func.func))
                and obj(v.func.func).__name__.endswith("DependencyMapper")):
            inner = v.func
            if inner.args or [k.arg for k in inner.keywords] not in ([], ["composite_leaves"]):
                fail("dependency mapper built with arguments other than composite_leaves=…", st)
            cl = None
            if inner.keywords:
                kv = inner.keywords[0].value
                if not (isinstance(kv, ast.Constant) and (kv.value is None or isinstance(kv.value, bool))):
                    fail("composite_leaves is not a literal", st)
                cl = kv.value
            bind("used", t)
            steps.append(("depsOf", obj(v.func.func).__name__, cl, self_attr(v.args[0])))
            continue
        # expr_s = Mapper()(self.A, PREC)
        if (isinstance(v, ast.Call) and isinstance(v.func, ast.Call) and len(v.args) == 2 and not v.keywords
                and not v.func.args and not v.func.keywords and self_attr(v.args[0])
                and inspect.isclass(obj(v.func.func))):
            pn = v.args[1]
            if not (isinstance(pn, ast.Name) and pn.id.startswith("PREC_") and hasattr(stmod, pn.id)
                    and obj(pn) == getattr(stmod, pn.id)):
                fail("the precedence of the body is not a PREC_* constant of the stringifier", st)
            bind("body", t)
            steps.append(("body", obj(v.func.func).__name__, self_attr(v.args[0]), pn.id))
            continue
        # used = list(used)
        if (isinstance(v, ast.Call) and obj(v.func) is builtins.list and len(v.args) == 1 and not v.keywords
                and role("used", v.args[0]) and role("used", t)):
            steps.append(("toList",))
            continue
        # all_variables = A + B
        if isinstance(v, ast.BinOp) and isinstance(v.op, ast.Add):
            def side(n):
                if self_attr(n):
                    return ("listed", self_attr(n))
                if role("used", n):
                    return ("used", None)
                fail("operand of `+` is neither self.<attr> nor the used variables", n)
            a, b = side(v.left), side(v.right)
            bind("all", t)
            steps.append(("allVars", a, b))
            continue
        # func_s = "lambda {}: {}".format(",".join(str(v) for v in all_variables), expr_s)
        if (isinstance(v, ast.Call) and isinstance(v.func, ast.Attribute) and v.func.attr == "format"
                and isinstance(v.func.value, ast.Constant) and isinstance(v.func.value.value, str)
                and len(v.args) == 2 and not v.keywords):
            fmt = v.func.value.value
            if "{{" in fmt or "}}" in fmt or fmt.count("{}") != 2 or fmt.count("{") != 2 or fmt.count("}") != 2:
                fail("format string is not two plain `{}` fields", st)
            j = v.args[0]
            ok = (isinstance(j, ast.Call) and isinstance(j.func, ast.Attribute) and j.func.attr == "join"
                  and isinstance(j.func.value, ast.Constant) and isinstance(j.func.value.value, str)
                  and len(j.args) == 1 and isinstance(j.args[0], ast.GeneratorExp)
                  and len(j.args[0].generators) == 1 and role("all", j.args[0].generators[0].iter)
                  and not j.args[0].generators[0].ifs
                  and isinstance(j.args[0].generators[0].target, ast.Name)
                  and ast.unparse(j.args[0].elt) == f"str({j.args[0].generators[0].target.id})"
                  and role("body", v.args[1]))
            if not ok:
                fail("lambda text is not `<fmt>.format(<sep>.join(str(v) for v in all_variables), body)`", st)
            bind("lam", t)
            steps.append(("lambdaText", fmt.split("{}"), j.func.value.value))
            continue
        fail("assignment outside the protocol language", st)
    return steps


def read_compiled_expression():
    import pymbolic
    import pymbolic.compiler as pc
    cls = pc.CompiledExpression
    if pc.compile is not cls or pymbolic.compile is not cls:
        raise ExtractError("pymbolic.compile is not pymbolic.compiler.CompiledExpression")
    if cls.__bases__ != (object,):
        raise ExtractError("CompiledExpression has base classes")
    known = {"__init__", "_compile", "__getstate__", "__setstate__", "__call__", "context"}
    for name, o in cls.__dict__.items():
        if name in CLASS_BODY_METADATA:
            continue
        if name not in known or not inspect.isfunction(o):
            raise ExtractError(f"CompiledExpression.{name}: the class body defines something this "
                               "reader does not know")
    missing = known - set(cls.__dict__)
    if missing:
        raise ExtractError(f"CompiledExpression lacks {sorted(missing)}")
    # __init__
    tree, _ = fn_ast(cls.__dict__["__init__"], "CompiledExpression.__init__")
    a = tree.args
    if ([x.arg for x in a.args] != ["self", "expression", "variables"] or len(a.defaults) != 1
            or not (isinstance(a.defaults[0], ast.Constant) and a.defaults[0].value is None)
            or a.vararg or a.kwarg or a.kwonlyargs):
        raise ExtractError("CompiledExpression.__init__: signature is not (self, expression, variables=None)")
    b = [ast.unparse(s) for s in body_of(tree)]
    none_default = "if variables is None:\n    variables = []" in b
    rest = [x for x in b if x != "if variables is None:\n    variables = []"]
    if rest != ["self._compile(expression, variables)"]:
        raise ExtractError(f"CompiledExpression.__init__: unreadable body {rest!r}")
    # __getstate__
    tree, _ = fn_ast(cls.__dict__["__getstate__"], "CompiledExpression.__getstate__")
    plain_params(tree, "CompiledExpression.__getstate__", ["self"])
    b = body_of(tree)
    if not (len(b) == 1 and isinstance(b[0], ast.Return) and isinstance(b[0].value, ast.Tuple)):
        raise ExtractError("CompiledExpression.__getstate__: body is not `return <tuple>`")
    items = []
    for e in b[0].value.elts:
        if self_attr(e):
            items.append(("attr", self_attr(e)))
        elif isinstance(e, ast.List) and not e.elts:
            items.append(("emptyList",))
        elif isinstance(e, ast.Constant) and e.value is None:
            items.append(("none",))
        else:
            raise ExtractError(f"CompiledExpression.__getstate__: unreadable state item {short(e)}")
    # __setstate__
    tree, _ = fn_ast(cls.__dict__["__setstate__"], "CompiledExpression.__setstate__")
    ps = plain_params(tree, "CompiledExpression.__setstate__", n=2)
    b = [ast.unparse(s) for s in body_of(tree)]
    if b != [f"self._compile(*{ps[1]})"]:
        raise ExtractError(f"CompiledExpression.__setstate__: body is not `self._compile(*state)`: {b!r}")
    # __call__
    tree, _ = fn_ast(cls.__dict__["__call__"], "CompiledExpression.__call__")
    a = tree.args
    if [x.arg for x in a.args] != ["self"] or not a.vararg or a.kwarg or a.kwonlyargs:
        raise ExtractError("CompiledExpression.__call__: signature is not (self, *args)")
    b = body_of(tree)
    ok = (len(b) == 1 and isinstance(b[0], ast.Return) and isinstance(b[0].value, ast.Call)
          and self_attr(b[0].value.func)
          and ast.unparse(b[0].value) == f"self.{self_attr(b[0].value.func)}(*{a.vararg.arg})")
    if not ok:
        raise ExtractError("CompiledExpression.__call__: body is not `return self.<attr>(*args)`")
    call_attr = self_attr(b[0].value.func)
    # context
    tree, fn = fn_ast(cls.__dict__["context"], "CompiledExpression.context")
    plain_params(tree, "CompiledExpression.context", ["self"])
    b = body_of(tree)
    if not (len(b) == 1 and isinstance(b[0], ast.Return) and isinstance(b[0].value, ast.Dict)):
        raise ExtractError("CompiledExpression.context: body is not `return {…}`")
    keys = []
    rs = Resolver(fn)
    for k, v in zip(b[0].value.keys, b[0].value.values):
        if not (isinstance(k, ast.Constant) and isinstance(k.value, str)):
            raise ExtractError("CompiledExpression.context: key is not a string literal")
        o = rs.obj(v, set())
        if not (inspect.ismodule(o) and o.__name__ == k.value):
            raise ExtractError(f"CompiledExpression.context: {k.value!r} is not bound to the module "
                               "of that name")
        keys.append(k.value)
    return dict(initNoneDefault=none_default, initCallsCompile=True,
                compile=read_compile_method(cls), getstate=items, setstateCompileStar=True,
                callCodeStar=call_attr, contextKeys=keys)


def l_cstep(s, vars_attr):
    k = s[0]
    if k in ("storeExpr", "ctxTryImport", "minusAttrSet", "evalCode"):
        return f".{k} {q(s[1])}"
    if k == "storeVars":
        return f".storeVars {q(s[1])} {lb(s[2])}"
    if k == "ctxFromContext":
        return f".ctxFromContext {lb(s[1])}"
    if k == "depsOf":
        cl = "none" if s[2] is None else f"(some {lb(s[2])})"
        return f".depsOf {q(s[1])} {cl} {q(s[3])}"
    if k in ("minusCtxVars", "toList", "sortByName"):
        return f".{k}"
    if k == "allVars":
        for side in (s[1], s[2]):
            if side[0] == "listed" and side[1] != vars_attr:
                raise ExtractError(f"CompiledExpression._compile: `+` takes self.{side[1]}, which is "
                                   "not the attribute holding the listed variables")
        return f".allVars .{s[1][0]} .{s[2][0]}"
    if k == "body":
        return f".body {q(s[1])} {q(s[2])} {q(s[3])}"
    if k == "lambdaText":
        return f".lambdaText {lstrs(s[1])} {q(s[2])}"
    raise ExtractError(f"internal: no Lean form for {k}")


def render_compiled(t):
    vars_attr = next((s[1] for s in t["compile"] if s[0] == "storeVars"), None)
    steps = ",\n".join("    " + l_cstep(s, vars_attr) for s in t["compile"])
    items = ", ".join(f".attr {q(i[1])}" if i[0] == "attr" else f".{i[0]}" for i in t["getstate"])
    call = "none" if t["callCodeStar"] is None else f"some {q(t['callCodeStar'])}"
    return ("/-- `CompiledExpression` -/\n"
            "def c13CompiledTable : C13CompiledTable where\n"
            f"  initNoneDefault := {lb(t['initNoneDefault'])}\n"
            f"  initCallsCompile := {lb(t['initCallsCompile'])}\n"
            f"  compile := [\n{steps}\n  ]\n"
            f"  getstate := [{items}]\n"
            f"  setstateCompileStar := {lb(t['setstateCompileStar'])}\n"
            f"  callCodeStar := {call}\n"
            f"  contextKeys := {lstrs(t['contextKeys'])}\n")

# }}}


# {{{ E. to_evaluatable_python_function

def read_func_source():
    import importlib

    import pymbolic.interop.ast as ia
    what = "to_evaluatable_python_function"
    tree, fn = fn_ast(ia.to_evaluatable_python_function, what)
    ps = plain_params(tree, what, n=2)
    p_expr, p_name = ps
    local = {}
    stmts = []
    for st in body_of(tree):
        if isinstance(st, ast.Import):
            for al in st.names:
                local[al.asname or al.name.split(".")[0]] = importlib.import_module(al.name.split(".")[0])
        elif isinstance(st, ast.ImportFrom):
            mod = importlib.import_module(st.module)
            for al in st.names:
                local[al.asname or al.name] = getattr(mod, al.name)
        else:
            stmts.append(st)
    if len(stmts) != 6:
        raise ExtractError(f"{what}: expected six statements after the imports, found {len(stmts)}")
    s_unparse, s_mapper, s_deps, s_func, s_module, s_ret = stmts
    # if sys.version_info < (3, 9): … else: unparse = ast.unparse
    ok = (isinstance(s_unparse, ast.If) and ast.unparse(s_unparse.test) == "sys.version_info < (3, 9)"
          and [ast.unparse(x) for x in s_unparse.orelse] == ["unparse = ast.unparse"])
    if not ok:
        raise ExtractError(f"{what}: the unparser is not chosen by `if sys.version_info < (3, 9): … "
                           "else: unparse = ast.unparse`")

    def target(st):
        if isinstance(st, ast.Assign) and len(st.targets) == 1 and isinstance(st.targets[0], ast.Name):
            return st.targets[0].id
        raise ExtractError(f"{what}: expected an assignment to a local name: `{short(st)}`")

    # dep_mapper = M(composite_leaves=…)
    M = target(s_mapper)
    v = s_mapper.value
    ok = (isinstance(v, ast.Call) and isinstance(v.func, ast.Name) and not v.args
          and v.func.id in local and inspect.isclass(local[v.func.id])
          and [k.arg for k in v.keywords] in ([], ["composite_leaves"]))
    if not ok:
        raise ExtractError(f"{what}: unreadable dependency mapper construction `{short(s_mapper)}`")
    cl = None
    if v.keywords:
        kv = v.keywords[0].value
        if not (isinstance(kv, ast.Constant) and (kv.value is None or isinstance(kv.value, bool))):
            raise ExtractError(f"{what}: composite_leaves is not a literal")
        cl = kv.value
    # deps = sorted({dep.name for dep in dep_mapper(expr)})
    D = target(s_deps)
    if ast.unparse(s_deps) != f"{D} = sorted({{dep.name for dep in {M}({p_expr})}})":
        raise ExtractError(f"{what}: the names are not `sorted({{dep.name for dep in {M}({p_expr})}})`")
    # the FunctionDef
    F = target(s_func)
    want = (f"{F} = ast.FunctionDef(name={p_name}, args=ast.arguments(args=[], posonlyargs=[], "
            f"kwonlyargs=[ast.arg(dep, None) for dep in {D}], kw_defaults=[None] * len({D}), vararg=None, "
            f"kwarg=None, defaults=[]), body=[ast.Return(to_python_ast({p_expr}))], decorator_list=[])")
    if ast.unparse(s_func) != want:
        raise ExtractError(f"{what}: the FunctionDef is not the known keyword-only signature returning "
                           f"to_python_ast({p_expr})")
    if fn.__globals__.get("to_python_ast") is not ia.to_python_ast:
        raise ExtractError(f"{what}: to_python_ast is not the module's function")
    Mo = target(s_module)
    if ast.unparse(s_module) != f"{Mo} = ast.Module([{F}], type_ignores=[])":
        raise ExtractError(f"{what}: the module is not `ast.Module([{F}], type_ignores=[])`")
    if ast.unparse(s_ret) != f"return unparse(ast.fix_missing_locations({Mo}))":
        raise ExtractError(f"{what}: does not return unparse(ast.fix_missing_locations({Mo}))")
    return dict(depMapper=local[v.func.id].__name__, compositeLeaves=cl, namesSortedSet=True,
                kwonlyOnly=True, bodyReturnsToPythonAst=True, nameFromArg=True, unparse="ast.unparse")


def render_func_source(t):
    cl = "none" if t["compositeLeaves"] is None else f"(some {lb(t['compositeLeaves'])})"
    return ("/-- `to_evaluatable_python_function` -/\n"
            "def c13FuncSrcTable : C13FuncSrcTable where\n"
            f"  depMapper := {q(t['depMapper'])}\n"
            f"  compositeLeaves := {cl}\n"
            f"  namesSortedSet := {lb(t['namesSortedSet'])}\n"
            f"  kwonlyOnly := {lb(t['kwonlyOnly'])}\n"
            f"  bodyReturnsToPythonAst := {lb(t['bodyReturnsToPythonAst'])}\n"
            f"  nameFromArg := {lb(t['nameFromArg'])}\n"
            f"  unparse := {q(t['unparse'])}\n")

# }}}


def table(ctx=None):
    import pymbolic.compiler as pc
    import pymbolic.interop.ast as ia
    import pymbolic.mapper as pm
    import pymbolic.primitives as prim
    check_repo(ctx, [pc, ia, pm, prim])
    return dict(fromAst=read_from_table(), toAst=read_to_table(),
                compileMapper=read_compile_mapper(), compiled=read_compiled_expression(),
                funcSource=read_func_source())


def render(t):
    out = ["import PV.Model.CodegenTable",
           "/- GENERATED by extract/codegen.py from the live source of pymbolic/interop/ast.py and",
           "   pymbolic/compiler.py — do not edit. -/",
           "namespace PV.Generated", "",
           render_from(t["fromAst"]),
           render_to(t["toAst"]),
           render_compile_mapper(t["compileMapper"]),
           render_compiled(t["compiled"]),
           render_func_source(t["funcSource"]),
           "end PV.Generated", ""]
    return "\n".join(out)


def extract_codegen(ctx=None):
    t = table(ctx)
    write_if_changed(os.path.join(LEAN, "PV", "Generated", "Codegen.lean"), render(t))
    return t


if __name__ == "__main__":
    import json
    t = extract_codegen({"repo": os.environ.get("REPO", "/repo")})
    print(json.dumps(t, indent=1, default=str))
