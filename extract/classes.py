"""T-gen for C01: regenerate lean/PV/Generated/Classes.lean from the live classes of the working
tree of /repo.

For every `Expression` subclass reachable from `pymbolic.primitives.Expression.__subclasses__()`
(recursively; pymbolic.polynomial / pymbolic.rational are imported first; the harness's own user
hierarchies harness/c01_classes.py, harness/c17_classes.py are included) one `ClassInfo` record
(lean/PV/Model/Classes.lean).  For classes declared with `@expr_dataclass()` the GENERATED source
text of the methods (`cls.__eq__.__globals__["_MODULE_SOURCE_CODE"]`) is parsed with `ast`; what is
recorded is what that text mentions, not what it should mention.  A shape of the generated code
this reader does not understand is an extraction error (reported as a broken obligation), never a
silent default.
"""
from __future__ import annotations

import ast
import dataclasses
import os

from harness.leanio import LEAN

from .prec import write_if_changed


class ExtractError(Exception):
    pass


def _is_attr(node, obj, name=None):
    return (isinstance(node, ast.Attribute) and isinstance(node.value, ast.Name)
            and node.value.id == obj and (name is None or node.attr == name))


def _self_tuple(node, what):
    """names of `(self.a, self.b, …)` / `()`"""
    if not isinstance(node, ast.Tuple):
        raise ExtractError(f"{what}: expected a tuple, got {ast.dump(node)[:80]}")
    out = []
    for e in node.elts:
        if not _is_attr(e, "self"):
            raise ExtractError(f"{what}: tuple element is not self.<field>: {ast.dump(e)[:80]}")
        out.append(e.attr)
    return out


def _const_tuple(node, what):
    if not isinstance(node, ast.Tuple) or not all(
            isinstance(e, ast.Constant) and isinstance(e.value, str) for e in node.elts):
        raise ExtractError(f"{what}: expected a tuple of string literals")
    return [e.value for e in node.elts]


def _returns(fn):
    return [n for n in ast.walk(fn) if isinstance(n, ast.Return)]


def read_eq(fn: ast.FunctionDef):
    """-> (fields compared, class compared?)"""
    class_checked = False
    # early exit: `if self.__class__ is not other.__class__: return False`
    for n in ast.walk(fn):
        if (isinstance(n, ast.If) and isinstance(n.test, ast.Compare) and len(n.test.ops) == 1
                and isinstance(n.test.ops[0], ast.IsNot)
                and _is_attr(n.test.left, "self", "__class__")
                and _is_attr(n.test.comparators[0], "other", "__class__")
                and len(n.body) == 1 and isinstance(n.body[0], ast.Return)
                and isinstance(n.body[0].value, ast.Constant) and n.body[0].value.value is False):
            class_checked = True
    last = fn.body[-1]
    if not isinstance(last, ast.Return):
        raise ExtractError("__eq__: last statement is not a return")
    v = last.value
    conj = v.values if isinstance(v, ast.BoolOp) and isinstance(v.op, ast.And) else [v]
    fields = []
    for c in conj:
        if isinstance(c, ast.Constant) and c.value is True:
            continue
        if not (isinstance(c, ast.Compare) and len(c.ops) == 1 and isinstance(c.ops[0], ast.Eq)):
            raise ExtractError(f"__eq__: conjunct is not an == comparison: {ast.dump(c)[:80]}")
        le, ri = c.left, c.comparators[0]
        if _is_attr(le, "self", "__class__") and _is_attr(ri, "other", "__class__"):
            class_checked = True
        elif isinstance(le, ast.Tuple) and isinstance(ri, ast.Tuple):
            ln, rn = _self_tuple(le, "__eq__"), [e.attr for e in ri.elts if _is_attr(e, "other")]
            if ln != rn:
                raise ExtractError("__eq__: tuple comparison of different fields")
            fields += ln
        elif _is_attr(le, "self") and _is_attr(ri, "other") and le.attr == ri.attr:
            fields.append(le.attr)
        else:
            raise ExtractError(f"__eq__: unrecognised comparison {ast.dump(c)[:100]}")
    return fields, class_checked


def read_hash(fn: ast.FunctionDef):
    calls = [n for n in ast.walk(fn)
             if isinstance(n, ast.Call) and isinstance(n.func, ast.Name) and n.func.id == "hash"
             and len(n.args) == 1 and isinstance(n.args[0], ast.Tuple)]
    if len(calls) != 1:
        raise ExtractError(f"__hash__: expected one hash((…)) call, found {len(calls)}")
    return _self_tuple(calls[0].args[0], "__hash__")


def read_last_return_tuple(fn, what, const=False):
    last = fn.body[-1]
    if not isinstance(last, ast.Return):
        raise ExtractError(f"{what}: last statement is not a return")
    return _const_tuple(last.value, what) if const else _self_tuple(last.value, what)


def read_setstate(fn):
    loops = [n for n in ast.walk(fn) if isinstance(n, ast.For)]
    if len(loops) != 1:
        raise ExtractError("__setstate__: expected one for loop")
    it = loops[0].iter
    if not (isinstance(it, ast.Call) and isinstance(it.func, ast.Name) and it.func.id == "zip"
            and len(it.args) == 2 and isinstance(it.args[1], ast.Name)):
        raise ExtractError("__setstate__: loop is not over zip(<names>, state)")
    body = loops[0].body
    ok = (len(body) == 1 and isinstance(body[0], ast.Expr) and isinstance(body[0].value, ast.Call)
          and ast.unparse(body[0].value.func) == "object.__setattr__")
    if not ok:
        raise ExtractError("__setstate__: loop body is not object.__setattr__(self, name, value)")
    return _const_tuple(it.args[0], "__setstate__")


def read_guard(fn, what):
    """the literal in `self.init_arg_names != (<names>)`"""
    lits = []
    for n in ast.walk(fn):
        if (isinstance(n, ast.Compare) and len(n.ops) == 1 and isinstance(n.ops[0], ast.NotEq)
                and _is_attr(n.left, "self", "init_arg_names")):
            lits.append(_const_tuple(n.comparators[0], what + " guard"))
    if len(lits) != 1:
        raise ExtractError(f"{what}: expected one init_arg_names guard, found {len(lits)}")
    return lits[0]


def hand_written(cls, attr):
    """the class's effective `attr` is neither a generated method nor Expression's"""
    from pymbolic.primitives import Expression
    fn = getattr(cls, attr, None)
    if fn is None or fn is getattr(Expression, attr):
        return False
    g = getattr(fn, "__globals__", {})
    return "_MODULE_SOURCE_CODE" not in g


def info_for(cls):
    from harness import c01_classes as C
    name = cls.__name__
    own = cls.__dict__
    base = C.decorated_base(cls)
    mm = getattr(cls, "mapper_method", None)
    rec = dict(name=name, module=cls.__module__, base=base.__name__ if base else "",
               fields=[], eqFields=[], eqClassChecked=False, hashFields=[], hashInstalled=False,
               getstateFields=[], setstateFields=[], initArgNames=[], getinitargsFields=[],
               frozen=False, mapperMethod=mm if isinstance(mm, str) else None,
               hashable=cls.__hash__ is not None, ownEq=hand_written(cls, "__eq__"),
               ownHash=hand_written(cls, "__hash__"))
    if "_is_expr_dataclass" not in own:
        rec["kind"] = "sub" if base is not None else "legacy"
        rec["fields"] = list(C.field_names_of(cls))
        return rec
    rec["kind"] = "dataclass"
    rec["fields"] = [f.name for f in dataclasses.fields(cls)]
    params = own.get("__dataclass_params__")
    rec["frozen"] = bool(params is not None and params.frozen)
    rec["mapperMethod"] = own.get("mapper_method") if isinstance(own.get("mapper_method"), str) else None
    eq = own.get("__eq__")
    if eq is None or eq.__globals__.get("cls") is not cls or "_MODULE_SOURCE_CODE" not in eq.__globals__:
        raise ExtractError(f"{name}: __eq__ is not the generated method of this class")
    src = eq.__globals__["_MODULE_SOURCE_CODE"]
    mod = ast.parse(src)
    fns = {n.name: n for n in mod.body if isinstance(n, ast.FunctionDef)}

    def fn(suffix):
        f = fns.get(f"{name}_{suffix}")
        if f is None:
            raise ExtractError(f"{name}: generated source has no {name}_{suffix}")
        return f

    def installed(attr, suffix, via=None):
        v = own.get(attr)
        if via is not None and v is not None:
            v = via(v)
        return v is not None and getattr(v, "__name__", None) == f"{name}_{suffix}" \
            and v.__globals__.get("cls") is cls

    if not installed("__eq__", "eq"):
        raise ExtractError(f"{name}: generated __eq__ not installed")
    rec["ownEq"] = False
    rec["eqFields"], rec["eqClassChecked"] = read_eq(fn("eq"))
    rec["hashFields"] = read_hash(fn("hash"))
    rec["hashInstalled"] = installed("__hash__", "hash")
    rec["ownHash"] = hand_written(cls, "__hash__")
    if read_guard(fn("eq"), "__eq__") != read_guard(fn("hash"), "__hash__"):
        raise ExtractError(f"{name}: __eq__ and __hash__ guard the legacy branch differently")
    rec["getstateFields"] = read_last_return_tuple(fn("getstate"), "__getstate__")
    rec["setstateFields"] = read_setstate(fn("setstate"))
    rec["initArgNames"] = read_last_return_tuple(fn("init_arg_names"), "init_arg_names", const=True)
    if rec["initArgNames"] != read_guard(fn("eq"), "__eq__"):
        raise ExtractError(f"{name}: init_arg_names differs from the legacy-branch guard")
    rec["getinitargsFields"] = read_last_return_tuple(fn("getinitargs"), "__getinitargs__")
    for attr, suffix, via in (("__getstate__", "getstate", None), ("__setstate__", "setstate", None),
                              ("__getinitargs__", "getinitargs", None),
                              ("init_arg_names", "init_arg_names", lambda v: getattr(v, "fget", None))):
        if not installed(attr, suffix, via):
            raise ExtractError(f"{name}: generated {attr} not installed")
    return rec


def q(s):
    return '"' + s.replace("\\", "\\\\").replace('"', '\\"') + '"'


def lean_list(xs):
    return "[" + ", ".join(q(x) for x in xs) + "]"


def lean_bool(b):
    return "true" if b else "false"


def to_lean(rec):
    mm = "none" if rec["mapperMethod"] is None else f"some {q(rec['mapperMethod'])}"
    return ("  { name := %s, module := %s, kind := .%s, base := %s,\n"
            "    fields := %s, eqFields := %s, eqClassChecked := %s,\n"
            "    hashFields := %s, hashInstalled := %s,\n"
            "    getstateFields := %s, setstateFields := %s,\n"
            "    initArgNames := %s, getinitargsFields := %s,\n"
            "    frozen := %s, mapperMethod := %s, hashable := %s, ownEq := %s, ownHash := %s }") % (
        q(rec["name"]), q(rec["module"]), rec["kind"], q(rec["base"]),
        lean_list(rec["fields"]), lean_list(rec["eqFields"]), lean_bool(rec["eqClassChecked"]),
        lean_list(rec["hashFields"]), lean_bool(rec["hashInstalled"]),
        lean_list(rec["getstateFields"]), lean_list(rec["setstateFields"]),
        lean_list(rec["initArgNames"]), lean_list(rec["getinitargsFields"]),
        lean_bool(rec["frozen"]), mm, lean_bool(rec["hashable"]), lean_bool(rec["ownEq"]),
        lean_bool(rec["ownHash"]))


def class_table():
    from harness import c01_classes as C
    return [info_for(c) for c in C.all_expression_classes()]


def extract_classes(ctx=None):
    recs = class_table()
    text = ("import PV.Model.Classes\n"
            "/- GENERATED by extract/classes.py from the live classes of /repo — do not edit. -/\n"
            "namespace PV.Generated\n\n"
            "def classes : ClassTable := [\n" + ",\n".join(to_lean(r) for r in recs) + "\n]\n\n"
            "end PV.Generated\n")
    write_if_changed(os.path.join(LEAN, "PV", "Generated", "Classes.lean"), text)
    return recs


if __name__ == "__main__":
    for r in extract_classes():
        print(r["module"], r["name"], r["kind"], r["fields"], r["eqFields"], r["hashFields"],
              r["frozen"], r["mapperMethod"], r["hashable"], r["ownEq"], r["ownHash"])
