"""T-gen for C01: regenerate lean/PV/Generated/Classes.lean from the live classes of the working
tree of /repo.

For every `Expression` subclass reachable from `pymbolic.primitives.Expression.__subclasses__()`
(recursively; pymbolic.polynomial / pymbolic.rational are imported first; the harness's own user
hierarchies harness/c01_classes.py, harness/c17_classes.py are included) one `ClassInfo` record
(lean/PV/Model/Classes.lean).  For classes declared with `@expr_dataclass()` the GENERATED source
text of the methods (`cls.__eq__.__globals__["_MODULE_SOURCE_CODE"]`) is parsed with `ast`; what is
recorded is what that text mentions, not what it should mention.  A shape of the generated code
this reader does not understand is an extraction error (reported as a broken obligation), never a
silent default.
"""
from __future__ import annotations

import ast
import dataclasses
import os

from harness.leanio import LEAN

from .prec import write_if_changed


class ExtractError(Exception):
    pass


def _is_attr(node, obj, name=None):
    return (isinstance(node, ast.Attribute) and isinstance(node.value, ast.Name)
            and node.value.id == obj and (name is None or node.attr == name))


def _self_tuple(node, what):
    """names of `(self.a, self.b, …)` / `()`"""
    if not isinstance(node, ast.Tuple):
        raise ExtractError(f"{what}: expected a tuple, got {ast.dump(node)[:80]}")
    out = []
    for e in node.elts:
        if not _is_attr(e, "self"):
            raise ExtractError(f"{what}: tuple element is not self.<field>: {ast.dump(e)[:80]}")
        out.append(e.attr)
    return out


def _const_tuple(node, what):
    if not isinstance(node, ast.Tuple) or not all(
            isinstance(e, ast.Constant) and isinstance(e.value, str) for e in node.elts):
        raise ExtractError(f"{what}: expected a tuple of string literals")
    return [e.value for e in node.elts]


def _returns(fn):
    return [n for n in ast.walk(fn) if isinstance(n, ast.Return)]


def read_eq(fn: ast.FunctionDef):
    """-> (fields compared, class compared?)"""
    class_checked = False
    # early exit: `if self.__class__ is not other.__class__: return False`
    for n in ast.walk(fn):
        if (isinstance(n, ast.If) and isinstance(n.test, ast.Compare) and len(n.test.ops) == 1
                and isinstance(n.test.ops[0], ast.IsNot)
                and _is_attr(n.test.left, "self", "__class__")
                and _is_attr(n.test.comparators[0], "other", "__class__")
                and len(n.body) == 1 and isinstance(n.body[0], ast.Return)
                and isinstance(n.body[0].value, ast.Constant) and n.body[0].value.value is False):
            class_checked = True
    last = fn.body[-1]
    if not isinstance(last, ast.Return):
        raise ExtractError("__eq__: last statement is not a return")
    v = last.value
    conj = v.values if isinstance(v, ast.BoolOp) and isinstance(v.op, ast.And) else [v]
    fields = []
    for c in conj:
        if isinstance(c, ast.Constant) and c.value is True:
            continue
        if not (isinstance(c, ast.Compare) and len(c.ops) == 1 and isinstance(c.ops[0], ast.Eq)):
            raise ExtractError(f"__eq__: conjunct is not an == comparison: {ast.dump(c)[:80]}")
        le, ri = c.left, c.comparators[0]
        if _is_attr(le, "self", "__class__") and _is_attr(ri, "other", "__class__"):
            class_checked = True
        elif isinstance(le, ast.Tuple) and isinstance(ri, ast.Tuple):
            ln, rn = _self_tuple(le, "__eq__"), [e.attr for e in ri.elts if _is_attr(e, "other")]
            if ln != rn:
                raise ExtractError("__eq__: tuple comparison of different fields")
            fields += ln
        elif _is_attr(le, "self") and _is_attr(ri, "other") and le.attr == ri.attr:
            fields.append(le.attr)
        else:
            raise ExtractError(f"__eq__: unrecognised comparison {ast.dump(c)[:100]}")
    return fields, class_checked


def read_hash(fn: ast.FunctionDef):
    calls = [n for n in ast.walk(fn)
             if isinstance(n, ast.Call) and isinstance(n.func, ast.Name) and n.func.id == "hash"
             and len(n.args) == 1 and isinstance(n.args[0], ast.Tuple)]
    if len(calls) != 1:
        raise ExtractError(f"__hash__: expected one hash((…)) call, found {len(calls)}")
    return _self_tuple(calls[0].args[0], "__hash__")


def read_last_return_tuple(fn, what, const=False):
    last = fn.body[-1]
    if not isinstance(last, ast.Return):
        raise ExtractError(f"{what}: last statement is not a return")
    return _const_tuple(last.value, what) if const else _self_tuple(last.value, what)


def read_setstate(fn):
    loops = [n for n in ast.walk(fn) if isinstance(n, ast.For)]
    if len(loops) != 1:
        raise ExtractError("__setstate__: expected one for loop")
    it = loops[0].iter
    if not (isinstance(it, ast.Call) and isinstance(it.func, ast.Name) and it.func.id == "zip"
            and len(it.args) == 2 and isinstance(it.args[1], ast.Name)):
        raise ExtractError("__setstate__: loop is not over zip(<names>, state)")
    body = loops[0].body
    ok = (len(body) == 1 and isinstance(body[0], ast.Expr) and isinstance(body[0].value, ast.Call)
          and ast.unparse(body[0].value.func) == "object.__setattr__")
    if not ok:
        raise ExtractError("__setstate__: loop body is not object.__setattr__(self, name, value)")
    return _const_tuple(it.args[0], "__setstate__")


def read_guard(fn, what):
    """the literal in `self.init_arg_names != (<names>)`"""
    lits = []
    for n in ast.walk(fn):
        if (isinstance(n, ast.Compare) and len(n.ops) == 1 and isinstance(n.ops[0], ast.NotEq)
                and _is_attr(n.left, "self", "init_arg_names")):
            lits.append(_const_tuple(n.comparators[0], what + " guard"))
    if len(lits) != 1:
        raise ExtractError(f"{what}: expected one init_arg_names guard, found {len(lits)}")
    return lits[0]


def hand_written(cls, attr):
    """the class's effective `attr` is neither a generated method nor Expression's"""
    from pymbolic.primitives import Expression
    fn = getattr(cls, attr, None)
    if fn is None or fn is getattr(Expression, attr):
        return False
    g = getattr(fn, "__globals__", {})
    return "_MODULE_SOURCE_CODE" not in g


# {{{ hand-written __eq__ / __hash__ (Polynomial, Rational): read from their source

def definer(cls, attr):
    """the class in the MRO in whose __dict__ the effective `attr` lives"""
    for c in cls.__mro__:
        if attr in c.__dict__:
            return c
    return None


def _method_asts(cls):
    """{name: ast.FunctionDef} of the methods written in the body of `cls`"""
    import inspect
    import textwrap
    try:
        src = textwrap.dedent(inspect.getsource(cls))
    except (OSError, TypeError) as ex:
        raise ExtractError(f"{cls.__name__}: source not available: {ex}") from None
    mod = ast.parse(src)
    if len(mod.body) != 1 or not isinstance(mod.body[0], ast.ClassDef):
        raise ExtractError(f"{cls.__name__}: source is not one class definition")
    return {n.name: n for n in mod.body[0].body if isinstance(n, ast.FunctionDef)}


def _body(fn):
    """statements of a function without a leading docstring"""
    b = list(fn.body)
    if b and isinstance(b[0], ast.Expr) and isinstance(b[0].value, ast.Constant) \
            and isinstance(b[0].value.value, str):
        b = b[1:]
    return b


def _args_are(fn, names, what):
    a = fn.args
    got = [x.arg for x in a.args]
    if got != names or a.vararg or a.kwarg or a.kwonlyargs or a.posonlyargs or a.defaults:
        raise ExtractError(f"{what}: signature is not ({', '.join(names)})")


def _is_isinstance(node, obj, clsname):
    return (isinstance(node, ast.Call) and isinstance(node.func, ast.Name)
            and node.func.id == "isinstance" and len(node.args) == 2 and not node.keywords
            and isinstance(node.args[0], ast.Name) and node.args[0].id == obj
            and isinstance(node.args[1], ast.Name) and node.args[1].id == clsname)


def _attr_conjuncts(nodes, what):
    """[`self.A == other.A`, …] -> [A, …]"""
    out = []
    for c in nodes:
        if not (isinstance(c, ast.Compare) and len(c.ops) == 1 and isinstance(c.ops[0], ast.Eq)
                and _is_attr(c.left, "self") and _is_attr(c.comparators[0], "other")
                and c.left.attr == c.comparators[0].attr):
            raise ExtractError(f"{what}: conjunct is not self.A == other.A: {ast.unparse(c)}")
        out.append(c.left.attr)
    if not out:
        raise ExtractError(f"{what}: compares no attribute")
    return out


def read_own_eq(fn, clsname):
    """-> (shape, eqAttrs, isinstance tested?, coerces?)"""
    what = f"{clsname}.__eq__"
    _args_are(fn, ["self", "other"], what)
    b = _body(fn)
    if len(b) == 1 and isinstance(b[0], ast.Return):
        v = b[0].value
        if not (isinstance(v, ast.BoolOp) and isinstance(v.op, ast.And) and len(v.values) >= 2
                and _is_isinstance(v.values[0], "other", clsname)):
            raise ExtractError(f"{what}: not `return isinstance(other, {clsname}) and …`")
        return "polynomial", _attr_conjuncts(v.values[1:], what), True, False
    if len(b) == 2 and isinstance(b[0], ast.If) and isinstance(b[1], ast.Return):
        t = b[0].test
        coerce = b[0].body
        ok = (isinstance(t, ast.UnaryOp) and isinstance(t.op, ast.Not)
              and _is_isinstance(t.operand, "other", clsname) and not b[0].orelse
              and len(coerce) == 1 and isinstance(coerce[0], ast.Assign)
              and ast.unparse(coerce[0]) == f"other = {clsname}(other)")
        if not ok:
            raise ExtractError(f"{what}: not `if not isinstance(other, {clsname}): other = {clsname}(other)`")
        v = b[1].value
        conj = v.values if isinstance(v, ast.BoolOp) and isinstance(v.op, ast.And) else [v]
        return "rational", _attr_conjuncts(conj, what), True, True
    raise ExtractError(f"{what}: unrecognised shape: {ast.unparse(fn)[:200]}")


def _tagged_tuple(node, what):
    """`hash((type(self).__name__, self.A, …))` -> [A, …]"""
    if not (isinstance(node, ast.Call) and isinstance(node.func, ast.Name) and node.func.id == "hash"
            and len(node.args) == 1 and isinstance(node.args[0], ast.Tuple) and node.args[0].elts
            and ast.unparse(node.args[0].elts[0]) == "type(self).__name__"):
        raise ExtractError(f"{what}: not hash((type(self).__name__, self.A, …))")
    return _self_tuple(ast.Tuple(elts=node.args[0].elts[1:], ctx=ast.Load()), what)


def read_own_hash(fn, clsname, shape):
    """-> (hashAttrs, unit attribute or None, unit value attribute or None)"""
    what = f"{clsname}.__hash__"
    _args_are(fn, ["self"], what)
    b = _body(fn)
    if shape == "polynomial":
        if not (len(b) == 1 and isinstance(b[0], ast.Return)):
            raise ExtractError(f"{what}: not a single return")
        return _tagged_tuple(b[0].value, what), None, None
    if not (len(b) == 2 and isinstance(b[0], ast.If) and isinstance(b[1], ast.Return)):
        raise ExtractError(f"{what}: not `if …: return …` followed by a return")
    t = b[0].test
    ok = (isinstance(t, ast.Compare) and len(t.ops) == 1 and isinstance(t.ops[0], ast.Eq)
          and _is_attr(t.left, "self") and isinstance(t.comparators[0], ast.Constant)
          and t.comparators[0].value == 1 and type(t.comparators[0].value) is int
          and not b[0].orelse and len(b[0].body) == 1 and isinstance(b[0].body[0], ast.Return))
    r = b[0].body[0].value if ok else None
    ok = ok and (isinstance(r, ast.Call) and isinstance(r.func, ast.Name) and r.func.id == "hash"
                 and len(r.args) == 1 and _is_attr(r.args[0], "self"))
    if not ok:
        raise ExtractError(f"{what}: not `if self.D == 1: return hash(self.N)`")
    return _tagged_tuple(b[1].value, what), t.left.attr, r.args[0].attr


def ne_is_not_eq(cls):
    """the effective `__ne__` is `return not self.__eq__(other)`"""
    d = definer(cls, "__ne__")
    if d is None or d is object:
        return False
    fn = _method_asts(d).get("__ne__")
    if fn is None:
        return False
    b = _body(fn)
    return len(b) == 1 and ast.unparse(b[0]) == "return not self.__eq__(other)"


_EXPECTED_INIT = {
    "rational": """
def __init__(self, numerator, denominator=1):
    d_unit = traits.traits(denominator).get_unit(denominator)
    numerator /= d_unit
    denominator /= d_unit
    self.Numerator = numerator
    self.Denominator = denominator
""",
    "polynomial": """
def __init__(self, base, data=None, unit=1, var_less=None):
    if var_less is None:
        var_less = LexicalMonomialOrder()

    self.Base = base
    self.Unit = unit
    self.VarLess = var_less

    if data is None:
        self.Data = ((1, unit),)
    else:
        self.Data = tuple(data)
""",
}

_EXPECTED_HELPERS = {
    # what the rational constructor relies on: the unit of an integer is its sign, floats have no
    # unit, non-numbers have no traits
    ("pymbolic.traits", "traits"): """
def traits(x):
    try:
        return x.traits()
    except AttributeError:
        if isinstance(x, (complex, float)):
            return FieldTraits()
        elif isinstance(x, int):
            return IntegerTraits()
        else:
            raise NoTraitsError from None
""",
    ("pymbolic.traits", "IntegerTraits.get_unit"): """
@staticmethod
def get_unit(x):
    if x < 0:
        return -1
    elif x > 0:
        return 1
    else:
        raise RuntimeError("0 does not have a prime factor decomposition")
""",
}


def _same_function(fn_ast, expected_src):
    want = ast.parse(expected_src.strip()).body[0]
    got = ast.FunctionDef(name=fn_ast.name, args=fn_ast.args, body=_body(fn_ast),
                          decorator_list=fn_ast.decorator_list, returns=None, type_comment=None,
                          type_params=[])
    want = ast.FunctionDef(name=want.name, args=want.args, body=_body(want),
                           decorator_list=want.decorator_list, returns=None, type_comment=None,
                           type_params=[])
    return ast.dump(got) == ast.dump(want)


def init_as_expected(cls, shape):
    fn = _method_asts(cls).get("__init__")
    if fn is None or not _same_function(fn, _EXPECTED_INIT[shape]):
        return False
    if shape == "rational":
        import importlib
        import inspect
        import textwrap
        for (modname, qual), src in _EXPECTED_HELPERS.items():
            o = importlib.import_module(modname)
            for part in qual.split("."):
                o = getattr(o, part)
            got = ast.parse(textwrap.dedent(inspect.getsource(o))).body[0]
            if not _same_function(got, src):
                return False
        ft = importlib.import_module("pymbolic.traits").FieldTraits
        if hasattr(ft, "get_unit"):
            return False
    return True


def own_info_for(cls):
    """record for a class that DEFINES a hand-written `__eq__`"""
    name = cls.__name__
    m = _method_asts(cls)
    for need in ("__eq__", "__hash__", "__getinitargs__"):
        if need not in m:
            raise ExtractError(f"{name}: defines __eq__ by hand but not {need} in the same class")
    shape, eq_attrs, isinst, coerces = read_own_eq(m["__eq__"], name)
    hash_attrs, unit_attr, unit_value = read_own_hash(m["__hash__"], name, shape)
    _args_are(m["__getinitargs__"], ["self"], f"{name}.__getinitargs__")
    init_attrs = read_last_return_tuple(m["__getinitargs__"], f"{name}.__getinitargs__")
    if len(_body(m["__getinitargs__"])) != 1:
        raise ExtractError(f"{name}.__getinitargs__: not a single return")
    return dict(name=name, shape=shape, initAttrs=init_attrs, eqAttrs=eq_attrs, eqIsinstance=isinst,
                eqCoerces=coerces, hashTagged=True, hashAttrs=hash_attrs, hashUnitAttr=unit_attr,
                hashUnitValue=unit_value, neIsNotEq=ne_is_not_eq(cls),
                initAsExpected=init_as_expected(cls, shape))


def own_table(classes):
    """records of the definers of hand-written `__eq__`, and consistency of the rest of the table
    with what the model assumes about `other / 1` (only the polynomial shape overrides division)"""
    from pymbolic.primitives import Expression
    definers = []
    for cls in classes:
        if hand_written(cls, "__eq__") or hand_written(cls, "__hash__"):
            de, dh = definer(cls, "__eq__"), definer(cls, "__hash__")
            if de is not dh:
                raise ExtractError(f"{cls.__name__}: __eq__ comes from {de.__name__}, __hash__ from "
                                   f"{dh.__name__}")
            if getattr(cls, "__getinitargs__", None) is not de.__dict__.get("__getinitargs__"):
                raise ExtractError(f"{cls.__name__}: __getinitargs__ is not the one of {de.__name__}")
            if de not in definers:
                definers.append(de)
    owns = [own_info_for(d) for d in definers]
    poly = tuple(d for d, o in zip(definers, owns) if o["shape"] == "polynomial")
    for cls in classes:
        if cls.__truediv__ is not Expression.__truediv__ and not issubclass(cls, poly or ()):
            raise ExtractError(f"{cls.__name__}: overrides __truediv__ (the model of Rational's "
                               f"coercion assumes `expr / 1 is expr`)")
    return owns

# }}}


def info_for(cls):
    from harness import c01_classes as C
    from pymbolic.primitives import Expression
    name = cls.__name__
    own = cls.__dict__
    base = C.decorated_base(cls)
    mm = getattr(cls, "mapper_method", None)
    own_eq = hand_written(cls, "__eq__")
    rec = dict(name=name, module=cls.__module__, base=base.__name__ if base else "",
               fields=[], eqFields=[], eqClassChecked=False, hashFields=[], hashInstalled=False,
               getstateFields=[], setstateFields=[], initArgNames=[], getinitargsFields=[],
               frozen=False, mapperMethod=mm if isinstance(mm, str) else None,
               hashable=cls.__hash__ is not None, ownEq=own_eq,
               ownHash=hand_written(cls, "__hash__"),
               ancestors=[c.__name__ for c in cls.__mro__[1:]
                          if isinstance(c, type) and issubclass(c, Expression) and c is not Expression],
               ownDefiner=definer(cls, "__eq__").__name__ if own_eq else "")
    if "_is_expr_dataclass" not in own:
        rec["kind"] = "sub" if base is not None else "legacy"
        rec["fields"] = list(C.field_names_of(cls))
        return rec
    rec["kind"] = "dataclass"
    rec["fields"] = [f.name for f in dataclasses.fields(cls)]
    params = own.get("__dataclass_params__")
    rec["frozen"] = bool(params is not None and params.frozen)
    rec["mapperMethod"] = own.get("mapper_method") if isinstance(own.get("mapper_method"), str) else None
    eq = own.get("__eq__")
    if eq is None or eq.__globals__.get("cls") is not cls or "_MODULE_SOURCE_CODE" not in eq.__globals__:
        raise ExtractError(f"{name}: __eq__ is not the generated method of this class")
    src = eq.__globals__["_MODULE_SOURCE_CODE"]
    mod = ast.parse(src)
    fns = {n.name: n for n in mod.body if isinstance(n, ast.FunctionDef)}

    def fn(suffix):
        f = fns.get(f"{name}_{suffix}")
        if f is None:
            raise ExtractError(f"{name}: generated source has no {name}_{suffix}")
        return f

    def installed(attr, suffix, via=None):
        v = own.get(attr)
        if via is not None and v is not None:
            v = via(v)
        return v is not None and getattr(v, "__name__", None) == f"{name}_{suffix}" \
            and v.__globals__.get("cls") is cls

    if not installed("__eq__", "eq"):
        raise ExtractError(f"{name}: generated __eq__ not installed")
    rec["ownEq"] = False
    rec["eqFields"], rec["eqClassChecked"] = read_eq(fn("eq"))
    rec["hashFields"] = read_hash(fn("hash"))
    rec["hashInstalled"] = installed("__hash__", "hash")
    rec["ownHash"] = hand_written(cls, "__hash__")
    if read_guard(fn("eq"), "__eq__") != read_guard(fn("hash"), "__hash__"):
        raise ExtractError(f"{name}: __eq__ and __hash__ guard the legacy branch differently")
    rec["getstateFields"] = read_last_return_tuple(fn("getstate"), "__getstate__")
    rec["setstateFields"] = read_setstate(fn("setstate"))
    rec["initArgNames"] = read_last_return_tuple(fn("init_arg_names"), "init_arg_names", const=True)
    if rec["initArgNames"] != read_guard(fn("eq"), "__eq__"):
        raise ExtractError(f"{name}: init_arg_names differs from the legacy-branch guard")
    rec["getinitargsFields"] = read_last_return_tuple(fn("getinitargs"), "__getinitargs__")
    for attr, suffix, via in (("__getstate__", "getstate", None), ("__setstate__", "setstate", None),
                              ("__getinitargs__", "getinitargs", None),
                              ("init_arg_names", "init_arg_names", lambda v: getattr(v, "fget", None))):
        if not installed(attr, suffix, via):
            raise ExtractError(f"{name}: generated {attr} not installed")
    return rec


def read_frozen_source():
    """the `frozen=` keyword of the `dataclass(…)` call inside `expr_dataclass`:
    'debugFlag' (`__debug__`), 'always' (`True`), 'never' (`False` / absent)"""
    import inspect
    import textwrap

    import pymbolic.primitives as prim
    fn = ast.parse(textwrap.dedent(inspect.getsource(prim.expr_dataclass))).body[0]
    calls = [n for n in ast.walk(fn)
             if isinstance(n, ast.Call) and isinstance(n.func, ast.Name) and n.func.id == "dataclass"]
    if len(calls) != 1:
        raise ExtractError(f"expr_dataclass: expected one dataclass(…) call, found {len(calls)}")
    kw = {k.arg: k.value for k in calls[0].keywords}
    v = kw.get("frozen")
    if v is None:
        return "never"
    if isinstance(v, ast.Name) and v.id == "__debug__":
        return "debugFlag"
    if isinstance(v, ast.Constant) and v.value is True:
        return "always"
    if isinstance(v, ast.Constant) and v.value is False:
        return "never"
    raise ExtractError(f"expr_dataclass: frozen={ast.unparse(v)} is none of __debug__ / True / False")


def q(s):
    return '"' + s.replace("\\", "\\\\").replace('"', '\\"') + '"'


def lean_list(xs):
    return "[" + ", ".join(q(x) for x in xs) + "]"


def lean_bool(b):
    return "true" if b else "false"


def to_lean(rec):
    mm = "none" if rec["mapperMethod"] is None else f"some {q(rec['mapperMethod'])}"
    return ("  { name := %s, module := %s, kind := .%s, base := %s,\n"
            "    fields := %s, eqFields := %s, eqClassChecked := %s,\n"
            "    hashFields := %s, hashInstalled := %s,\n"
            "    getstateFields := %s, setstateFields := %s,\n"
            "    initArgNames := %s, getinitargsFields := %s,\n"
            "    frozen := %s, mapperMethod := %s, hashable := %s, ownEq := %s, ownHash := %s,\n"
            "    ancestors := %s, ownDefiner := %s }") % (
        q(rec["name"]), q(rec["module"]), rec["kind"], q(rec["base"]),
        lean_list(rec["fields"]), lean_list(rec["eqFields"]), lean_bool(rec["eqClassChecked"]),
        lean_list(rec["hashFields"]), lean_bool(rec["hashInstalled"]),
        lean_list(rec["getstateFields"]), lean_list(rec["setstateFields"]),
        lean_list(rec["initArgNames"]), lean_list(rec["getinitargsFields"]),
        lean_bool(rec["frozen"]), mm, lean_bool(rec["hashable"]), lean_bool(rec["ownEq"]),
        lean_bool(rec["ownHash"]), lean_list(rec["ancestors"]), q(rec["ownDefiner"]))


def lean_opt(s):
    return "none" if s is None else f"some {q(s)}"


def own_to_lean(o):
    return ("  { name := %s, shape := .%s, initAttrs := %s,\n"
            "    eqAttrs := %s, eqIsinstance := %s, eqCoerces := %s,\n"
            "    hashTagged := %s, hashAttrs := %s, hashUnitAttr := %s, hashUnitValue := %s,\n"
            "    neIsNotEq := %s, initAsExpected := %s }") % (
        q(o["name"]), o["shape"], lean_list(o["initAttrs"]), lean_list(o["eqAttrs"]),
        lean_bool(o["eqIsinstance"]), lean_bool(o["eqCoerces"]), lean_bool(o["hashTagged"]),
        lean_list(o["hashAttrs"]), lean_opt(o["hashUnitAttr"]), lean_opt(o["hashUnitValue"]),
        lean_bool(o["neIsNotEq"]), lean_bool(o["initAsExpected"]))


def class_table():
    from harness import c01_classes as C
    return [info_for(c) for c in C.all_expression_classes()]


def extract_classes(ctx=None):
    from harness import c01_classes as C
    recs = class_table()
    owns = own_table(C.all_expression_classes())
    frozen_src = read_frozen_source()
    text = ("import PV.Model.Classes\n"
            "/- GENERATED by extract/classes.py from the live classes of /repo — do not edit. -/\n"
            "namespace PV.Generated\n\n"
            "def classes : ClassTable := [\n" + ",\n".join(to_lean(r) for r in recs) + "\n]\n\n"
            "/-- what the SOURCE of the hand-written `__eq__` / `__hash__` / `__ne__` / `__init__` of the\n"
            "legacy number-like classes says (read with `ast`) -/\n"
            "def c01OwnEqs : List C01OwnEqInfo := [\n" + ",\n".join(own_to_lean(o) for o in owns) + "\n]\n\n"
            "/-- the `frozen=` keyword of the `dataclass(…)` call in `expr_dataclass` -/\n"
            f"def c01FrozenSource : C01FrozenSource := .{frozen_src}\n\n"
            "end PV.Generated\n")
    write_if_changed(os.path.join(LEAN, "PV", "Generated", "Classes.lean"), text)
    return recs


if __name__ == "__main__":
    from harness import c01_classes as _C
    for o in own_table(_C.all_expression_classes()):
        print("own", o)
    for r in extract_classes():
        print(r["module"], r["name"], r["kind"], r["fields"], r["eqFields"], r["hashFields"],
              r["frozen"], r["mapperMethod"], r["hashable"], r["ownEq"], r["ownHash"])
