"""T-gen for C04: regenerate lean/PV/Generated/Traversal.lean from the LIVE source of the stock
traversal mappers of the working tree of /repo (pymbolic/mapper/__init__.py).

For every `map_*` attribute of `WalkMapper`, `IdentityMapper` and `CombineMapper` (inherited
`Mapper` stubs included, aliases such as `map_product = map_sum` resolved through the function
object the attribute is bound to) the source text of the function is parsed with `ast` and reduced
to a `C04Handler` record (lean/PV/Model/TravTable.lean):

  * the ordered recursion sites `self.rec(<child of expr.F>, *args, **kwargs)` — which field, how
    its children are enumerated, whether `*args, **kwargs` are passed on;
  * WalkMapper: whether `self.visit(expr, …)` is called first (plainly, or as the guard
    `if not self.visit(…): return`) and `self.post_visit(expr, …)` last;
  * CombineMapper: whether the results go through `self.combine`;
  * IdentityMapper: the fields compared in the `… is expr.F … : return expr` test, the
    `is_zero(result) → 0` quirk, and the positional constructor arguments (rebuilt / copied field).

Also: the node classes of pymbolic.primitives (class name, `mapper_method` along the MRO, dataclass
fields in constructor order) and the leaf handlers `Collector` defines.

What is recorded is what the source SAYS.  A statement / expression shape this reader does not
know is an `ExtractError` (reported by the check as a broken obligation) — never a default.
"""
from __future__ import annotations

import ast
import dataclasses
import inspect
import os
import re
import textwrap

from harness.leanio import LEAN

from .classes import ExtractError
from .prec import write_if_changed

MAPPERS = ("WalkMapper", "IdentityMapper", "CombineMapper", "CallbackMapper")


# {{{ small AST predicates

def _name(n, ident=None):
    return isinstance(n, ast.Name) and (ident is None or n.id == ident)


def _self_call(n, meth=None):
    """`self.<meth>(…)` -> the Call node's method name, else None"""
    if (isinstance(n, ast.Call) and isinstance(n.func, ast.Attribute) and _name(n.func.value, "self")
            and (meth is None or n.func.attr == meth)):
        return n.func.attr
    return None


def _fwd(call: ast.Call, what, npos=1):
    """the call has exactly `npos` plain positional arguments; returns whether `*args` and
    `**kwargs` (and nothing else) follow"""
    pos = [a for a in call.args if not isinstance(a, ast.Starred)]
    star = [a for a in call.args if isinstance(a, ast.Starred)]
    if len(pos) != npos or call.args[:npos] != pos:
        raise ExtractError(f"{what}: expected {npos} leading positional argument(s): {ast.unparse(call)}")
    named = [k for k in call.keywords if k.arg is not None]
    dstar = [k for k in call.keywords if k.arg is None]
    if named:
        raise ExtractError(f"{what}: unexpected keyword argument in {ast.unparse(call)}")
    for s in star:
        if not _name(s.value, "args"):
            raise ExtractError(f"{what}: starred argument is not *args in {ast.unparse(call)}")
    for k in dstar:
        if not _name(k.value, "kwargs"):
            raise ExtractError(f"{what}: double-starred argument is not **kwargs in {ast.unparse(call)}")
    if len(star) > 1 or len(dstar) > 1:
        raise ExtractError(f"{what}: repeated *args / **kwargs in {ast.unparse(call)}")
    return len(star) == 1 and len(dstar) == 1


def _expr_field(n):
    """`expr.F` -> F ; `expr` -> "" ; else None"""
    if isinstance(n, ast.Attribute) and _name(n.value, "expr"):
        return n.attr
    if _name(n, "expr"):
        return ""
    return None


def _is_none(n):
    return isinstance(n, ast.Constant) and n.value is None


def _check_signature(fn: ast.FunctionDef, what):
    a = fn.args
    ok = ([x.arg for x in a.args] == ["self", "expr"] and a.vararg is not None
          and a.vararg.arg == "args" and a.kwarg is not None and a.kwarg.arg == "kwargs"
          and not a.kwonlyargs and not a.posonlyargs and not a.defaults)
    if not ok:
        raise ExtractError(f"{what}: signature is not (self, expr, *args, **kwargs)")


def _body(fn: ast.FunctionDef):
    """statements without docstring, imports and `pass`"""
    out = []
    for i, s in enumerate(fn.body):
        if (i == 0 and isinstance(s, ast.Expr) and isinstance(s.value, ast.Constant)
                and isinstance(s.value.value, str)):
            continue
        if isinstance(s, (ast.Import, ast.ImportFrom)):
            continue
        out.append(s)
    return out

# }}}


# {{{ recursion sites

def _iter_of(it, target, what):
    """the iterable of a loop / comprehension -> (field, iter kind, name bound to the child)"""
    # for child in expr.F  /  for child in expr
    f = _expr_field(it)
    if f is not None:
        if isinstance(target, ast.Name):
            if f == "flat":
                return "", "ndindex", target.id
            return f, "each", target.id
        if (isinstance(target, ast.Tuple) and len(target.elts) == 2
                and all(isinstance(t, ast.Name) for t in target.elts)):
            return f, "eachSecond", target.elts[1].id
        raise ExtractError(f"{what}: unreadable loop target {ast.unparse(target)}")
    # list(X) wrapper
    if isinstance(it, ast.Call) and _name(it.func, "list") and len(it.args) == 1 and not it.keywords:
        return _iter_of(it.args[0], target, what)
    # expr.F.values() / expr.F.items()
    if (isinstance(it, ast.Call) and isinstance(it.func, ast.Attribute) and not it.args
            and not it.keywords):
        f = _expr_field(it.func.value)
        if f:
            if it.func.attr == "values" and isinstance(target, ast.Name):
                return f, "eachValue", target.id
            if (it.func.attr == "items" and isinstance(target, ast.Tuple) and len(target.elts) == 2
                    and all(isinstance(t, ast.Name) for t in target.elts)):
                return f, "eachValue", target.elts[1].id
    # numpy.ndindex(expr.shape)
    if (isinstance(it, ast.Call) and ast.unparse(it.func) == "numpy.ndindex" and len(it.args) == 1
            and _expr_field(it.args[0]) == "shape" and isinstance(target, ast.Name)):
        return "", "ndindex", "expr[" + target.id + "]"
    raise ExtractError(f"{what}: unreadable iterable {ast.unparse(it)}")


def _rec_call(n, what):
    """`self.rec(X, *args, **kwargs)` -> (X, fwd) else None"""
    if _self_call(n, "rec"):
        return n.args[0] if n.args else None, _fwd(n, what)
    if _self_call(n, "__call__") or (isinstance(n, ast.Call) and _name(n.func, "self")):
        raise ExtractError(f"{what}: recursion not through self.rec: {ast.unparse(n)}")
    return None


def _rec_of_bound(n, bound, what):
    """n must be `self.rec(<bound name>, …)`; returns fwd"""
    rc = _rec_call(n, what)
    if rc is None:
        raise ExtractError(f"{what}: expected self.rec(…), got {ast.unparse(n)}")
    x, fwd = rc
    if x is None or ast.unparse(x) != bound:
        raise ExtractError(f"{what}: self.rec is applied to {ast.unparse(x) if x else '?'}, "
                           f"not to the loop variable {bound}")
    return fwd


def _site_direct(n, what):
    """`self.rec(expr.F, …)` -> Rec"""
    rc = _rec_call(n, what)
    if rc is None:
        return None
    x, fwd = rc
    f = _expr_field(x) if x is not None else None
    if not f:
        raise ExtractError(f"{what}: self.rec is applied to {ast.unparse(x) if x else '?'}, not to a field of expr")
    return dict(field=f, iter="one", fwd=fwd)


def _site_comprehension(n, what):
    """`[self.rec(c, …) for c in ITER]` (list / generator) -> Rec ; also the slice form
    `None if c is None else self.rec(c, …)` and the filter `if c is not None`"""
    if not isinstance(n, (ast.ListComp, ast.GeneratorExp)) or len(n.generators) != 1:
        return None
    g = n.generators[0]
    if g.is_async:
        raise ExtractError(f"{what}: async comprehension")
    f, kind, bound = _iter_of(g.iter, g.target, what)
    elt = n.elt
    not_none = False
    if (isinstance(elt, ast.IfExp) and isinstance(elt.test, ast.Compare) and len(elt.test.ops) == 1
            and isinstance(elt.test.ops[0], ast.Is) and ast.unparse(elt.test.left) == bound
            and _is_none(elt.test.comparators[0]) and _is_none(elt.body)):
        not_none, elt = True, elt.orelse
    for c in g.ifs:
        if (isinstance(c, ast.Compare) and len(c.ops) == 1 and isinstance(c.ops[0], ast.IsNot)
                and ast.unparse(c.left) == bound and _is_none(c.comparators[0])):
            not_none = True
        else:
            raise ExtractError(f"{what}: unreadable comprehension filter {ast.unparse(c)}")
    pair_first = None
    if isinstance(elt, ast.Tuple) and len(elt.elts) == 2 and kind == "eachSecond":
        # polynomial data: (exp, self.rec(coeff, …))
        pair_first, elt = elt.elts[0], elt.elts[1]
        if not (isinstance(g.target, ast.Tuple) and ast.unparse(pair_first) == ast.unparse(g.target.elts[0])):
            raise ExtractError(f"{what}: pair comprehension does not keep its first component")
    fwd = _rec_of_bound(elt, bound, what)
    if not_none:
        if kind != "each":
            raise ExtractError(f"{what}: None filter on a {kind} iteration")
        kind = "eachNotNone"
    return dict(field=f, iter=kind, fwd=fwd)


def _site_loop(s, what):
    """`for c in ITER: self.rec(c, …)` (optionally under `if c is not None:`) -> Rec"""
    if not isinstance(s, ast.For) or s.orelse:
        return None
    f, kind, bound = _iter_of(s.iter, s.target, what)
    body = s.body
    if (len(body) == 1 and isinstance(body[0], ast.If) and not body[0].orelse
            and isinstance(body[0].test, ast.Compare) and len(body[0].test.ops) == 1
            and isinstance(body[0].test.ops[0], ast.IsNot)
            and ast.unparse(body[0].test.left) == bound and _is_none(body[0].test.comparators[0])):
        if kind != "each":
            raise ExtractError(f"{what}: None filter on a {kind} iteration")
        kind, body = "eachNotNone", body[0].body
    if len(body) != 1 or not isinstance(body[0], ast.Expr):
        raise ExtractError(f"{what}: loop body is not a single self.rec(…) call")
    fwd = _rec_of_bound(body[0].value, bound, what)
    return dict(field=f, iter=kind, fwd=fwd)

# }}}


# {{{ handler readers

def read_stub(fn, what):
    """Mapper base stubs: `raise NotImplementedError` / `return self.map_x(expr, *args, **kwargs)`"""
    body = _body(fn)
    if len(body) != 1:
        return None
    s = body[0]
    if isinstance(s, ast.Raise) and s.exc is not None and s.cause is None:
        e = s.exc.func if isinstance(s.exc, ast.Call) else s.exc
        if _name(e, "NotImplementedError"):
            return dict(kind="raises")
        return None
    if isinstance(s, ast.Return) and s.value is not None:
        m = _self_call(s.value)
        if m and m.startswith("map_"):
            if not (s.value.args and _name(s.value.args[0], "expr")):
                raise ExtractError(f"{what}: delegation does not pass expr")
            return dict(kind="delegate", to=m, fwd=_fwd(s.value, what))
    return None


def read_walk(fn, what):
    body = _body(fn)
    visit, vfwd, post, pfwd = "absent", False, False, False
    if body:
        s = body[0]
        if isinstance(s, ast.Expr) and _self_call(s.value, "visit"):
            call = s.value
            visit = "plain"
        elif (isinstance(s, ast.If) and not s.orelse and isinstance(s.test, ast.UnaryOp)
              and isinstance(s.test.op, ast.Not) and _self_call(s.test.operand, "visit")
              and len(s.body) == 1 and isinstance(s.body[0], ast.Return) and s.body[0].value is None):
            call = s.test.operand
            visit = "guard"
        if visit != "absent":
            if not (call.args and _name(call.args[0], "expr")):
                raise ExtractError(f"{what}: visit is not applied to expr")
            vfwd = _fwd(call, what)
            body = body[1:]
    if body and isinstance(body[-1], ast.Expr) and _self_call(body[-1].value, "post_visit"):
        call = body[-1].value
        if not (call.args and _name(call.args[0], "expr")):
            raise ExtractError(f"{what}: post_visit is not applied to expr")
        post, pfwd = True, _fwd(call, what)
        body = body[:-1]
    recs = []
    for s in body:
        r = None
        if isinstance(s, ast.Expr):
            r = _site_direct(s.value, what)
        if r is None:
            r = _site_loop(s, what)
        if r is None:
            raise ExtractError(f"{what}: unreadable statement `{ast.unparse(s).splitlines()[0]}`")
        recs.append(r)
    n_visit = sum(1 for n in ast.walk(fn) if _self_call(n, "visit"))
    n_post = sum(1 for n in ast.walk(fn) if _self_call(n, "post_visit"))
    if n_visit != (visit != "absent") or n_post != post:
        raise ExtractError(f"{what}: visit / post_visit called at an unexpected place")
    return dict(kind="walk", visit=visit, visitFwd=vfwd, recs=recs, post=post, postFwd=pfwd)


def read_combine(fn, what):
    body = _body(fn)
    if len(body) != 1 or not isinstance(body[0], ast.Return) or body[0].value is None:
        raise ExtractError(f"{what}: body is not a single return")
    v = body[0].value
    r = _site_direct(v, what)
    if r is not None:
        return dict(kind="fold", viaCombine=False, recs=[r])
    if not (_self_call(v, "combine") and len(v.args) == 1 and not v.keywords):
        raise ExtractError(f"{what}: return value is neither self.rec(…) nor self.combine(<one argument>)")
    arg = v.args[0]
    r = _site_comprehension(arg, what)
    if r is not None:
        return dict(kind="fold", viaCombine=True, recs=[r])
    if not isinstance(arg, (ast.Tuple, ast.List)):
        raise ExtractError(f"{what}: unreadable argument of self.combine: {ast.unparse(arg)[:60]}")
    recs = []
    for e in arg.elts:
        if isinstance(e, ast.Starred):
            r = _site_comprehension(e.value, what)
        else:
            r = _site_direct(e, what)
        if r is None:
            raise ExtractError(f"{what}: unreadable element of the combine argument: {ast.unparse(e)[:60]}")
        recs.append(r)
    return dict(kind="fold", viaCombine=True, recs=recs)


def _same_atom(c, var_field, what):
    """one conjunct of the `return expr` test -> the field it compares"""
    # NAME is expr.F
    if (isinstance(c, ast.Compare) and len(c.ops) == 1 and isinstance(c.ops[0], ast.Is)
            and isinstance(c.left, ast.Name)):
        f = _expr_field(c.comparators[0])
        if f and var_field.get(c.left.id) == (f, "one"):
            return f
        raise ExtractError(f"{what}: `{ast.unparse(c)}` does not compare a mapped field with its original")
    # all(<a> is <b> for a, b in zip(X, Y))
    if (isinstance(c, ast.Call) and _name(c.func, "all") and len(c.args) == 1
            and isinstance(c.args[0], ast.GeneratorExp) and len(c.args[0].generators) == 1):
        ge = c.args[0]
        g = ge.generators[0]
        if g.ifs or not (isinstance(ge.elt, ast.Compare) and len(ge.elt.ops) == 1
                         and isinstance(ge.elt.ops[0], ast.Is)):
            raise ExtractError(f"{what}: unreadable element test `{ast.unparse(ge.elt)}`")
        le, ri = ast.unparse(ge.elt.left), ast.unparse(ge.elt.comparators[0])
        it = g.iter
        if (isinstance(it, ast.Call) and _name(it.func, "zip") and len(it.args) == 2
                and isinstance(g.target, ast.Tuple) and len(g.target.elts) == 2):
            t0, t1 = (ast.unparse(t) for t in g.target.elts)
            if {le, ri} == {t0, t1}:
                pass
            elif {le, ri} == {t0 + "[1]", t1 + "[1]"}:       # polynomial data pairs
                pass
            else:
                raise ExtractError(f"{what}: `{ast.unparse(c)}` does not compare the zipped elements")
            x, y = it.args
            for a, b in ((x, y), (y, x)):
                f = _expr_field(b)
                if isinstance(a, ast.Name) and f is not None and a.id in var_field \
                        and var_field[a.id][0] == f and var_field[a.id][1] != "one":
                    return f
            raise ExtractError(f"{what}: `{ast.unparse(c)}` does not zip a mapped field with its original")
        # all(NAME[k] is v for k, v in expr.F.items())
        if (isinstance(it, ast.Call) and isinstance(it.func, ast.Attribute) and it.func.attr == "items"
                and isinstance(g.target, ast.Tuple) and len(g.target.elts) == 2):
            f = _expr_field(it.func.value)
            k, v = (ast.unparse(t) for t in g.target.elts)
            for name, (vf, kind) in var_field.items():
                if vf == f and kind == "eachValue" and {le, ri} == {f"{name}[{k}]", v}:
                    return f
        raise ExtractError(f"{what}: unreadable test `{ast.unparse(c)}`")
    raise ExtractError(f"{what}: unreadable test `{ast.unparse(c)}`")


def _assigned_site(value, what):
    """right-hand side of `NAME = …` -> Rec"""
    r = _site_direct(value, what)
    if r is not None:
        return r
    v = value
    # tuple([...]) / immutabledict({...})
    if isinstance(v, ast.Call) and _name(v.func, "tuple") and len(v.args) == 1 and not v.keywords:
        v = v.args[0]
    r = _site_comprehension(v, what)
    if r is not None:
        return r
    if (isinstance(v, ast.Call) and _name(v.func, "immutabledict") and len(v.args) == 1
            and isinstance(v.args[0], ast.DictComp) and len(v.args[0].generators) == 1):
        dc = v.args[0]
        g = dc.generators[0]
        f, kind, bound = _iter_of(g.iter, g.target, what)
        if g.ifs or kind != "eachValue" or ast.unparse(dc.key) != ast.unparse(g.target.elts[0]):
            raise ExtractError(f"{what}: unreadable dict comprehension")
        return dict(field=f, iter="eachValue", fwd=_rec_of_bound(dc.value, bound, what))
    return None


def read_identity(fn, what):
    body = _body(fn)
    if len(body) == 1 and isinstance(body[0], ast.Return) and _name(body[0].value, "expr"):
        return dict(kind="same")
    # map_list: return [self.rec(child, …) for child in expr]
    if len(body) == 1 and isinstance(body[0], ast.Return) and isinstance(body[0].value, ast.ListComp):
        r = _site_comprehension(body[0].value, what)
        if r is None or r["field"] != "" or r["iter"] != "each":
            raise ExtractError(f"{what}: unreadable list result")
        return dict(kind="rebuild", recs=[r], sameTest=False, checked=[], zeroCollapse=False,
                    ctor=dict(kind="pyList"))
    # map_multivector: return expr.map(lambda ch: self.rec(ch, …))
    if (len(body) == 1 and isinstance(body[0], ast.Return) and isinstance(body[0].value, ast.Call)
            and ast.unparse(body[0].value.func) == "expr.map" and len(body[0].value.args) == 1
            and isinstance(body[0].value.args[0], ast.Lambda)):
        lam = body[0].value.args[0]
        if len(lam.args.args) != 1:
            raise ExtractError(f"{what}: unreadable lambda")
        fwd = _rec_of_bound(lam.body, lam.args.args[0].arg, what)
        return dict(kind="rebuild", recs=[dict(field="", iter="viaMap", fwd=fwd)], sameTest=False,
                    checked=[], zeroCollapse=False, ctor=dict(kind="container"))
    # map_numpy_array: result = numpy.empty(…); for i in ndindex: result[i] = rec(expr[i]); return result
    if (len(body) == 3 and isinstance(body[0], ast.Assign) and isinstance(body[1], ast.For)
            and isinstance(body[2], ast.Return) and _name(body[2].value)
            and ast.unparse(body[0].value).startswith("numpy.empty(")):
        res = body[2].value.id
        loop = body[1]
        f, kind, bound = _iter_of(loop.iter, loop.target, what)
        st = loop.body
        if not (kind == "ndindex" and len(st) == 1 and isinstance(st[0], ast.Assign)
                and len(st[0].targets) == 1
                and ast.unparse(st[0].targets[0]) == f"{res}[{ast.unparse(loop.target)}]"):
            raise ExtractError(f"{what}: unreadable array fill loop")
        fwd = _rec_of_bound(st[0].value, bound, what)
        return dict(kind="rebuild", recs=[dict(field="", iter="ndindex", fwd=fwd)], sameTest=False,
                    checked=[], zeroCollapse=False, ctor=dict(kind="container"))

    recs, var_field = [], {}
    i = 0
    while i < len(body) and isinstance(body[i], ast.Assign):
        s = body[i]
        if len(s.targets) != 1 or not isinstance(s.targets[0], ast.Name):
            raise ExtractError(f"{what}: unreadable assignment `{ast.unparse(s)[:60]}`")
        r = _assigned_site(s.value, what)
        if r is None:
            raise ExtractError(f"{what}: unreadable right-hand side `{ast.unparse(s.value)[:60]}`")
        if s.targets[0].id in var_field or any(r["field"] == x["field"] for x in recs):
            raise ExtractError(f"{what}: field or variable mapped twice")
        var_field[s.targets[0].id] = (r["field"], r["iter"])
        recs.append(r)
        i += 1
    rest = body[i:]
    zero = False
    if (rest and isinstance(rest[0], ast.If) and not rest[0].orelse and isinstance(rest[0].test, ast.Call)
            and _name(rest[0].test.func, "is_zero")):
        t = rest[0]
        ok = (len(t.test.args) == 1 and _name(t.test.args[0]) and t.test.args[0].id in var_field
              and len(recs) == 1 and recs[0]["iter"] == "one"
              and len(t.body) == 1 and isinstance(t.body[0], ast.Return)
              and isinstance(t.body[0].value, ast.Constant) and t.body[0].value.value == 0
              and type(t.body[0].value.value) is int)
        if not ok:
            raise ExtractError(f"{what}: unreadable is_zero branch")
        zero, rest = True, rest[1:]
    same_test, checked = False, []
    if rest and isinstance(rest[0], ast.If):
        t = rest[0]
        if t.orelse or len(t.body) != 1 or not (isinstance(t.body[0], ast.Return)
                                               and _name(t.body[0].value, "expr")):
            raise ExtractError(f"{what}: the test before the rebuild does not `return expr`")
        conj = t.test.values if isinstance(t.test, ast.BoolOp) and isinstance(t.test.op, ast.And) \
            else [t.test]
        checked = [_same_atom(c, var_field, what) for c in conj]
        same_test, rest = True, rest[1:]
    if len(rest) != 1 or not isinstance(rest[0], ast.Return) or not isinstance(rest[0].value, ast.Call):
        raise ExtractError(f"{what}: no final constructor call"
                           + (f" (found `{ast.unparse(rest[0])[:60]}`)" if rest else ""))
    call = rest[0].value
    fsrc = ast.unparse(call.func)
    if fsrc == "tuple" and len(call.args) == 1 and _name(call.args[0]) \
            and var_field.get(call.args[0].id, ("?",))[0] == "" and not call.keywords:
        ctor = dict(kind="pyTuple")
    elif fsrc in ("type(expr)", "expr.__class__"):
        args = []
        for a in call.args:
            inner = a
            if isinstance(a, ast.Call) and _name(a.func, "tuple") and len(a.args) == 1 and not a.keywords:
                inner = a.args[0]
            if _name(inner) and inner.id in var_field:
                args.append(("rebuilt", var_field[inner.id][0]))
            elif inner is a and _expr_field(a):
                args.append(("copied", _expr_field(a)))
            else:
                raise ExtractError(f"{what}: unreadable constructor argument `{ast.unparse(a)}`")
        extra = False
        for k in call.keywords:
            if k.arg is None and ast.unparse(k.value) == "expr.get_extra_properties()":
                extra = True
            else:
                raise ExtractError(f"{what}: unreadable constructor keyword `{ast.unparse(k)}`")
        ctor = dict(kind="sameClass", args=args, extraProps=extra)
    else:
        raise ExtractError(f"{what}: result is not built by type(expr)(…) / expr.__class__(…): {fsrc}")
    return dict(kind="rebuild", recs=recs, sameTest=same_test, checked=checked, zeroCollapse=zero,
                ctor=ctor)

def read_callback(fn, what):
    """CallbackMapper: `return self.function(expr, self, *args, **kwargs)`"""
    body = _body(fn)
    if len(body) != 1 or not isinstance(body[0], ast.Return) or body[0].value is None:
        raise ExtractError(f"{what}: body is not a single return")
    v = body[0].value
    if not (_self_call(v, "function") and len(v.args) >= 2 and _name(v.args[0], "expr")
            and _name(v.args[1], "self")):
        raise ExtractError(f"{what}: not `self.function(expr, self, …)`: {ast.unparse(v)[:60]}")
    return dict(kind="callback", fwd=_fwd(v, what, npos=2))


def callback_redirects_rec():
    """`CallbackMapper.__init__` must store `function`, `fallback_mapper` and point the fallback
    mapper's `rec` back at itself (`fallback_mapper.rec = self.rec`); returns whether it does"""
    import pymbolic.mapper as pm
    node = _fn_ast(pm.CallbackMapper.__dict__["__init__"], "CallbackMapper.__init__")
    if [a.arg for a in node.args.args] != ["self", "function", "fallback_mapper"]:
        raise ExtractError("CallbackMapper.__init__: signature is not (self, function, fallback_mapper)")
    seen = set()
    for st in _body(node):
        src = ast.unparse(st)
        if src in ("self.function = function", "self.fallback_mapper = fallback_mapper",
                   "fallback_mapper.rec = self.rec"):
            seen.add(src)
        else:
            raise ExtractError(f"CallbackMapper.__init__: unreadable statement `{src[:60]}`")
    if not {"self.function = function", "self.fallback_mapper = fallback_mapper"} <= seen:
        raise ExtractError("CallbackMapper.__init__: function / fallback_mapper not stored")
    return "fallback_mapper.rec = self.rec" in seen

# }}}


# {{{ tables

def _fn_ast(fn, what):
    try:
        src = textwrap.dedent(inspect.getsource(fn))
    except (OSError, TypeError) as e:
        raise ExtractError(f"{what}: no source ({e})")
    mod = ast.parse(src)
    if len(mod.body) != 1 or not isinstance(mod.body[0], ast.FunctionDef):
        raise ExtractError(f"{what}: source is not a single function definition")
    return mod.body[0]


def _defining_class(cls, name):
    for c in cls.__mro__:
        if name in c.__dict__:
            return c
    raise ExtractError(f"{cls.__name__}.{name}: not found along the MRO")


def handler_table(cls, reader):
    """one record per `map_*` attribute of `cls` (map_foreign is the dispatch model's)"""
    import pymbolic.mapper as pm
    recs = []
    names = sorted(n for n in dir(cls) if n.startswith("map_") and n != "map_foreign")
    for name in names:
        owner = _defining_class(cls, name)
        fn = owner.__dict__[name]
        what = f"{cls.__name__}.{name}"
        if not inspect.isfunction(fn):
            raise ExtractError(f"{what}: not a plain function ({type(fn).__name__})")
        if fn.__module__ != pm.__name__:
            raise ExtractError(f"{what}: defined outside pymbolic.mapper ({fn.__module__})")
        node = _fn_ast(fn, what)
        _check_signature(node, what)
        # the two stub shapes are unambiguous wherever they occur; anything else is read as a
        # handler of the mapper's own kind
        body = read_stub(node, what)
        if body is None:
            if owner is pm.Mapper:
                raise ExtractError(f"{what}: unreadable Mapper stub")
            body = reader(node, what)
        recs.append(dict(name=name, definedIn=owner.__name__, impl=fn.__name__, body=body))
    return recs


_TUPLE_OF_EXPR = re.compile(r"tuple\[(\(\)|ExpressionT(, (ExpressionT|\.\.\.))*)\]")


def field_kind(cls, f):
    """what the DECLARED type of a dataclass field says it holds: one expression, a tuple of
    expressions, a mapping to expressions, or no expression at all"""
    t = f.type if isinstance(f.type, str) else getattr(f.type, "__name__", repr(f.type))
    t = t.strip()
    if "ExpressionT" not in t:
        return "data"
    if t == "ExpressionT":
        return "one"
    if t == "Mapping[str, ExpressionT]":
        return "dict"
    alts = [a.strip() for a in t.split("|")]
    if all(_TUPLE_OF_EXPR.fullmatch(a) for a in alts):
        return "many"
    raise ExtractError(f"{cls.__name__}.{f.name}: unreadable field type {t!r}")


def node_classes():
    import pymbolic.primitives as p

    def subs(c):
        for s in c.__subclasses__():
            yield s
            yield from subs(s)
    out, seen = [], set()
    for c in subs(p.Expression):
        if c in seen or c.__module__ != p.__name__:
            continue
        seen.add(c)
        if not dataclasses.is_dataclass(c):
            raise ExtractError(f"node class {c.__name__} is not a dataclass")
        mro = []
        for k in c.__mro__:
            if k is object:
                continue
            m = getattr(k, "mapper_method", None)
            if m is not None and not isinstance(m, str):
                raise ExtractError(f"{k.__name__}.mapper_method is not a string")
            mro.append(m)
        # constructor order = field order: every field is an init parameter, positionally
        fields = [f.name for f in dataclasses.fields(c)]
        if any(not f.init or f.kw_only for f in dataclasses.fields(c)):
            raise ExtractError(f"node class {c.__name__}: a field is not a positional init parameter")
        kinds = [field_kind(c, f) for f in dataclasses.fields(c)]
        out.append(dict(name=c.__name__, mro=mro, fields=fields, kinds=kinds))
    out.sort(key=lambda r: r["name"])
    return out


def collector_leaves():
    """the handlers `Collector` adds to `CombineMapper`: each must be `return set()`"""
    import pymbolic.mapper as pm
    names = sorted(n for n in pm.Collector.__dict__ if n.startswith("map_"))
    for n in names:
        node = _fn_ast(pm.Collector.__dict__[n], f"Collector.{n}")
        body = _body(node)
        if not (len(body) == 1 and isinstance(body[0], ast.Return)
                and ast.unparse(body[0].value) == "set()"):
            raise ExtractError(f"Collector.{n}: not `return set()`")
    return names


def subst_hooks():
    """the handlers `SubstitutionMapper` overrides: each must ask `self.subst_func(expr)` first and
    otherwise fall back to `expr` / to `IdentityMapper`'s handler of the same name"""
    import pymbolic.mapper.substitutor as ps
    out = []
    for n in sorted(k for k in ps.SubstitutionMapper.__dict__ if k.startswith("map_")):
        what = f"SubstitutionMapper.{n}"
        node = _fn_ast(ps.SubstitutionMapper.__dict__[n], what)
        a = node.args
        if [x.arg for x in a.args] != ["self", "expr"] or a.vararg or a.kwarg or a.kwonlyargs:
            raise ExtractError(f"{what}: signature is not (self, expr)")
        body = _body(node)
        ok = (len(body) == 2 and isinstance(body[0], ast.Assign) and len(body[0].targets) == 1
              and _name(body[0].targets[0]) and ast.unparse(body[0].value) == "self.subst_func(expr)"
              and isinstance(body[1], ast.If) and len(body[1].body) == 1 and len(body[1].orelse) == 1
              and isinstance(body[1].body[0], ast.Return) and isinstance(body[1].orelse[0], ast.Return))
        if not ok:
            raise ExtractError(f"{what}: unreadable body")
        res = body[0].targets[0].id
        if (ast.unparse(body[1].test) != f"{res} is not None"
                or ast.unparse(body[1].body[0].value) != res):
            raise ExtractError(f"{what}: the answer of subst_func is not returned when it is not None")
        fb = ast.unparse(body[1].orelse[0].value)
        if fb == "expr":
            out.append((n, "expr"))
        elif fb == f"IdentityMapper.{n}(self, expr)":
            out.append((n, f"IdentityMapper.{n}"))
        else:
            raise ExtractError(f"{what}: unreadable fallback `{fb}`")
    return out


def tables():
    import pymbolic.mapper as pm
    readers = dict(WalkMapper=read_walk, IdentityMapper=read_identity, CombineMapper=read_combine,
                   CallbackMapper=read_callback)
    return dict(
        classes=node_classes(),
        collectorLeaves=collector_leaves(),
        substHooks=subst_hooks(),
        callbackRedirectsRec=callback_redirects_rec(),
        **{name: handler_table(getattr(pm, name), readers[name]) for name in MAPPERS})

# }}}


# {{{ Lean output

def q(s):
    return '"' + s.replace("\\", "\\\\").replace('"', '\\"') + '"'


def lb(b):
    return "true" if b else "false"


def lean_rec(r):
    return f"⟨{q(r['field'])}, .{r['iter']}, {lb(r['fwd'])}⟩"


def lean_recs(rs):
    return "[" + ", ".join(lean_rec(r) for r in rs) + "]"


def lean_strs(xs):
    return "[" + ", ".join(q(x) for x in xs) + "]"


def lean_body(b):
    k = b["kind"]
    if k == "raises":
        return ".raises"
    if k == "delegate":
        return f".delegate {q(b['to'])} {lb(b['fwd'])}"
    if k == "same":
        return ".same"
    if k == "callback":
        return f".callback {lb(b['fwd'])}"
    if k == "walk":
        return (f".walk .{b['visit']} {lb(b['visitFwd'])} {lean_recs(b['recs'])} "
                f"{lb(b['post'])} {lb(b['postFwd'])}")
    if k == "fold":
        return f".fold {lb(b['viaCombine'])} {lean_recs(b['recs'])}"
    if k == "rebuild":
        c = b["ctor"]
        if c["kind"] == "sameClass":
            args = "[" + ", ".join(f".{a} {q(f)}" for a, f in c["args"]) + "]"
            ctor = f"(.sameClass {args} {lb(c['extraProps'])})"
        else:
            ctor = "." + c["kind"]
        return (f".rebuild {lean_recs(b['recs'])} {lb(b['sameTest'])} {lean_strs(b['checked'])} "
                f"{lb(b['zeroCollapse'])} {ctor}")
    raise ExtractError(f"unknown body kind {k}")


def lean_handler(h):
    return f"  ⟨{q(h['name'])}, {q(h['definedIn'])}, {q(h['impl'])},\n    {lean_body(h['body'])}⟩"


def lean_class(c):
    mro = "[" + ", ".join("none" if m is None else f"some {q(m)}" for m in c["mro"]) + "]"
    return f"  ⟨{q(c['name'])}, {mro}, {lean_strs(c['fields'])}, {lean_strs(c['kinds'])}⟩"


def render(t):
    out = ["import PV.Model.TravTable",
           "/- GENERATED by extract/traversal.py from the live source of pymbolic/mapper/__init__.py and",
           "   the node classes of pymbolic/primitives.py — do not edit. -/",
           "namespace PV.Generated", ""]
    out.append("def c04Classes : List C04NodeClass := [\n"
               + ",\n".join(lean_class(c) for c in t["classes"]) + "\n]\n")
    out.append(f"def c04CollectorLeaves : List String := {lean_strs(t['collectorLeaves'])}\n")
    out.append("/-- the handlers `SubstitutionMapper` overrides (ask `subst_func` first) and what each\n"
               "falls back to -/\n"
               "def c04SubstHooks : List (String × String) := ["
               + ", ".join(f"({q(a)}, {q(b)})" for a, b in t["substHooks"]) + "]\n")
    for name, ident in (("WalkMapper", "c04WalkTable"), ("IdentityMapper", "c04IdentityTable"),
                        ("CombineMapper", "c04CombineTable"), ("CallbackMapper", "c04CallbackTable")):
        out.append(f"/-- the `map_*` attributes of `{name}` -/\n"
                   f"def {ident} : List C04Handler := [\n"
                   + ",\n".join(lean_handler(h) for h in t[name]) + "\n]\n")
    out.append("/-- `CallbackMapper.__init__` points the fallback mapper's `rec` back at the callback mapper -/\n"
               f"def c04CallbackRedirectsRec : Bool := {lb(t['callbackRedirectsRec'])}\n")
    out.append("end PV.Generated\n")
    return "\n".join(out)


def extract_traversal(ctx=None):
    t = tables()
    write_if_changed(os.path.join(LEAN, "PV", "Generated", "Traversal.lean"), render(t))
    return t

# }}}


if __name__ == "__main__":
    import sys
    t = extract_traversal()
    for name in MAPPERS:
        for h in t[name]:
            print(name, h["name"], h["definedIn"], h["impl"], h["body"], file=sys.stdout)
