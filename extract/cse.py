"""T-gen for C12: regenerate lean/PV/Generated/Cse.lean from the LIVE source of the
common-subexpression code of the working tree under check (`ctx["repo"]`):

  * pymbolic/cse.py            `COMMUTATIVE_CLASSES`, `NormalizedKeyGetter.__call__`,
                               `UseCountMapper` (`__init__`, `visit`, every `map_*` override),
                               `CSEMapper` (`__init__`, `get_cse`, every `map_*` it defines, the
                               aliases `map_product = map_sum`, …), `tag_common_subexpressions`
                               (statement sequence and the elimination threshold);
  * pymbolic/mapper/cse_tagger.py   `CSEWalkMapper`, `CSETagMapper`;
  * pymbolic/primitives.py     `wrap_in_cse`, `make_common_subexpression` (decision trees; the
                               componentwise branches for object arrays / multivectors are
                               recognised by their text and NOT interpreted),
                               `CommonSubexpression` (fields, defaults, `__post_init__`).

Everything is read with `inspect` + `ast`; names (`prim.Sum`, `COMMUTATIVE_CLASSES`,
`IdentityMapper`, `cse_scope.EVALUATION`, …) are resolved in the globals of the function that uses
them, `isinstance(x, C)` is recorded as the list of ALL node classes of pymbolic.primitives that are
subclasses of `C`.  The handlers the three mapper classes INHERIT are not re-read: they are the
rows of the C04 tables `c04WalkTable` / `c04IdentityTable` (extract/traversal.py, regenerated
here too); the readers check that the classes sit directly on `WalkMapper` / `IdentityMapper` and
override nothing of the traversal machinery.

The table languages (`C12KeyTable`, `C12Prog`, `C12MBody`, `C12WTree`, …) are given a meaning by
the import-free interpreters of lean/PV/Model/CseTable.lean.  What is recorded is what the source
SAYS; a statement / expression shape this reader does not know is an `ExtractError` (reported by
the check as a broken obligation) — never a default.
"""
from __future__ import annotations

import ast
import dataclasses
import inspect
import os

from harness.leanio import LEAN

from .classes import ExtractError
from .evaluator import check_repo
from .prec import write_if_changed
from .traversal import _body, _expr_field, _fn_ast as _fn_ast_raw, _name, _self_call, _site_direct, lb, q

SKIP_ATTRS = ("__module__", "__doc__", "__qualname__", "__firstlineno__", "__static_attributes__",
              "__annotations__", "__dict__", "__weakref__")


def _fn_ast(fn, what):
    if not inspect.isfunction(fn):
        raise ExtractError(f"{what}: not a plain function ({type(fn).__name__})")
    node = _fn_ast_raw(fn, what)
    if node.decorator_list:
        raise ExtractError(f"{what}: decorated ({ast.unparse(node.decorator_list[0])})")
    if getattr(fn, "__wrapped__", None) is not None:
        raise ExtractError(f"{what}: a wrapper around another function")
    return node


def _params(fn: ast.FunctionDef, what, allow_star=False):
    """positional parameter names with their defaults (source text); *args/**kwargs only as the
    standard pair"""
    a = fn.args
    if a.kwonlyargs or a.posonlyargs:
        raise ExtractError(f"{what}: keyword-only / positional-only parameters")
    star = a.vararg is not None or a.kwarg is not None
    if star and not (allow_star and a.vararg is not None and a.vararg.arg == "args"
                     and a.kwarg is not None and a.kwarg.arg == "kwargs"):
        raise ExtractError(f"{what}: unexpected *args / **kwargs")
    names = [x.arg for x in a.args]
    defaults = [None] * (len(names) - len(a.defaults)) + [ast.unparse(d) for d in a.defaults]
    return names, defaults, star


# {{{ name resolution

def _resolve(node, glob, what):
    """the live object a `Name` / dotted `Attribute` chain denotes in the globals of the function"""
    if isinstance(node, ast.Name):
        if node.id not in glob:
            raise ExtractError(f"{what}: `{node.id}` is not a module-level name")
        return glob[node.id]
    if isinstance(node, ast.Attribute):
        base = _resolve(node.value, glob, what)
        try:
            return getattr(base, node.attr)
        except AttributeError:
            raise ExtractError(f"{what}: `{ast.unparse(node)}` does not exist")
    raise ExtractError(f"{what}: `{ast.unparse(node)[:60]}` is not a (dotted) name")


def _resolve_classes(node, glob, what):
    """a class / a tuple of classes (written out or through a module-level name) -> [class]"""
    if isinstance(node, ast.Tuple):
        out = []
        for e in node.elts:
            out += _resolve_classes(e, glob, what)
        return out
    v = _resolve(node, glob, what)
    vs = list(v) if isinstance(v, tuple) else [v]
    for c in vs:
        if not inspect.isclass(c):
            raise ExtractError(f"{what}: `{ast.unparse(node)}` is not a class / tuple of classes")
    return vs


def node_universe():
    """the node classes of pymbolic.primitives (same universe as `c04Classes`)"""
    import pymbolic.primitives as p

    def subs(c):
        for s in c.__subclasses__():
            yield s
            yield from subs(s)
    seen = []
    for c in subs(p.Expression):
        if c not in seen and c.__module__ == p.__name__:
            seen.append(c)
    return seen


def closure(classes, what):
    """names of the node classes `isinstance(x, classes)` accepts; a class outside the node
    universe (MultiVector, numpy.ndarray, …) must be handled by the caller"""
    uni = node_universe()
    import pymbolic.primitives as p
    for c in classes:
        if c is not p.Expression and c not in uni:
            raise ExtractError(f"{what}: {c.__name__} is not a node class of pymbolic.primitives")
    return sorted(u.__name__ for u in uni if issubclass(u, tuple(classes)))


def _class_name(node, glob, what, want=None):
    """`prim.CommonSubexpression` / `CommonSubexpression` -> the class name (checked to be the
    class of pymbolic.primitives)"""
    import pymbolic.primitives as p
    c = _resolve(node, glob, what)
    if not inspect.isclass(c) or getattr(p, c.__name__, None) is not c:
        raise ExtractError(f"{what}: `{ast.unparse(node)}` is not a class of pymbolic.primitives")
    if want is not None and c.__name__ != want:
        raise ExtractError(f"{what}: expected {want}, found {c.__name__}")
    return c.__name__


def _nat(n, what):
    if isinstance(n, ast.Constant) and type(n.value) is int and n.value >= 0:
        return n.value
    raise ExtractError(f"{what}: `{ast.unparse(n)}` is not a non-negative integer literal")

# }}}


# {{{ NormalizedKeyGetter

def read_key_getter(mod):
    cls = mod.NormalizedKeyGetter
    if cls.__bases__ != (object,):
        raise ExtractError("NormalizedKeyGetter has base classes")
    extra = sorted(k for k in cls.__dict__ if k not in SKIP_ATTRS and k != "__call__")
    if extra:
        raise ExtractError(f"NormalizedKeyGetter defines {extra}")
    what = "NormalizedKeyGetter.__call__"
    fn = cls.__dict__["__call__"]
    node = _fn_ast(fn, what)
    glob = fn.__globals__
    if _params(node, what)[0] != ["self", "expr"]:
        raise ExtractError(f"{what}: signature is not (self, expr)")
    body = _body(node)
    if len(body) != 1 or not isinstance(body[0], ast.If) or not body[0].orelse:
        raise ExtractError(f"{what}: body is not one `if … else …`")
    s = body[0]
    t = s.test
    if not (isinstance(t, ast.Call) and _name(t.func, "isinstance") and len(t.args) == 2
            and not t.keywords and _name(t.args[0], "expr")):
        raise ExtractError(f"{what}: test is not isinstance(expr, …): {ast.unparse(t)}")
    comm = closure(_resolve_classes(t.args[1], glob, what), what)
    # else: return expr
    if not (len(s.orelse) == 1 and isinstance(s.orelse[0], ast.Return)
            and _name(s.orelse[0].value, "expr")):
        raise ExtractError(f"{what}: the else branch is not `return expr`")
    blk = s.body
    if len(blk) != 3:
        raise ExtractError(f"{what}: the commutative branch is not <dict = {{}}; for …; return …>")
    a0, loop, ret = blk
    if not (isinstance(a0, ast.Assign) and len(a0.targets) == 1 and _name(a0.targets[0])
            and isinstance(a0.value, ast.Dict) and not a0.value.keys):
        raise ExtractError(f"{what}: `{ast.unparse(a0)}` is not `<name> = {{}}`")
    d = a0.targets[0].id
    if not (isinstance(loop, ast.For) and not loop.orelse and _name(loop.target)
            and _expr_field(loop.iter) and len(loop.body) == 1):
        raise ExtractError(f"{what}: unreadable loop `{ast.unparse(loop).splitlines()[0]}`")
    c = loop.target.id
    field = _expr_field(loop.iter)
    st = loop.body[0]
    # d[c] = d.get(c, START) + STEP
    ok = (isinstance(st, ast.Assign) and len(st.targets) == 1
          and ast.unparse(st.targets[0]) == f"{d}[{c}]"
          and isinstance(st.value, ast.BinOp) and isinstance(st.value.op, ast.Add)
          and isinstance(st.value.left, ast.Call) and ast.unparse(st.value.left.func) == f"{d}.get"
          and len(st.value.left.args) == 2 and not st.value.left.keywords
          and _name(st.value.left.args[0], c))
    if not ok:
        raise ExtractError(f"{what}: loop body `{ast.unparse(st)}` is not "
                           f"`{d}[{c}] = {d}.get({c}, <n>) + <n>`")
    start, step = _nat(st.value.left.args[1], what), _nat(st.value.right, what)
    if not isinstance(ret, ast.Return) or ret.value is None:
        raise ExtractError(f"{what}: the commutative branch does not end in a return")
    v = ret.value
    with_type = False
    if isinstance(v, ast.Tuple) and len(v.elts) == 2 and ast.unparse(v.elts[0]) == "type(expr)":
        with_type, v = True, v.elts[1]
    if not (isinstance(v, ast.Call) and _name(v.func, "frozenset") and len(v.args) == 1
            and not v.keywords):
        raise ExtractError(f"{what}: unreadable key `{ast.unparse(ret.value)}`")
    inner = ast.unparse(v.args[0])
    if inner == f"{d}.items()":
        items = True
    elif inner in (d, f"{d}.keys()"):
        items = False
    else:
        raise ExtractError(f"{what}: unreadable frozenset argument `{inner}`")
    return dict(commClasses=comm, field=field, start=start, step=step, withType=with_type,
                items=items, elseExpr=True)

# }}}


# {{{ counting walk mappers (UseCountMapper, CSEWalkMapper): programs over one dictionary

def _dict_of(n, dattr):
    """`self.<dattr>` ?"""
    return (isinstance(n, ast.Attribute) and _name(n.value, "self") and n.attr == dattr)


def _key_ref(n, st, what):
    """the dictionary key of a statement: the variable bound by `key = self.get_key(expr)`, or
    `expr` itself; returns the prefix program (`keyIsExpr` when the key is `expr`)"""
    if st["keyvar"] is not None and _name(n, st["keyvar"]):
        return []
    if _name(n, "expr"):
        return [("keyIsExpr",)]
    raise ExtractError(f"{what}: dictionary key `{ast.unparse(n)}` is neither the key variable nor expr")


def _prog(stmts, st, what):
    """statement list -> program (list of steps; `ifIn` carries two programs and ends its block:
    the statements after it are appended to both branches)"""
    if not stmts:
        return [("done",)]
    s, rest = stmts[0], stmts[1:]
    d = st["dict"]
    if isinstance(s, ast.Return):
        v = s.value
        if v is None or (isinstance(v, ast.Constant) and v.value is None):
            return [("done",)]
        if isinstance(v, ast.Constant) and isinstance(v.value, bool):
            return [("ret", v.value)]
        raise ExtractError(f"{what}: `{ast.unparse(s)}` does not return a Boolean constant")
    if isinstance(s, ast.Pass):
        return _prog(rest, st, what)
    # key = self.get_key(expr)
    if (isinstance(s, ast.Assign) and len(s.targets) == 1 and _name(s.targets[0])
            and _self_call(s.value, st["keyattr"] or "\0")):
        c = s.value
        if not (len(c.args) == 1 and _name(c.args[0], "expr") and not c.keywords):
            raise ExtractError(f"{what}: `{ast.unparse(c)}` is not applied to expr alone")
        st2 = dict(st, keyvar=s.targets[0].id)
        return [("getKey",)] + _prog(rest, st2, what)
    # if K in self.D: … else: …
    if (isinstance(s, ast.If) and isinstance(s.test, ast.Compare) and len(s.test.ops) == 1
            and isinstance(s.test.ops[0], (ast.In, ast.NotIn)) and _dict_of(s.test.comparators[0], d)):
        pre = _key_ref(s.test.left, st, what)
        t, e = _prog(s.body + rest, st, what), _prog(s.orelse + rest, st, what)
        if isinstance(s.test.ops[0], ast.NotIn):
            t, e = e, t
        return pre + [("ifIn", t, e)]
    # self.D[K] += n
    if (isinstance(s, ast.AugAssign) and isinstance(s.op, ast.Add) and isinstance(s.target, ast.Subscript)
            and _dict_of(s.target.value, d)):
        return (_key_ref(s.target.slice, st, what) + [("incr", _nat(s.value, what))]
                + _prog(rest, st, what))
    if (isinstance(s, ast.Assign) and len(s.targets) == 1 and isinstance(s.targets[0], ast.Subscript)
            and _dict_of(s.targets[0].value, d)):
        pre = _key_ref(s.targets[0].slice, st, what)
        v = s.value
        # self.D[K] = n
        if isinstance(v, ast.Constant):
            return pre + [("assign", _nat(v, what))] + _prog(rest, st, what)
        # self.D[K] = self.D.get(K, d) + n
        if (isinstance(v, ast.BinOp) and isinstance(v.op, ast.Add) and isinstance(v.left, ast.Call)
                and isinstance(v.left.func, ast.Attribute) and v.left.func.attr == "get"
                and _dict_of(v.left.func.value, d) and len(v.left.args) == 2 and not v.left.keywords
                and ast.unparse(v.left.args[0]) == ast.unparse(s.targets[0].slice)):
            return (pre + [("getPlus", _nat(v.left.args[1], what), _nat(v.right, what))]
                    + _prog(rest, st, what))
        raise ExtractError(f"{what}: unreadable dictionary store `{ast.unparse(s)}`")
    # self.rec(expr.F)
    if isinstance(s, ast.Expr):
        r = _site_direct(s.value, what)
        if r is not None:
            if not st["recur"]:
                raise ExtractError(f"{what}: recursion inside visit")
            return [("recur", r)] + _prog(rest, st, what)
    raise ExtractError(f"{what}: unreadable statement `{ast.unparse(s).splitlines()[0][:70]}`")


def _no_traversal_overrides(cls, base, what):
    import pymbolic.mapper as pm
    if cls.__bases__ != (base,):
        raise ExtractError(f"{what}: bases are {[b.__name__ for b in cls.__bases__]}, "
                           f"not ({base.__name__},)")
    mro = [k for k in cls.__mro__ if k is not object and k.__name__ not in ("ABC", "Generic")]
    if mro != [cls, base, pm.Mapper]:
        raise ExtractError(f"{what}: MRO is {[k.__name__ for k in mro]}")
    for forbidden in ("__call__", "rec", "rec_fallback", "map_foreign",
                      "handle_unsupported_expression", "__getattr__", "__getattribute__"):
        if forbidden in cls.__dict__:
            raise ExtractError(f"{what} overrides {forbidden}")


def _read_init(cls, what):
    """`self.A = {}` / `self.A = <parameter>` / `self.A = <parameter>.B` ->
    (parameters, [(attr, kind, source)])"""
    node = _fn_ast(cls.__dict__["__init__"], f"{what}.__init__")
    names, defaults, _ = _params(node, f"{what}.__init__")
    if names[:1] != ["self"] or any(d is not None for d in defaults):
        raise ExtractError(f"{what}.__init__: unreadable signature")
    stores = []
    for s in _body(node):
        if not (isinstance(s, ast.Assign) and len(s.targets) == 1
                and isinstance(s.targets[0], ast.Attribute) and _name(s.targets[0].value, "self")):
            raise ExtractError(f"{what}.__init__: unreadable statement `{ast.unparse(s)[:70]}`")
        attr, v = s.targets[0].attr, s.value
        if isinstance(v, ast.Dict) and not v.keys:
            stores.append((attr, "emptyDict", ""))
        elif _name(v) and v.id in names[1:]:
            stores.append((attr, "param", v.id))
        elif isinstance(v, ast.Attribute) and _name(v.value) and v.value.id in names[1:]:
            stores.append((attr, "paramAttr", f"{v.value.id}.{v.attr}"))
        else:
            raise ExtractError(f"{what}.__init__: unreadable right-hand side `{ast.unparse(v)[:60]}`")
    if len({a for a, _, _ in stores}) != len(stores):
        raise ExtractError(f"{what}.__init__: attribute stored twice")
    return names[1:], stores


def read_counter(cls):
    """a `WalkMapper` subclass that counts in ONE dictionary attribute"""
    import pymbolic.mapper as pm
    what = cls.__name__
    _no_traversal_overrides(cls, pm.WalkMapper, what)
    params, stores = _read_init(cls, what)
    dicts = [a for a, k, _ in stores if k == "emptyDict"]
    if len(dicts) != 1:
        raise ExtractError(f"{what}.__init__: expected exactly one `self.<attr> = {{}}`, found {dicts}")
    keyattr = None
    for a, k, src in stores:
        if k == "param":
            if keyattr is not None:
                raise ExtractError(f"{what}.__init__: two stored parameters")
            keyattr = a
        elif k != "emptyDict":
            raise ExtractError(f"{what}.__init__: unreadable store of {a}")
    st = dict(dict=dicts[0], keyattr=keyattr, keyvar=None, recur=False)
    visit, overrides = None, []
    for name, obj in cls.__dict__.items():
        w = f"{what}.{name}"
        if name in SKIP_ATTRS or name == "__init__":
            continue
        if name == "visit":
            node = _fn_ast(obj, w)
            if _params(node, w)[0] != ["self", "expr"]:
                raise ExtractError(f"{w}: signature is not (self, expr)")
            visit = _prog(_body(node), st, w)
        elif name.startswith("map_") and name != "map_foreign":
            node = _fn_ast(obj, w)
            if obj.__name__ != name:
                raise ExtractError(f"{w}: alias of {obj.__name__}")
            if _params(node, w, allow_star=True)[0] != ["self", "expr"]:
                raise ExtractError(f"{w}: signature is not (self, expr[, *args, **kwargs])")
            if any(_self_call(n, "visit") or _self_call(n, "post_visit") for n in ast.walk(node)):
                raise ExtractError(f"{w}: calls visit / post_visit")
            overrides.append((name, _prog(_body(node), dict(st, recur=True), w)))
        else:
            raise ExtractError(f"{w}: the class body defines something this reader does not know")
    if visit is None:
        raise ExtractError(f"{what}.visit is not overridden")
    # post_visit: WalkMapper's no-op
    pv = [s for s in _body(_fn_ast(pm.WalkMapper.post_visit, "WalkMapper.post_visit"))
          if not isinstance(s, ast.Pass)]
    if pv:
        raise ExtractError("WalkMapper.post_visit is not a no-op")
    overrides.sort()
    return dict(cls=what, base="WalkMapper", dictAttr=dicts[0], keyAttr=keyattr, visit=visit,
                overrides=overrides)

# }}}


# {{{ rebuilding mappers (CSEMapper, CSETagMapper)

CMPS = {ast.Gt: "gt", ast.GtE: "ge", ast.Lt: "lt", ast.LtE: "le", ast.Eq: "eq", ast.NotEq: "ne"}


def _threshold(t, left_src, what):
    """`<left> OP n` -> (op, n)"""
    if not (isinstance(t, ast.Compare) and len(t.ops) == 1 and type(t.ops[0]) in CMPS
            and ast.unparse(t.left) == left_src):
        raise ExtractError(f"{what}: `{ast.unparse(t)}` is not `{left_src} <cmp> <n>`")
    return CMPS[type(t.ops[0])], _nat(t.comparators[0], what)


def _is_identity_call(n, glob, what):
    """getattr(IdentityMapper, expr.mapper_method)(self, expr)"""
    import pymbolic.mapper as pm
    if not (isinstance(n, ast.Call) and isinstance(n.func, ast.Call) and _name(n.func.func, "getattr")):
        return False
    g = n.func
    if not (len(g.args) == 2 and not g.keywords and ast.unparse(g.args[1]) == "expr.mapper_method"
            and len(n.args) == 2 and not n.keywords and _name(n.args[0], "self")
            and _name(n.args[1], "expr")):
        raise ExtractError(f"{what}: unreadable getattr call `{ast.unparse(n)}`")
    if _resolve(g.args[0], glob, what) is not pm.IdentityMapper:
        raise ExtractError(f"{what}: `{ast.unparse(g.args[0])}` is not pymbolic.mapper.IdentityMapper")
    return True


def _mexpr(n, env, cx, what):
    """an expression-valued piece of a handler -> C12MExpr (as nested tuples)"""
    import pymbolic.primitives as prim
    glob = cx["glob"]
    if _name(n) and n.id in env:
        return env[n.id]
    if _is_identity_call(n, glob, what):
        return ("identity",)
    if isinstance(n, ast.Call):
        # self.rec(expr.F)
        r = _site_direct(n, what)
        if r is not None:
            return ("recField", r["field"])
        # prim.wrap_in_cse(A[, expr.prefix])
        if not _self_call(n) and not (isinstance(n.func, ast.Call)):
            f = _resolve(n.func, glob, what) if isinstance(n.func, (ast.Name, ast.Attribute)) else None
            if f is prim.wrap_in_cse:
                if n.keywords or not 1 <= len(n.args) <= 2:
                    raise ExtractError(f"{what}: unreadable wrap_in_cse call `{ast.unparse(n)}`")
                with_prefix = False
                if len(n.args) == 2:
                    if ast.unparse(n.args[1]) != "expr.prefix":
                        raise ExtractError(f"{what}: second argument of wrap_in_cse is not expr.prefix")
                    with_prefix = True
                return ("wrapCse", _mexpr(n.args[0], env, cx, what), with_prefix)
            if f is prim.CommonSubexpression:
                if len(n.args) == 1 and not n.keywords and _name(n.args[0], "expr"):
                    return ("newCse",)
                raise ExtractError(f"{what}: unreadable constructor call `{ast.unparse(n)}`")
        # type(expr)(A, expr.F, …, **expr.get_extra_properties())
        if ast.unparse(n.func) in ("type(expr)", "expr.__class__") and n.args:
            copied = []
            for a in n.args[1:]:
                f = _expr_field(a)
                if not f:
                    raise ExtractError(f"{what}: unreadable constructor argument `{ast.unparse(a)}`")
                copied.append(f)
            extra = False
            for k in n.keywords:
                if k.arg is None and ast.unparse(k.value) == "expr.get_extra_properties()":
                    extra = True
                else:
                    raise ExtractError(f"{what}: unreadable constructor keyword `{ast.unparse(k)}`")
            return ("ctorSame", _mexpr(n.args[0], env, cx, what), copied, extra)
    raise ExtractError(f"{what}: unreadable expression `{ast.unparse(n)[:70]}`")


def _mret(stmts, env, cx, what):
    """a block that computes and returns one value -> C12MRet"""
    env = dict(env)
    for i, s in enumerate(stmts):
        if isinstance(s, ast.Return):
            if s.value is None:
                raise ExtractError(f"{what}: bare return")
            v = s.value
            # self.get_cse(expr, key)
            if _self_call(v, "get_cse") or (_name(v) and env.get(v.id) == ("getCse",)):
                if not _name(v):
                    _check_get_cse_call(v, cx, what)
                return ("getCse",)
            return ("expr", _mexpr(v, env, cx, what))
        if isinstance(s, ast.Assign) and len(s.targets) == 1 and _name(s.targets[0]):
            if _self_call(s.value, "get_cse"):
                _check_get_cse_call(s.value, cx, what)
                env[s.targets[0].id] = ("getCse",)
            else:
                env[s.targets[0].id] = _mexpr(s.value, env, cx, what)
            continue
        # if type(X) is prim.C: X = X.child
        if (isinstance(s, ast.If) and not s.orelse and len(s.body) == 1
                and isinstance(s.test, ast.Compare) and len(s.test.ops) == 1
                and isinstance(s.test.ops[0], ast.Is) and isinstance(s.test.left, ast.Call)
                and _name(s.test.left.func, "type") and len(s.test.left.args) == 1
                and _name(s.test.left.args[0]) and s.test.left.args[0].id in env):
            x = s.test.left.args[0].id
            cls = _class_name(s.test.comparators[0], cx["glob"], what)
            if ast.unparse(s.body[0]) != f"{x} = {x}.child" or env[x] == ("getCse",):
                raise ExtractError(f"{what}: unreadable unwrapping `{ast.unparse(s)[:70]}`")
            env[x] = ("unwrapExact", env[x], cls)
            continue
        raise ExtractError(f"{what}: unreadable statement `{ast.unparse(s).splitlines()[0][:70]}`")
    raise ExtractError(f"{what}: block does not return")


def _check_get_cse_call(c, cx, what):
    if cx.get("keyvar") is None or not (len(c.args) == 2 and not c.keywords and _name(c.args[0], "expr")
                                        and _name(c.args[1], cx["keyvar"])):
        raise ExtractError(f"{what}: `{ast.unparse(c)}` is not self.get_cse(expr, <key>)")


def _ctor_rebuild(v, what):
    """`type(expr)(expr.F, …, tuple([self.rec(c) for c in expr.G]), …)` -> a C04 rebuild body"""
    from .traversal import _site_comprehension
    if not (isinstance(v, ast.Call) and ast.unparse(v.func) in ("type(expr)", "expr.__class__")
            and not v.keywords):
        return None
    recs, args = [], []
    for a in v.args:
        f = _expr_field(a)
        if f:
            args.append(("copied", f))
            continue
        inner = a
        if isinstance(a, ast.Call) and _name(a.func, "tuple") and len(a.args) == 1 and not a.keywords:
            inner = a.args[0]
        r = _site_direct(inner, what) if inner is a else _site_comprehension(inner, what)
        if r is None:
            raise ExtractError(f"{what}: unreadable constructor argument `{ast.unparse(a)[:60]}`")
        recs.append(r)
        args.append(("rebuilt", r["field"]))
    return dict(kind="rebuild", recs=recs, sameTest=False, checked=[], zeroCollapse=False,
                ctor=dict(kind="sameClass", args=args, extraProps=False))


def _mbody(fn, node, cls, what):
    glob = fn.__globals__
    cx = dict(glob=glob, keyvar=None)
    body = _body(node)
    # a single constructor call
    if len(body) == 1 and isinstance(body[0], ast.Return) and body[0].value is not None:
        rb = _ctor_rebuild(body[0].value, what)
        if rb is not None:
            return ("rebuild", rb)
    # key = self.get_key(expr); if key in self.<elim>: … else: …
    if (len(body) == 2 and isinstance(body[0], ast.Assign) and len(body[0].targets) == 1
            and _name(body[0].targets[0]) and _self_call(body[0].value, cls["keyAttr"] or "\0")
            and isinstance(body[1], ast.If)):
        c = body[0].value
        if not (len(c.args) == 1 and _name(c.args[0], "expr") and not c.keywords):
            raise ExtractError(f"{what}: `{ast.unparse(c)}` is not applied to expr alone")
        key = body[0].targets[0].id
        s = body[1]
        t = s.test
        if not (isinstance(t, ast.Compare) and len(t.ops) == 1 and isinstance(t.ops[0], (ast.In, ast.NotIn))
                and _name(t.left, key) and isinstance(t.comparators[0], ast.Attribute)
                and _name(t.comparators[0].value, "self")
                and t.comparators[0].attr == cls["elimAttr"]) or not s.orelse:
            raise ExtractError(f"{what}: test is not `{key} in self.{cls['elimAttr']}` with an else branch")
        cx["keyvar"] = key
        hit, miss = _mret(s.body, {}, cx, what), _mret(s.orelse, {}, cx, what)
        if isinstance(t.ops[0], ast.NotIn):
            hit, miss = miss, hit
        return ("keyed", hit, miss)
    if len(body) == 1 and isinstance(body[0], ast.If) and body[0].orelse:
        s = body[0]
        t = s.test
        # if type(expr) is prim.C
        if (isinstance(t, ast.Compare) and len(t.ops) == 1 and isinstance(t.ops[0], (ast.Is, ast.IsNot))
                and ast.unparse(t.left) == "type(expr)"):
            cname = _class_name(t.comparators[0], glob, what)
            a, b = _mret(s.body, {}, cx, what), _mret(s.orelse, {}, cx, what)
            if isinstance(t.ops[0], ast.IsNot):
                a, b = b, a
            return ("ifExact", cname, a, b)
        # if self.<hist>.get(expr, d) OP n
        if (isinstance(t, ast.Compare) and isinstance(t.left, ast.Call)
                and isinstance(t.left.func, ast.Attribute) and t.left.func.attr == "get"
                and isinstance(t.left.func.value, ast.Attribute) and _name(t.left.func.value.value, "self")
                and t.left.func.value.attr == cls["histAttr"] and len(t.left.args) == 2
                and not t.left.keywords and _name(t.left.args[0], "expr")):
            dflt = _nat(t.left.args[1], what)
            op, n = _threshold(t, ast.unparse(t.left), what)
            return ("histo", dflt, (op, n), _mret(s.body, {}, cx, what), _mret(s.orelse, {}, cx, what))
    raise ExtractError(f"{what}: unreadable handler body")


_GET_CSE = """\
if key is None:
    key = self.{keyattr}(expr)
try:
    return self.{table}[key]
except KeyError:
    {new} = __FRESH__
    self.{table}[key] = {new}
    return {new}"""


def read_get_cse(cls, info, what):
    fn = cls.__dict__["get_cse"]
    node = _fn_ast(fn, what)
    names, defaults, _ = _params(node, what)
    if names != ["self", "expr", "key"] or defaults != [None, None, "None"]:
        raise ExtractError(f"{what}: signature is not (self, expr, key=None)")
    body = _body(node)
    try:
        asg = body[1].handlers[0].body[0]
        new = asg.targets[0].id
        fresh = asg.value
    except (AttributeError, IndexError):
        raise ExtractError(f"{what}: unreadable body")
    want = ast.unparse(ast.parse(_GET_CSE.format(keyattr=info["keyAttr"], table=info["tableAttr"],
                                                 new=new).replace("__FRESH__", ast.unparse(fresh))))
    got = ast.unparse(ast.Module(body=body, type_ignores=[]))
    if got != want:
        raise ExtractError(f"{what}: not the expected statement sequence:\n{got}")
    cx = dict(glob=fn.__globals__, keyvar="key")
    return dict(keyDefaults=True, lookupFirst=True, fresh=_mexpr(fresh, {}, cx, what), stores=True)


def read_rebuilder(cls, kind):
    """`CSEMapper` (kind = "cse") / `CSETagMapper` (kind = "tag"): an `IdentityMapper` subclass"""
    import pymbolic.mapper as pm
    what = cls.__name__
    _no_traversal_overrides(cls, pm.IdentityMapper, what)
    params, stores = _read_init(cls, what)
    info = dict(cls=what, base="IdentityMapper", keyAttr=None, elimAttr=None, tableAttr=None,
                histAttr=None, getCse=None)
    if kind == "cse":
        if params != ["to_eliminate", "get_key"]:
            raise ExtractError(f"{what}.__init__: parameters are {params}")
        for a, k, src in stores:
            if k == "param" and src == "to_eliminate":
                info["elimAttr"] = a
            elif k == "param" and src == "get_key":
                info["keyAttr"] = a
            elif k == "emptyDict":
                if info["tableAttr"] is not None:
                    raise ExtractError(f"{what}.__init__: two dictionaries")
                info["tableAttr"] = a
            else:
                raise ExtractError(f"{what}.__init__: unreadable store of {a}")
        if None in (info["elimAttr"], info["keyAttr"], info["tableAttr"]):
            raise ExtractError(f"{what}.__init__: to_eliminate / get_key / the table are not all stored")
    else:
        if len(params) != 1 or len(stores) != 1 or stores[0][1] != "paramAttr":
            raise ExtractError(f"{what}.__init__: not `self.<attr> = <walk mapper>.<attr>`")
        info["histAttr"] = stores[0][0]
        info["histSource"] = stores[0][2].split(".")[1]
    rows = []
    for name, obj in cls.__dict__.items():
        w = f"{what}.{name}"
        if name in SKIP_ATTRS or name == "__init__":
            continue
        if name == "get_cse" and kind == "cse":
            info["getCse"] = read_get_cse(cls, info, w)
        elif name.startswith("map_") and name != "map_foreign":
            node = _fn_ast(obj, w)
            if _params(node, w, allow_star=True)[0] != ["self", "expr"]:
                raise ExtractError(f"{w}: signature is not (self, expr[, *args, **kwargs])")
            owner = f"{what}.{obj.__name__}"
            if cls.__dict__.get(obj.__name__) is not obj:
                raise ExtractError(f"{w}: bound to a function that is not {owner}")
            rows.append(dict(name=name, impl=obj.__name__, body=_mbody(obj, node, info, owner)))
        else:
            raise ExtractError(f"{w}: the class body defines something this reader does not know")
    if kind == "cse" and info["getCse"] is None:
        raise ExtractError(f"{what}.get_cse is not defined")
    rows.sort(key=lambda r: r["name"])
    info["rows"] = rows
    return info

# }}}


# {{{ tag_common_subexpressions

_TAG_ALL = """\
get_key = NormalizedKeyGetter()
ucm = UseCountMapper(get_key)
if isinstance(exprs, prim.Expression):
    raise TypeError('exprs should be an iterable of expressions')
for expr in exprs:
    ucm(expr)
to_eliminate = {subexpr_key for subexpr_key, count in ucm.__DICT__.items() if __THRESHOLD__}
cse_mapper = CSEMapper(to_eliminate, get_key)
result = [cse_mapper(expr) for expr in exprs]
return result"""


def read_tag_all(mod, count_table):
    import pymbolic.primitives as prim
    fn = mod.tag_common_subexpressions
    what = "tag_common_subexpressions"
    node = _fn_ast(fn, what)
    if _params(node, what)[0] != ["exprs"]:
        raise ExtractError(f"{what}: signature is not (exprs)")
    body = _body(node)
    thr = None
    for n in ast.walk(node):
        if isinstance(n, ast.SetComp) and len(n.generators) == 1 and len(n.generators[0].ifs) == 1:
            g = n.generators[0]
            if not (isinstance(g.target, ast.Tuple) and len(g.target.elts) == 2
                    and _name(g.target.elts[1])):
                raise ExtractError(f"{what}: unreadable set comprehension")
            thr = (g.ifs[0], _threshold(g.ifs[0], g.target.elts[1].id, what))
    if thr is None:
        raise ExtractError(f"{what}: the set of keys to eliminate is not a set comprehension with one test")
    want = ast.unparse(ast.parse(_TAG_ALL.replace("__DICT__", count_table["dictAttr"])
                                 .replace("__THRESHOLD__", ast.unparse(thr[0]))))
    got = ast.unparse(ast.Module(body=body, type_ignores=[]))
    if got != want:
        raise ExtractError(f"{what}: not the expected statement sequence:\n{got}")
    g = fn.__globals__
    if (g.get("NormalizedKeyGetter") is not mod.NormalizedKeyGetter
            or g.get("UseCountMapper") is not mod.UseCountMapper or g.get("CSEMapper") is not mod.CSEMapper
            or g.get("prim") is not prim):
        raise ExtractError(f"{what}: a class name does not denote the class of pymbolic.cse")
    return dict(threshold=thr[1], keyGetter="NormalizedKeyGetter", counter="UseCountMapper",
                mapper="CSEMapper", oneCounter=True, oneMapper=True, sharedKeyGetter=True,
                rejectsExpression=True)

# }}}


# {{{ wrap_in_cse, make_common_subexpression, CommonSubexpression

def _wcond(t, cx, what):
    subj, glob = cx["subject"], cx["glob"]
    if cx.get("containers") and ast.unparse(t) == "have_obj_array and logical_shape != ()":
        return ("isObjArray",)
    if isinstance(t, ast.BoolOp):
        vals = [_wcond(v, cx, what) for v in t.values]
        k = "and" if isinstance(t.op, ast.And) else "or"
        out = vals[-1]
        for v in reversed(vals[:-1]):
            out = (k, v, out)
        return out
    if isinstance(t, ast.UnaryOp) and isinstance(t.op, ast.Not):
        return ("not", _wcond(t.operand, cx, what))
    if (isinstance(t, ast.Call) and _name(t.func, "isinstance") and len(t.args) == 2 and not t.keywords
            and _name(t.args[0], subj)):
        classes = _resolve_classes(t.args[1], glob, what)
        special = [c for c in classes if c.__name__ == "MultiVector"]
        if special:
            if len(classes) != 1 or classes[0].__module__ != "pymbolic.geometric_algebra":
                raise ExtractError(f"{what}: unreadable isinstance test `{ast.unparse(t)}`")
            return ("isMultiVector",)
        return ("isInst", closure(classes, what))
    if isinstance(t, ast.Call) and len(t.args) == 1 and not t.keywords and _name(t.args[0], subj) \
            and isinstance(t.func, (ast.Name, ast.Attribute)):
        import pymbolic.primitives as prim
        if _resolve(t.func, glob, what) is prim.is_constant:
            return ("isConstant",)
    if isinstance(t, ast.Compare) and len(t.ops) == 1:
        op, le, ri = t.ops[0], t.left, t.comparators[0]
        neg = isinstance(op, (ast.IsNot, ast.NotEq))
        r = None
        if isinstance(op, (ast.Is, ast.IsNot)):
            if isinstance(ri, ast.Constant) and ri.value is None:
                if _name(le) and le.id in cx["args"]:
                    r = ("argNone", le.id)
                elif isinstance(le, ast.Attribute) and _name(le.value, subj):
                    r = ("fieldNone", le.attr)
            elif ast.unparse(le) == f"type({subj})":
                r = ("exact", _class_name(ri, glob, what))
        elif isinstance(op, (ast.Eq, ast.NotEq)):
            for a, b in ((le, ri), (ri, le)):
                if _name(a) and a.id in cx["args"]:
                    if isinstance(b, ast.Attribute) and _name(b.value, subj):
                        r = ("fieldEqArg", b.attr, a.id)
                    elif isinstance(b, (ast.Name, ast.Attribute)):
                        v = _resolve(b, glob, what)
                        if not isinstance(v, str):
                            raise ExtractError(f"{what}: `{ast.unparse(b)}` is not a string constant")
                        r = ("argEq", a.id, v)
                    elif isinstance(b, ast.Constant) and isinstance(b.value, str):
                        r = ("argEq", a.id, b.value)
                    if r is not None:
                        break
        if r is not None:
            return ("not", r) if neg else r
    raise ExtractError(f"{what}: unreadable test `{ast.unparse(t)[:70]}`")


def _wval(n, cx, what):
    subj = cx["subject"]
    if _name(n, subj):
        return ("self",)
    if isinstance(n, ast.Attribute) and _name(n.value, subj):
        return ("field", n.attr)
    raise ExtractError(f"{what}: unreadable wrapper child `{ast.unparse(n)}`")


def _warg(n, cx, what):
    if _name(n) and n.id in cx["args"]:
        return ("arg", n.id)
    raise ExtractError(f"{what}: `{ast.unparse(n)}` is not a parameter")


def _wtree(stmts, cx, what):
    import pymbolic.primitives as prim
    if not stmts:
        raise ExtractError(f"{what}: a path falls off the end of the function")
    s, rest = stmts[0], stmts[1:]
    if isinstance(s, ast.Return):
        v = s.value
        if v is not None and _name(v, cx["subject"]):
            return ("same",)
        if isinstance(v, ast.Call) and isinstance(v.func, (ast.Name, ast.Attribute)) \
                and _resolve(v.func, cx["glob"], what) is prim.CommonSubexpression:
            if v.keywords or not 1 <= len(v.args) <= 3:
                raise ExtractError(f"{what}: unreadable constructor call `{ast.unparse(v)}`")
            pfx = _warg(v.args[1], cx, what) if len(v.args) > 1 else ("omitted",)
            scope = _warg(v.args[2], cx, what) if len(v.args) > 2 else ("omitted",)
            if (pfx[0] == "arg" and pfx[1] != "prefix") or (scope[0] == "arg" and scope[1] != "scope"):
                raise ExtractError(f"{what}: arguments in an unexpected position `{ast.unparse(v)}`")
            return ("mk", _wval(v.args[0], cx, what), pfx, scope)
        raise ExtractError(f"{what}: unreadable return `{ast.unparse(s)[:70]}`")
    if isinstance(s, ast.If):
        c = _wcond(s.test, cx, what)
        if c[0] in ("isMultiVector", "isObjArray"):
            want = cx["containers"].get(c[0])
            got = ast.unparse(ast.Module(body=s.body, type_ignores=[]))
            if want is None or got != ast.unparse(ast.parse(want)):
                raise ExtractError(f"{what}: the componentwise branch `{c[0]}` is not the expected text:\n{got}")
            t = ("componentwise",)
        else:
            t = _wtree(s.body + rest, cx, what)
        return ("ite", c, t, _wtree(s.orelse + rest, cx, what))
    raise ExtractError(f"{what}: unreadable statement `{ast.unparse(s).splitlines()[0][:70]}`")


def read_wrap_in_cse(prim):
    fn = prim.wrap_in_cse
    what = "wrap_in_cse"
    node = _fn_ast(fn, what)
    names, defaults, _ = _params(node, what)
    if names != ["expr", "prefix"] or defaults != [None, "None"]:
        raise ExtractError(f"{what}: signature is not (expr, prefix=None)")
    cx = dict(subject="expr", args=["prefix"], glob=fn.__globals__, containers=None)
    return _wtree(_body(node), cx, what)


_NUMPY_BLOCK = """\
try:
    import numpy
    have_obj_array = isinstance(field, numpy.ndarray) and field.dtype.char == 'O'
    logical_shape = field.shape if isinstance(field, numpy.ndarray) else ()
except ImportError:
    have_obj_array = False
    logical_shape = ()"""

_MV_BRANCH = """\
new_data = {}
for bits, coeff in field.data.items():
    if prefix is not None:
        blade_str = field.space.blade_bits_to_str(bits, '')
        component_prefix = prefix + '_' + blade_str
    else:
        component_prefix = None
    new_data[bits] = make_common_subexpression(coeff, component_prefix, scope)
return MultiVector(new_data, field.space)"""

_ARRAY_BRANCH = """\
result = numpy.zeros(logical_shape, dtype=object)
for i in numpy.ndindex(logical_shape):
    if prefix is not None:
        component_prefix = prefix + '_'.join((str(i_i) for i_i in i))
    else:
        component_prefix = None
    if is_constant(field[i]):
        result[i] = field[i]
    else:
        result[i] = make_common_subexpression(field[i], component_prefix, scope)
return result"""


def read_make_cse(prim):
    fn = prim.make_common_subexpression
    what = "make_common_subexpression"
    node = _fn_ast(fn, what)
    names, defaults, _ = _params(node, what)
    if names != ["field", "prefix", "scope"] or defaults != [None, "None", "None"]:
        raise ExtractError(f"{what}: signature is not (field, prefix=None, scope=None)")
    # `_body` drops the imports: the MultiVector import must be the one of geometric_algebra
    imports = sorted(ast.unparse(s) for s in node.body if isinstance(s, (ast.Import, ast.ImportFrom)))
    if imports != ["from pymbolic.geometric_algebra import MultiVector"]:
        raise ExtractError(f"{what}: unexpected function-level imports {imports}")
    body = _body(node)
    tries = [i for i, s in enumerate(body) if isinstance(s, ast.Try)]
    if tries != [1]:
        raise ExtractError(f"{what}: the numpy probe is not the second statement")
    # the try block keeps its `import numpy` (only top-level imports are dropped by `_body`)
    if ast.unparse(body[1]) != ast.unparse(ast.parse(_NUMPY_BLOCK)):
        raise ExtractError(f"{what}: the numpy probe is not the expected text:\n{ast.unparse(body[1])}")
    import pymbolic.geometric_algebra as ga
    glob = dict(fn.__globals__, MultiVector=ga.MultiVector)
    cx = dict(subject="field", args=["prefix", "scope"], glob=glob,
              containers=dict(isMultiVector=_MV_BRANCH, isObjArray=_ARRAY_BRANCH))
    return _wtree([body[0]] + body[2:], cx, what)


_POST_INIT = """\
if self.scope is None:
    warn('CommonSubexpression.scope set to None. This is deprecated and will stop working in 2024. Use cse_scope.EVALUATION explicitly instead.', DeprecationWarning, stacklevel=3)
    object.__setattr__(self, 'scope', cse_scope.EVALUATION)"""


def read_cse_ctor(prim):
    cls = prim.CommonSubexpression
    what = "CommonSubexpression"
    if not dataclasses.is_dataclass(cls):
        raise ExtractError(f"{what} is not a dataclass")
    fs = dataclasses.fields(cls)
    if [f.name for f in fs] != ["child", "prefix", "scope"] or any(not f.init or f.kw_only for f in fs):
        raise ExtractError(f"{what}: fields are {[f.name for f in fs]}")
    if fs[0].default is not dataclasses.MISSING or fs[1].default is not None \
            or not isinstance(fs[2].default, str):
        raise ExtractError(f"{what}: unexpected field defaults")
    none_scope = None
    pi = cls.__dict__.get("__post_init__")
    if pi is not None:
        node = _fn_ast(pi, f"{what}.__post_init__")
        got = ast.unparse(ast.Module(body=_body(node), type_ignores=[]))
        if got != ast.unparse(ast.parse(_POST_INIT)):
            raise ExtractError(f"{what}.__post_init__: not the expected text:\n{got}")
        v = pi.__globals__["cse_scope"].EVALUATION
        if not isinstance(v, str):
            raise ExtractError("cse_scope.EVALUATION is not a string")
        none_scope = v
    for k in cls.__mro__[1:]:
        if "__post_init__" in k.__dict__ and pi is None:
            raise ExtractError(f"{what}: __post_init__ inherited from {k.__name__}")
    if "__init__" in cls.__dict__ and not getattr(cls.__dict__["__init__"], "__qualname__", "").endswith(
            "CommonSubexpression.__init__"):
        raise ExtractError(f"{what}: unexpected __init__")
    return dict(fields=[f.name for f in fs], scopeDefault=fs[2].default, noneScopeBecomes=none_scope)

# }}}


def tables(ctx=None):
    import pymbolic.cse as cse
    import pymbolic.mapper as pm
    import pymbolic.mapper.cse_tagger as tg
    import pymbolic.primitives as prim
    check_repo(ctx, [cse, pm, tg, prim])
    if tg.CommonSubexpression is not prim.CommonSubexpression:
        raise ExtractError("cse_tagger.CommonSubexpression is not the class of pymbolic.primitives")
    count = read_counter(cse.UseCountMapper)
    if count["keyAttr"] is None:
        raise ExtractError("UseCountMapper.__init__ does not store the key getter")
    hist = read_counter(tg.CSEWalkMapper)
    tag = read_rebuilder(tg.CSETagMapper, "tag")
    if tag["histSource"] != hist["dictAttr"]:
        raise ExtractError("CSETagMapper does not read the dictionary CSEWalkMapper counts in")
    return dict(key=read_key_getter(cse), count=count, mapper=read_rebuilder(cse.CSEMapper, "cse"),
                tagAll=read_tag_all(cse, count), wrap=read_wrap_in_cse(prim), make=read_make_cse(prim),
                ctor=read_cse_ctor(prim), hist=hist, tag=tag)


# {{{ Lean output

def lean_strs(xs):
    return "[" + ", ".join(q(x) for x in xs) + "]"


def lean_opt(s):
    return "none" if s is None else f"(some {q(s)})"


def lean_site(r):
    return f"⟨{q(r['field'])}, .{r['iter']}, {lb(r['fwd'])}⟩"


def lean_prog(p):
    if not p:
        raise ExtractError("empty program")
    s, rest = p[0], p[1:]
    k = s[0]
    if k == "done":
        return ".done"
    if k == "ret":
        return f"(.ret {lb(s[1])})"
    if k == "ifIn":
        return f"(.ifIn {lean_prog(s[1])} {lean_prog(s[2])})"
    cont = lean_prog(rest)
    if k in ("getKey", "keyIsExpr"):
        return f"(.{k} {cont})"
    if k in ("incr", "assign"):
        return f"(.{k} {s[1]} {cont})"
    if k == "getPlus":
        return f"(.getPlus {s[1]} {s[2]} {cont})"
    if k == "recur":
        return f"(.recur {lean_site(s[1])} {cont})"
    raise ExtractError(f"unknown program step {k}")


def lean_mexpr(e):
    k = e[0]
    if k in ("identity", "newCse"):
        return "." + k
    if k == "recField":
        return f"(.recField {q(e[1])})"
    if k == "wrapCse":
        return f"(.wrapCse {lean_mexpr(e[1])} {lb(e[2])})"
    if k == "unwrapExact":
        return f"(.unwrapExact {lean_mexpr(e[1])} {q(e[2])})"
    if k == "ctorSame":
        return f"(.ctorSame {lean_mexpr(e[1])} {lean_strs(e[2])} {lb(e[3])})"
    raise ExtractError(f"unknown expression kind {k}")


def lean_mret(r):
    return ".getCse" if r[0] == "getCse" else f"(.expr {lean_mexpr(r[1])})"


def lean_thr(t):
    return f"⟨.{t[0]}, {t[1]}⟩"


def lean_mbody(b):
    from .traversal import lean_body
    k = b[0]
    if k == "keyed":
        return f"(.keyed {lean_mret(b[1])} {lean_mret(b[2])})"
    if k == "histo":
        return f"(.histo {b[1]} {lean_thr(b[2])} {lean_mret(b[3])} {lean_mret(b[4])})"
    if k == "ifExact":
        return f"(.ifExact {q(b[1])} {lean_mret(b[2])} {lean_mret(b[3])})"
    if k == "rebuild":
        return f"(.rebuild ({lean_body(b[1])}))"
    raise ExtractError(f"unknown body kind {k}")


def lean_wcond(c):
    k = c[0]
    if k in ("isConstant", "isMultiVector", "isObjArray"):
        return "." + k
    if k == "isInst":
        return f"(.isInst {lean_strs(c[1])})"
    if k in ("exact", "argNone", "fieldNone"):
        return f"(.{k} {q(c[1])})"
    if k in ("argEq", "fieldEqArg"):
        return f"(.{k} {q(c[1])} {q(c[2])})"
    if k in ("and", "or"):
        return f"(.{k} {lean_wcond(c[1])} {lean_wcond(c[2])})"
    if k == "not":
        return f"(.not {lean_wcond(c[1])})"
    raise ExtractError(f"unknown condition {k}")


def lean_warg(a):
    return ".omitted" if a[0] == "omitted" else f"(.arg {q(a[1])})"


def lean_wtree(t, ind="  "):
    k = t[0]
    if k in ("same", "componentwise"):
        return "." + k
    if k == "mk":
        child = ".self" if t[1][0] == "self" else f"(.field {q(t[1][1])})"
        return f"(.mk {child} {lean_warg(t[2])} {lean_warg(t[3])})"
    if k == "ite":
        return (f"(.ite {lean_wcond(t[1])}\n{ind}  {lean_wtree(t[2], ind + '  ')}\n"
                f"{ind}  {lean_wtree(t[3], ind + '  ')})")
    raise ExtractError(f"unknown tree node {k}")


def lean_counter(t):
    rows = ",\n".join(f"    ({q(n)}, {lean_prog(p)})" for n, p in t["overrides"])
    return ("{ cls := " + q(t["cls"]) + ", base := " + q(t["base"]) + ", dictAttr := " + q(t["dictAttr"])
            + ",\n    keyAttr := " + lean_opt(t["keyAttr"]) + ",\n    visit := " + lean_prog(t["visit"])
            + ",\n    overrides := [" + ("\n" + rows if rows else "") + "] }")


def lean_get_cse(g):
    if g is None:
        return "none"
    return (f"(some {{ keyDefaults := {lb(g['keyDefaults'])}, lookupFirst := {lb(g['lookupFirst'])}, "
            f"fresh := {lean_mexpr(g['fresh'])}, stores := {lb(g['stores'])} }})")


def lean_rebuilder(t):
    rows = ",\n".join(f"    ⟨{q(r['name'])}, {q(r['impl'])},\n      {lean_mbody(r['body'])}⟩"
                      for r in t["rows"])
    return ("{ cls := " + q(t["cls"]) + ", base := " + q(t["base"])
            + ",\n    keyAttr := " + lean_opt(t["keyAttr"]) + ", elimAttr := " + lean_opt(t["elimAttr"])
            + ", tableAttr := " + lean_opt(t["tableAttr"]) + ", histAttr := " + lean_opt(t["histAttr"])
            + ",\n    getCse := " + lean_get_cse(t["getCse"])
            + ",\n    rows := [\n" + rows + "] }")


def render(t):
    k, a, c = t["key"], t["tagAll"], t["ctor"]
    out = ["import PV.Model.CseTable",
           "import PV.Generated.Traversal",
           "/- GENERATED by extract/cse.py from the live source of pymbolic/cse.py,",
           "   pymbolic/mapper/cse_tagger.py and pymbolic/primitives.py (wrap_in_cse,",
           "   make_common_subexpression, CommonSubexpression) — do not edit. -/",
           "namespace PV.Generated", ""]
    out.append("/-- `NormalizedKeyGetter.__call__` (with `COMMUTATIVE_CLASSES` resolved) -/\n"
               "def c12KeyTable : C12KeyTable :=\n"
               f"  {{ commClasses := {lean_strs(k['commClasses'])}, field := {q(k['field'])},\n"
               f"    start := {k['start']}, step := {k['step']}, withType := {lb(k['withType'])}, "
               f"items := {lb(k['items'])}, elseExpr := {lb(k['elseExpr'])} }}\n")
    out.append("/-- `UseCountMapper`: `__init__`, `visit`, the `map_*` overrides -/\n"
               f"def c12CountTable : C12CountTable :=\n  {lean_counter(t['count'])}\n")
    out.append("/-- `CSEMapper`: `__init__`, `get_cse`, every `map_*` the class body binds -/\n"
               f"def c12MapTable : C12MapTable :=\n  {lean_rebuilder(t['mapper'])}\n")
    out.append("/-- `tag_common_subexpressions` -/\n"
               "def c12TagAllTable : C12TagAllTable :=\n"
               f"  {{ threshold := {lean_thr(a['threshold'])}, keyGetter := {q(a['keyGetter'])}, "
               f"counter := {q(a['counter'])}, mapper := {q(a['mapper'])},\n"
               f"    oneCounter := {lb(a['oneCounter'])}, oneMapper := {lb(a['oneMapper'])}, "
               f"sharedKeyGetter := {lb(a['sharedKeyGetter'])}, "
               f"rejectsExpression := {lb(a['rejectsExpression'])} }}\n")
    out.append("/-- `CommonSubexpression`: fields, the default scope, what `__post_init__` makes of "
               "`scope=None` -/\n"
               "def c12CtorTable : C12CtorTable :=\n"
               f"  {{ fields := {lean_strs(c['fields'])}, scopeDefault := {q(c['scopeDefault'])}, "
               f"noneScopeBecomes := {lean_opt(c['noneScopeBecomes'])} }}\n")
    out.append("/-- `wrap_in_cse(expr, prefix=None)` as a decision tree -/\n"
               f"def c12WrapTree : C12WTree :=\n  {lean_wtree(t['wrap'])}\n")
    out.append("/-- `make_common_subexpression(field, prefix=None, scope=None)` as a decision tree; "
               "the\ncomponentwise branches (multivectors, object arrays) are recognised, not read -/\n"
               f"def c12MakeTree : C12WTree :=\n  {lean_wtree(t['make'])}\n")
    out.append("/-- `CSEWalkMapper` (pymbolic/mapper/cse_tagger.py) -/\n"
               f"def c12HistTable : C12CountTable :=\n  {lean_counter(t['hist'])}\n")
    out.append("/-- `CSETagMapper` (pymbolic/mapper/cse_tagger.py) -/\n"
               f"def c12TagTable : C12MapTable :=\n  {lean_rebuilder(t['tag'])}\n")
    out.append("end PV.Generated\n")
    return "\n".join(out)


def extract_cse(ctx=None):
    from .traversal import extract_traversal
    extract_traversal(ctx)        # `c04WalkTable` / `c04IdentityTable` / `c04Classes` of the same tree
    t = tables(ctx)
    write_if_changed(os.path.join(LEAN, "PV", "Generated", "Cse.lean"), render(t))
    return t

# }}}


if __name__ == "__main__":
    print(render(tables()))
