"""T-gen for C04 (dispatch code): regenerate lean/PV/Generated/Dispatch.lean from the LIVE source of
`Mapper.__call__` and `Mapper.rec_fallback` (pymbolic/mapper/__init__.py of the tree under test).

The two functions are read STATEMENT BY STATEMENT into the statement language `DStmt` of
lean/PV/Model/DispatchTable.lean:

    method_name = getattr(expr, "mapper_method", None)        getName .expr
    method_name = getattr(cls, "mapper_method", None)         getName .cls
    method = getattr(self, method_name, None)                 getMethod
    result = method(expr, *args, **kwargs)                    callAssign
    return result                                             returnResult
    return method(expr, *args, **kwargs)                      returnCall
    return self.handle_unsupported_expression(expr, *args, **kwargs)      returnHook
    return self.map_foreign(expr, *args, **kwargs)            returnForeign
    if <v> is not None: / if <v>: / if isinstance(expr, primitives.Expression):   ifS
    for cls in type(expr).__mro__[k:]: ... else: ...          forMro k

Anything else — another statement kind, another local, a module-level name other than
`primitives`, a call that does not pass `(expr, *args, **kwargs)` on unchanged, a `global` /
`nonlocal`, a decorator, a memo table of any sort — is an `ExtractError`: the check reports a
broken obligation.  (The language cannot express state that survives a call, so "dispatch keeps no
state between calls / mappers" is a property of every table this reader can produce.)

`Mapper.map_foreign` is read TEST BY TEST into `C04ForeignSource` (lean/PV/Model/ForeignTable.lean):

    isinstance(expr, primitives.G)       constLive      `primitives` IS pymbolic.primitives and G the
                                                        global the register functions rebind: looked
                                                        up through the module when the mapper is called
    primitives.is_constant(expr)         constLive      (reads G in its own module, at call time)
    isinstance(expr, <module-level name / attribute of another module holding a tuple of number
                      classes>)          constCaptured  a value made when the module was imported
    for C, M in TABLE: if isinstance(expr, C): return getattr(self, M)(expr, *args, **kwargs)
                                         the rows of the module-level literal TABLE; a
                                         `primitives.G` inside it is constCaptured as well
    is_numpy_array(expr)                 numpyArray     (the function's body is read)
    isinstance(expr, list | tuple)       builtinList | builtinTuple

each branch `return self.<handler>(expr, *args, **kwargs)`, the final `raise <Exception>(…)`; and
`register_constant_class` / `unregister_constant_class` / `is_constant` of pymbolic/primitives.py
statement by statement (`global G; G += (class_,)`, `global G; tmp = list(G); tmp.remove(class_);
G = tuple(tmp)`, `return isinstance(value, G)` — ONE global, no other function rebinding it).

Also recorded: `Mapper.rec is Mapper.__call__`, which classes of `pymbolic.mapper` define
`__call__` / `rec` / `rec_fallback` themselves, and the body of `combine` of `CombineMapper` and
`Collector` (the fold step of the stock combine traversals; the same reader as C09's,
`extract/analysis.py: read_combine_fn`, extended by the `raise NotImplementedError` stub).
"""
from __future__ import annotations

import ast
import inspect
import os

from harness.leanio import LEAN

from .classes import ExtractError
from .prec import write_if_changed
from .traversal import _body, _fn_ast, _name, lb, q

LOCALS = {"method_name": "methodName", "method": "method"}


def _fn(cls, name):
    what = f"{cls.__name__}.{name}"
    fn = cls.__dict__.get(name)
    if not inspect.isfunction(fn):
        raise ExtractError(f"{what}: not a plain function defined in the class body")
    if getattr(fn, "__wrapped__", None) is not None:
        raise ExtractError(f"{what}: a wrapper around another function")
    if fn.__closure__:
        raise ExtractError(f"{what}: a closure")
    node = _fn_ast(fn, what)
    if node.decorator_list:
        raise ExtractError(f"{what}: decorated ({ast.unparse(node.decorator_list[0])})")
    return fn, node, what


def _sig_ok(node: ast.FunctionDef):
    a = node.args
    return ([x.arg for x in a.args] == ["self", "expr"] and a.vararg is not None
            and a.vararg.arg == "args" and a.kwarg is not None and a.kwarg.arg == "kwargs"
            and not a.kwonlyargs and not a.posonlyargs and not a.defaults and not a.kw_defaults)


def _is_getattr_mm(v, of):
    """`getattr(<of>, "mapper_method", None)`"""
    return (isinstance(v, ast.Call) and _name(v.func, "getattr") and not v.keywords
            and len(v.args) == 3 and _name(v.args[0], of)
            and isinstance(v.args[1], ast.Constant) and v.args[1].value == "mapper_method"
            and isinstance(v.args[2], ast.Constant) and v.args[2].value is None)


def _passes_on(call: ast.Call):
    """arguments are exactly `(expr, *args, **kwargs)`"""
    return (len(call.args) == 2 and _name(call.args[0], "expr")
            and isinstance(call.args[1], ast.Starred) and _name(call.args[1].value, "args")
            and len(call.keywords) == 1 and call.keywords[0].arg is None
            and _name(call.keywords[0].value, "kwargs"))


def _method_call(v):
    """`method(expr, *args, **kwargs)`"""
    return isinstance(v, ast.Call) and _name(v.func, "method") and _passes_on(v)


def _self_call(v, attr):
    return (isinstance(v, ast.Call) and isinstance(v.func, ast.Attribute)
            and _name(v.func.value, "self") and v.func.attr == attr and _passes_on(v))


def read_cond(t, what, fn):
    src = ast.unparse(t)
    if isinstance(t, ast.Name) and t.id in LOCALS:
        return ("truthy", LOCALS[t.id])
    if (isinstance(t, ast.Compare) and len(t.ops) == 1 and isinstance(t.ops[0], ast.IsNot)
            and isinstance(t.left, ast.Name) and t.left.id in LOCALS
            and isinstance(t.comparators[0], ast.Constant) and t.comparators[0].value is None):
        return ("isNotNone", LOCALS[t.left.id])
    if src == "isinstance(expr, primitives.Expression)":
        import pymbolic.primitives as prim
        if fn.__globals__.get("primitives") is not prim or "isinstance" in fn.__globals__:
            raise ExtractError(f"{what}: `primitives` / `isinstance` are not the standard ones")
        return ("isExpression",)
    raise ExtractError(f"{what}: unreadable condition `{src}`")


def read_stmt(s, what, fn, in_loop):
    src = ast.unparse(s).split("\n")[0][:100]
    if isinstance(s, ast.Assign) and len(s.targets) == 1 and isinstance(s.targets[0], ast.Name):
        tgt = s.targets[0].id
        if tgt == "method_name" and _is_getattr_mm(s.value, "expr"):
            return ("getName", "expr")
        if tgt == "method_name" and _is_getattr_mm(s.value, "cls"):
            if not in_loop:
                raise ExtractError(f"{what}: `cls` read outside the MRO loop: `{src}`")
            return ("getName", "cls")
        if (tgt == "method" and isinstance(s.value, ast.Call) and _name(s.value.func, "getattr")
                and not s.value.keywords and len(s.value.args) == 3
                and _name(s.value.args[0], "self") and _name(s.value.args[1], "method_name")
                and isinstance(s.value.args[2], ast.Constant) and s.value.args[2].value is None):
            return ("getMethod",)
        if tgt == "result" and _method_call(s.value):
            return ("callAssign",)
        raise ExtractError(f"{what}: unreadable assignment `{src}`")
    if isinstance(s, ast.Return) and s.value is not None:
        v = s.value
        if _name(v, "result"):
            return ("returnResult",)
        if _method_call(v):
            return ("returnCall",)
        if _self_call(v, "handle_unsupported_expression"):
            return ("returnHook",)
        if _self_call(v, "map_foreign"):
            return ("returnForeign",)
        raise ExtractError(f"{what}: unreadable return `{src}`")
    if isinstance(s, ast.If):
        return ("ifS", read_cond(s.test, what, fn),
                read_block(s.body, what, fn, in_loop), read_block(s.orelse, what, fn, in_loop))
    if isinstance(s, ast.For):
        it = s.iter
        ok = (_name(s.target, "cls") and isinstance(it, ast.Subscript)
              and ast.unparse(it.value) == "type(expr).__mro__"
              and isinstance(it.slice, ast.Slice) and it.slice.upper is None
              and it.slice.step is None
              and (it.slice.lower is None
                   or (isinstance(it.slice.lower, ast.Constant)
                       and type(it.slice.lower.value) is int and it.slice.lower.value >= 0)))
        if not ok or in_loop or s.type_comment:
            raise ExtractError(f"{what}: unreadable loop `{src}`")
        if "type" in fn.__globals__:
            raise ExtractError(f"{what}: `type` is shadowed in the module")
        skip = 0 if it.slice.lower is None else it.slice.lower.value
        return ("forMro", skip, read_block(s.body, what, fn, True),
                read_block(s.orelse, what, fn, False))
    raise ExtractError(f"{what}: unknown statement `{src}`")


def read_block(stmts, what, fn, in_loop):
    return [read_stmt(s, what, fn, in_loop) for s in stmts]


def read_routine(cls, name):
    fn, node, what = _fn(cls, name)
    for g in ("getattr",):
        if g in fn.__globals__:
            raise ExtractError(f"{what}: `{g}` is shadowed in the module")
    body = [s for i, s in enumerate(node.body)
            if not (i == 0 and isinstance(s, ast.Expr) and isinstance(s.value, ast.Constant)
                    and isinstance(s.value.value, str))]
    return _sig_ok(node), read_block(body, what, fn, False)


def read_combine(cls):
    """`combine` as defined in the body of `cls` -> 'notImplemented' | 'reduceOr' | 'sum'"""
    from .analysis import read_combine_fn
    fn, node, what = _fn(cls, "combine")
    body = _body(node)
    if len(body) == 1 and ast.unparse(body[0]) in ("raise NotImplementedError",
                                                   "raise NotImplementedError()"):
        if [a.arg for a in node.args.args] != ["self", "values"]:
            raise ExtractError(f"{what}: signature is not (self, values)")
        return "notImplemented"
    owner, kind = read_combine_fn(cls)
    if owner != cls.__name__:
        raise ExtractError(f"{what}: resolved on {owner}")
    return kind


# {{{ `Mapper.map_foreign` and the run-time registry of number classes

REGISTRY_FUNCS = ("register_constant_class", "unregister_constant_class", "is_constant")


def _plain_fn(fn, what):
    """a module-level function read from its own source: no wrapper, no closure, no decorator"""
    if not inspect.isfunction(fn):
        raise ExtractError(f"{what}: not a plain function")
    if getattr(fn, "__wrapped__", None) is not None or fn.__closure__:
        raise ExtractError(f"{what}: a wrapper / closure")
    node = _fn_ast(fn, what)
    if node.decorator_list:
        raise ExtractError(f"{what}: decorated ({ast.unparse(node.decorator_list[0])})")
    return node


def _global_decl(body, what):
    """leading `global G` -> (G, remaining statements)"""
    if not body or not isinstance(body[0], ast.Global) or len(body[0].names) != 1:
        raise ExtractError(f"{what}: does not start with `global <one name>`")
    return body[0].names[0], body[1:]


def read_registry_fns():
    """`register_constant_class`, `unregister_constant_class`, `is_constant` of pymbolic.primitives,
    statement by statement -> (global name, RegBody of each).  The three must be functions OF
    that module (their globals are the module's namespace: the `global` statement rebinds the
    attribute `pymbolic.primitives.<G>`)."""
    import pymbolic.primitives as prim
    out = {}
    for name in REGISTRY_FUNCS:
        what = f"primitives.{name}"
        fn = vars(prim).get(name)
        node = _plain_fn(fn, what)
        if fn.__globals__ is not vars(prim):
            raise ExtractError(f"{what}: not defined in pymbolic.primitives itself")
        for g in ("isinstance", "list", "tuple"):
            if g in fn.__globals__:
                raise ExtractError(f"{what}: `{g}` is shadowed in the module")
        a = node.args
        if (len(a.args) != 1 or a.vararg or a.kwarg or a.kwonlyargs or a.posonlyargs or a.defaults):
            raise ExtractError(f"{what}: signature is not one positional parameter")
        par = a.args[0].arg
        body = _body(node)
        src = [ast.unparse(x) for x in body]
        if name == "register_constant_class":
            g, rest = _global_decl(body, what)
            if [ast.unparse(x) for x in rest] != [f"{g} += ({par},)"]:
                raise ExtractError(f"{what}: body is not `{g} += ({par},)`: {src}")
            out[name] = ("appendOne", g)
        elif name == "unregister_constant_class":
            g, rest = _global_decl(body, what)
            if (len(rest) != 3 or not isinstance(rest[0], ast.Assign)
                    or not _name(rest[0].targets[0])):
                raise ExtractError(f"{what}: unreadable body {src}")
            t = rest[0].targets[0].id
            if t == g:
                raise ExtractError(f"{what}: the temporary is the registry itself")
            if [ast.unparse(x) for x in rest] != [f"{t} = list({g})", f"{t}.remove({par})",
                                                  f"{g} = tuple({t})"]:
                raise ExtractError(f"{what}: body is not list / remove / tuple: {src}")
            out[name] = ("removeFirst", g)
        else:
            if len(body) != 1 or not isinstance(body[0], ast.Return) or body[0].value is None:
                raise ExtractError(f"{what}: body is not one return: {src}")
            v = body[0].value
            if not (isinstance(v, ast.Call) and _name(v.func, "isinstance") and not v.keywords
                    and len(v.args) == 2 and _name(v.args[0], par) and _name(v.args[1])):
                raise ExtractError(f"{what}: does not return isinstance({par}, <global>): {src}")
            g = v.args[1].id
            if g in (par,) or g not in fn.__globals__:
                raise ExtractError(f"{what}: `{g}` is not a module global")
            out[name] = ("isinstanceOf", g)
    gs = {g for _k, g in out.values()}
    if len(gs) != 1:
        raise ExtractError(f"the registry functions do not agree on ONE module global: {sorted(gs)}")
    g = gs.pop()
    # nothing else in the module rebinds the global after import (assignments at module level
    # that build the initial tuple are fine: they run once, before any mapper exists)
    tree = ast.parse(inspect.getsource(prim))
    for node in ast.walk(tree):
        if isinstance(node, (ast.FunctionDef, ast.AsyncFunctionDef)) and node.name not in REGISTRY_FUNCS:
            for sub in ast.walk(node):
                if isinstance(sub, ast.Global) and g in sub.names:
                    raise ExtractError(f"primitives.{node.name} also declares `global {g}`")
    return g, out


def _numpy_array_fn(fn, what):
    """`def is_numpy_array(val): return isinstance(val, numpy.ndarray)` with the real numpy"""
    node = _plain_fn(fn, what)
    a = node.args
    body = _body(node)
    if (len(a.args) != 1 or a.vararg or a.kwarg or a.kwonlyargs or a.defaults or len(body) != 1
            or ast.unparse(body[0]) != f"return isinstance({a.args[0].arg}, numpy.ndarray)"):
        raise ExtractError(f"{what}: body is not `return isinstance(<param>, numpy.ndarray)`")
    import numpy
    if fn.__globals__.get("numpy") is not numpy or "isinstance" in fn.__globals__:
        raise ExtractError(f"{what}: `numpy` / `isinstance` are not the standard ones")
    return "numpyArray"


def _classes_value_kind(val, what, src):
    """a VALUE found where the source names no module attribute: what it is a copy of"""
    import numpy
    import pymbolic.primitives as prim
    if val is list or val == (list,):
        return "builtinList"
    if val is tuple or val == (tuple,):
        return "builtinTuple"
    if val is numpy.ndarray or val == (numpy.ndarray,):
        return "numpyArray"
    if isinstance(val, tuple) and val and all(isinstance(c, type) for c in val) and (
            val is prim.VALID_CONSTANT_CLASSES or int in val or float in val):
        return "constCaptured"
    raise ExtractError(f"{what}: cannot tell what `{src}` holds")


def _classes_expr(c, fn, g, what, at_import):
    """the second argument of an `isinstance` test -> FTest name.  `at_import`: the expression is
    evaluated when the module is imported (it sits in a module-level table), not when the mapper
    is called."""
    import numpy
    import pymbolic.primitives as prim
    src = ast.unparse(c)
    glb = fn.__globals__
    if isinstance(c, ast.Tuple) and len(c.elts) == 1:
        return _classes_expr(c.elts[0], fn, g, what, at_import)
    if isinstance(c, ast.Name):
        if c.id in ("list", "tuple") and c.id not in glb:
            return "builtinList" if c.id == "list" else "builtinTuple"
        if c.id in glb:
            # a global of the mapper module: whatever it holds was put there at import time
            kind = _classes_value_kind(glb[c.id], what, src)
            return kind
        raise ExtractError(f"{what}: unknown name `{src}`")
    if isinstance(c, ast.Attribute) and isinstance(c.value, ast.Name):
        mod = glb.get(c.value.id)
        if mod is prim and c.attr == g:
            return "constCaptured" if at_import else "constLive"
        if mod is numpy and c.attr == "ndarray":
            return "numpyArray"
        if inspect.ismodule(mod) and hasattr(mod, c.attr):
            kind = _classes_value_kind(getattr(mod, c.attr), what, src)
            # an attribute of ANOTHER module than the one whose global is rebound: a copy
            return kind
    raise ExtractError(f"{what}: unreadable class expression `{src}`")


def read_foreign_test(t, fn, g, what):
    import pymbolic.primitives as prim
    src = ast.unparse(t)
    glb = fn.__globals__
    if not (isinstance(t, ast.Call) and not t.keywords and t.args and _name(t.args[0], "expr")):
        raise ExtractError(f"{what}: unreadable test `{src}`")
    f = t.func
    if _name(f, "isinstance") and len(t.args) == 2:
        if "isinstance" in glb:
            raise ExtractError(f"{what}: `isinstance` is shadowed in the module")
        return _classes_expr(t.args[1], fn, g, what, False)
    if len(t.args) == 1:
        target = None
        if isinstance(f, ast.Name):
            target = glb.get(f.id)
        elif isinstance(f, ast.Attribute) and isinstance(f.value, ast.Name) \
                and inspect.ismodule(glb.get(f.value.id)):
            target = getattr(glb[f.value.id], f.attr, None)
        if target is not None and target is vars(prim).get("is_constant"):
            return "constLive"       # reads the global in its own module, at call time
        if inspect.isfunction(target):
            return _numpy_array_fn(target, f"{what}: {src}")
    raise ExtractError(f"{what}: unreadable test `{src}`")


def _foreign_branch(stmts, what):
    """`return self.<handler>(expr, *args, **kwargs)` -> handler"""
    if len(stmts) == 1 and isinstance(stmts[0], ast.Return):
        v = stmts[0].value
        if (isinstance(v, ast.Call) and isinstance(v.func, ast.Attribute)
                and _name(v.func.value, "self") and _passes_on(v)):
            return v.func.attr
    raise ExtractError(f"{what}: branch is not `return self.<handler>(expr, *args, **kwargs)`: "
                       f"`{ast.unparse(stmts[0]) if stmts else ''}`")


def _raise_name(stmts, what):
    if len(stmts) == 1 and isinstance(stmts[0], ast.Raise) and stmts[0].exc is not None:
        e = stmts[0].exc
        e = e.func if isinstance(e, ast.Call) else e
        if isinstance(e, ast.Name):
            return e.id
    raise ExtractError(f"{what}: does not end in `raise <Exception>(…)`")


def _module_level_table(fn, name, g, what):
    """a module-level tuple `NAME = ((<classes>, "<handler>"), …)` of the mapper module: the
    class expressions are evaluated ONCE, when the module is imported"""
    mod = inspect.getmodule(fn)
    tree = ast.parse(inspect.getsource(mod))
    defs = []
    for node in ast.walk(tree):
        tgts = []
        if isinstance(node, ast.Assign):
            tgts = node.targets
        elif isinstance(node, (ast.AnnAssign, ast.AugAssign)):
            tgts = [node.target]
        if any(_name(t, name) for t in tgts):
            defs.append(node)
    if len(defs) != 1 or defs[0] not in tree.body or isinstance(defs[0], ast.AugAssign) \
            or defs[0].value is None:
        raise ExtractError(f"{what}: `{name}` is not assigned exactly once at module level")
    val = defs[0].value
    if not isinstance(val, (ast.Tuple, ast.List)):
        raise ExtractError(f"{what}: `{name}` is not a literal table")
    rows = []
    for row in val.elts:
        if not (isinstance(row, (ast.Tuple, ast.List)) and len(row.elts) == 2
                and isinstance(row.elts[1], ast.Constant) and isinstance(row.elts[1].value, str)):
            raise ExtractError(f"{what}: unreadable row `{ast.unparse(row)}` of `{name}`")
        rows.append((_classes_expr(row.elts[0], fn, g, f"{what}: {name}", True), row.elts[1].value))
    return rows


def read_map_foreign(cls, g):
    """`map_foreign` -> (signature ok, [(FTest, handler)], exception of the final else).
    Two shapes are read: the `if isinstance(...) … elif … else: raise` chain, and a loop
    `for C, M in <module-level table>: if isinstance(expr, C): return getattr(self, M)(expr, …)`
    followed by the `raise` (the table's class expressions are then import-time values)."""
    fn, node, what = _fn(cls, "map_foreign")
    body = _body(node)
    if "getattr" in fn.__globals__:
        raise ExtractError(f"{what}: `getattr` is shadowed in the module")
    if len(body) == 1 and isinstance(body[0], ast.If):
        chain = []
        st = body[0]
        while True:
            chain.append((read_foreign_test(st.test, fn, g, what), _foreign_branch(st.body, what)))
            if len(st.orelse) == 1 and isinstance(st.orelse[0], ast.If):
                st = st.orelse[0]
                continue
            return _sig_ok(node), chain, _raise_name(st.orelse, what)
    if len(body) == 2 and isinstance(body[0], ast.For) and not body[0].orelse:
        loop = body[0]
        tgt = loop.target
        if (isinstance(tgt, ast.Tuple) and len(tgt.elts) == 2 and all(_name(e) for e in tgt.elts)
                and _name(loop.iter) and len(loop.body) == 1 and isinstance(loop.body[0], ast.If)
                and not loop.body[0].orelse):
            cv, mv = tgt.elts[0].id, tgt.elts[1].id
            test = loop.body[0]
            ret = test.body[0] if len(test.body) == 1 else None
            if (ast.unparse(test.test) == f"isinstance(expr, {cv})" and isinstance(ret, ast.Return)
                    and isinstance(ret.value, ast.Call) and _passes_on(ret.value)
                    and ast.unparse(ret.value.func) == f"getattr(self, {mv})"
                    and loop.iter.id in fn.__globals__):
                rows = _module_level_table(fn, loop.iter.id, g, what)
                return _sig_ok(node), rows, _raise_name(body[1:], what)
    raise ExtractError(f"{what}: neither one if/elif chain nor a loop over a module-level table: "
                       f"`{ast.unparse(body[0]).splitlines()[0][:100] if body else ''}`")


SCANNED_MODULES = ("analysis", "c_code", "coefficient", "collector", "constant_converter",
                   "constant_folder", "cse_tagger", "dependency", "differentiator", "distributor",
                   "evaluator", "flattener", "flop_counter", "graphviz", "optimize",
                   "persistent_hash", "stringifier", "substitutor", "unifier")


def foreign_overriders():
    """classes of pymbolic.mapper, its submodules and pymbolic.compiler that define `map_foreign`
    in their own body"""
    import importlib
    mods = []
    for name in ["pymbolic.mapper"] + [f"pymbolic.mapper.{m}" for m in SCANNED_MODULES] \
            + ["pymbolic.compiler"]:
        try:
            mods.append(importlib.import_module(name))
        except ImportError:
            continue
    out = set()
    for mod in mods:
        for name, k in vars(mod).items():
            if inspect.isclass(k) and k.__module__ == mod.__name__ and "map_foreign" in k.__dict__:
                out.add(k.__name__)
    return sorted(out)


def foreign_tables():
    import pymbolic.mapper as pm
    g, fns = read_registry_fns()
    sig, chain, exc = read_map_foreign(pm.Mapper, g)
    return dict(sig=sig, chain=chain, elseRaises=exc, registryGlobal=g,
                register=fns["register_constant_class"],
                unregister=fns["unregister_constant_class"],
                isConstant=fns["is_constant"], overriders=foreign_overriders())

# }}}


def tables(ctx=None):
    import pymbolic.mapper as pm
    call_sig, call = read_routine(pm.Mapper, "__call__")
    fb_sig, fallback = read_routine(pm.Mapper, "rec_fallback")
    overriders = []
    for name, k in sorted(vars(pm).items()):
        if inspect.isclass(k) and k.__module__ == pm.__name__ and name == k.__name__:
            for attr in ("__call__", "rec", "rec_fallback"):
                if attr in k.__dict__:
                    overriders.append((k.__name__, attr))
    return dict(callSig=call_sig, call=call, fallbackSig=fb_sig, fallback=fallback,
                recIsCall=pm.Mapper.__dict__.get("rec") is pm.Mapper.__dict__["__call__"],
                overriders=sorted(overriders),
                combineMapperCombine=read_combine(pm.CombineMapper),
                collectorCombine=read_combine(pm.Collector),
                cachedCollectorMro=[c.__name__ for c in pm.CachedCollector.__mro__[:-1]],
                cachedCombineMro=[c.__name__ for c in pm.CachedCombineMapper.__mro__[:-1]],
                foreign=foreign_tables())


# {{{ Lean output

def lean_cond(c):
    if c[0] == "isExpression":
        return ".isExpression"
    return f"(.{c[0]} .{c[1]})"


def lean_stmt(s, ind):
    k = s[0]
    pad = " " * ind
    if k == "getName":
        return f"{pad}.getName .{s[1]}"
    if k in ("getMethod", "callAssign", "returnResult", "returnCall", "returnHook", "returnForeign"):
        return f"{pad}.{k}"
    if k == "ifS":
        return (f"{pad}.ifS {lean_cond(s[1])}\n{lean_block(s[2], ind + 2)}\n{lean_block(s[3], ind + 2)}")
    if k == "forMro":
        return f"{pad}.forMro {s[1]}\n{lean_block(s[2], ind + 2)}\n{lean_block(s[3], ind + 2)}"
    raise ExtractError(f"unknown statement kind {k}")


def lean_block(b, ind):
    pad = " " * ind
    if not b:
        return f"{pad}[]"
    return f"{pad}[\n" + ",\n".join(lean_stmt(s, ind + 1) for s in b) + f"\n{pad}]"


def render(t):
    ov = "[" + ", ".join(f"({q(a)}, {q(b)})" for a, b in t["overriders"]) + "]"
    strs = lambda xs: "[" + ", ".join(q(x) for x in xs) + "]"      # noqa: E731
    f = t["foreign"]
    return "\n".join([
        "import PV.Model.DispatchTable",
        "import PV.Model.ForeignTable",
        "/- GENERATED by extract/dispatch.py from the live source of pymbolic/mapper/__init__.py",
        "   (`Mapper.__call__`, `Mapper.rec_fallback`, `Mapper.map_foreign`, `CombineMapper.combine`,",
        "   `Collector.combine`) and of pymbolic/primitives.py (`register_constant_class`,",
        "   `unregister_constant_class`, `is_constant`) — do not edit. -/",
        "namespace PV.Generated", "",
        "/-- `Mapper.__call__` / `Mapper.rec_fallback`, statement by statement -/",
        "def c04DispatchSource : C04DispatchSource :=",
        f"  {{ callSig := {lb(t['callSig'])},",
        "    call :=\n" + lean_block(t["call"], 6) + ",",
        f"    fallbackSig := {lb(t['fallbackSig'])},",
        "    fallback :=\n" + lean_block(t["fallback"], 6) + ",",
        f"    recIsCall := {lb(t['recIsCall'])},",
        f"    overriders := {ov} }}", "",
        "/-- `CombineMapper.combine` -/",
        f"def c04CombineMapperCombine : C04CombineBody := .{t['combineMapperCombine']}", "",
        "/-- `Collector.combine` -/",
        f"def c04CollectorCombine : C04CombineBody := .{t['collectorCombine']}", "",
        "/-- class names along the MRO of `CachedCollector` / `CachedCombineMapper` (without `object`) -/",
        f"def c04CachedCollectorMro : List String := {strs(t['cachedCollectorMro'])}",
        f"def c04CachedCombineMro : List String := {strs(t['cachedCombineMro'])}", "",
        "/-- `Mapper.map_foreign` test by test (what each test refers to), and the functions of",
        "`pymbolic.primitives` that rebind the registry global -/",
        "def c04ForeignSource : C04ForeignSource :=",
        f"  {{ sig := {lb(f['sig'])},",
        "    chain := [" + ", ".join(f"(.{k}, {q(h)})" for k, h in f["chain"]) + "],",
        f"    elseRaises := {q(f['elseRaises'])},",
        f"    registryGlobal := {q(f['registryGlobal'])},",
        f"    register := .{f['register'][0]} {q(f['register'][1])},",
        f"    unregister := .{f['unregister'][0]} {q(f['unregister'][1])},",
        f"    isConstant := .{f['isConstant'][0]} {q(f['isConstant'][1])},",
        f"    overriders := {strs(f['overriders'])} }}", "",
        "end PV.Generated", ""])


def extract_dispatch(ctx=None):
    t = tables(ctx)
    write_if_changed(os.path.join(LEAN, "PV", "Generated", "Dispatch.lean"), render(t))
    return t

# }}}


if __name__ == "__main__":
    import pprint
    pprint.pprint(extract_dispatch(), width=120)
