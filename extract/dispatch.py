"""T-gen for C04 (dispatch code): regenerate lean/PV/Generated/Dispatch.lean from the LIVE source of
`Mapper.__call__` and `Mapper.rec_fallback` (pymbolic/mapper/__init__.py of the tree under test).

The two functions are read STATEMENT BY STATEMENT into the statement language `DStmt` of
lean/PV/Model/DispatchTable.lean:

    method_name = getattr(expr, "mapper_method", None)        getName .expr
    method_name = getattr(cls, "mapper_method", None)         getName .cls
    method = getattr(self, method_name, None)                 getMethod
    result = method(expr, *args, **kwargs)                    callAssign
    return result                                             returnResult
    return method(expr, *args, **kwargs)                      returnCall
    return self.handle_unsupported_expression(expr, *args, **kwargs)      returnHook
    return self.map_foreign(expr, *args, **kwargs)            returnForeign
    if <v> is not None: / if <v>: / if isinstance(expr, primitives.Expression):   ifS
    for cls in type(expr).__mro__[k:]: ... else: ...          forMro k

Anything else — another statement kind, another local, a module-level name other than
`primitives`, a call that does not pass `(expr, *args, **kwargs)` on unchanged, a `global` /
`nonlocal`, a decorator, a memo table of any sort — is an `ExtractError`: the check reports a
broken obligation.  (The language cannot express state that survives a call, so "dispatch keeps no
state between calls / mappers" is a property of every table this reader can produce.)

Also recorded: `Mapper.rec is Mapper.__call__`, which classes of `pymbolic.mapper` define
`__call__` / `rec` / `rec_fallback` themselves, and the body of `combine` of `CombineMapper` and
`Collector` (the fold step of the stock combine traversals; the same reader as C09's,
`extract/analysis.py: read_combine_fn`, extended by the `raise NotImplementedError` stub).
"""
from __future__ import annotations

import ast
import inspect
import os

from harness.leanio import LEAN

from .classes import ExtractError
from .prec import write_if_changed
from .traversal import _body, _fn_ast, _name, lb, q

LOCALS = {"method_name": "methodName", "method": "method"}


def _fn(cls, name):
    what = f"{cls.__name__}.{name}"
    fn = cls.__dict__.get(name)
    if not inspect.isfunction(fn):
        raise ExtractError(f"{what}: not a plain function defined in the class body")
    if getattr(fn, "__wrapped__", None) is not None:
        raise ExtractError(f"{what}: a wrapper around another function")
    if fn.__closure__:
        raise ExtractError(f"{what}: a closure")
    node = _fn_ast(fn, what)
    if node.decorator_list:
        raise ExtractError(f"{what}: decorated ({ast.unparse(node.decorator_list[0])})")
    return fn, node, what


def _sig_ok(node: ast.FunctionDef):
    a = node.args
    return ([x.arg for x in a.args] == ["self", "expr"] and a.vararg is not None
            and a.vararg.arg == "args" and a.kwarg is not None and a.kwarg.arg == "kwargs"
            and not a.kwonlyargs and not a.posonlyargs and not a.defaults and not a.kw_defaults)


def _is_getattr_mm(v, of):
    """`getattr(<of>, "mapper_method", None)`"""
    return (isinstance(v, ast.Call) and _name(v.func, "getattr") and not v.keywords
            and len(v.args) == 3 and _name(v.args[0], of)
            and isinstance(v.args[1], ast.Constant) and v.args[1].value == "mapper_method"
            and isinstance(v.args[2], ast.Constant) and v.args[2].value is None)


def _passes_on(call: ast.Call):
    """arguments are exactly `(expr, *args, **kwargs)`"""
    return (len(call.args) == 2 and _name(call.args[0], "expr")
            and isinstance(call.args[1], ast.Starred) and _name(call.args[1].value, "args")
            and len(call.keywords) == 1 and call.keywords[0].arg is None
            and _name(call.keywords[0].value, "kwargs"))


def _method_call(v):
    """`method(expr, *args, **kwargs)`"""
    return isinstance(v, ast.Call) and _name(v.func, "method") and _passes_on(v)


def _self_call(v, attr):
    return (isinstance(v, ast.Call) and isinstance(v.func, ast.Attribute)
            and _name(v.func.value, "self") and v.func.attr == attr and _passes_on(v))


def read_cond(t, what, fn):
    src = ast.unparse(t)
    if isinstance(t, ast.Name) and t.id in LOCALS:
        return ("truthy", LOCALS[t.id])
    if (isinstance(t, ast.Compare) and len(t.ops) == 1 and isinstance(t.ops[0], ast.IsNot)
            and isinstance(t.left, ast.Name) and t.left.id in LOCALS
            and isinstance(t.comparators[0], ast.Constant) and t.comparators[0].value is None):
        return ("isNotNone", LOCALS[t.left.id])
    if src == "isinstance(expr, primitives.Expression)":
        import pymbolic.primitives as prim
        if fn.__globals__.get("primitives") is not prim or "isinstance" in fn.__globals__:
            raise ExtractError(f"{what}: `primitives` / `isinstance` are not the standard ones")
        return ("isExpression",)
    raise ExtractError(f"{what}: unreadable condition `{src}`")


def read_stmt(s, what, fn, in_loop):
    src = ast.unparse(s).split("\n")[0][:100]
    if isinstance(s, ast.Assign) and len(s.targets) == 1 and isinstance(s.targets[0], ast.Name):
        tgt = s.targets[0].id
        if tgt == "method_name" and _is_getattr_mm(s.value, "expr"):
            return ("getName", "expr")
        if tgt == "method_name" and _is_getattr_mm(s.value, "cls"):
            if not in_loop:
                raise ExtractError(f"{what}: `cls` read outside the MRO loop: `{src}`")
            return ("getName", "cls")
        if (tgt == "method" and isinstance(s.value, ast.Call) and _name(s.value.func, "getattr")
                and not s.value.keywords and len(s.value.args) == 3
                and _name(s.value.args[0], "self") and _name(s.value.args[1], "method_name")
                and isinstance(s.value.args[2], ast.Constant) and s.value.args[2].value is None):
            return ("getMethod",)
        if tgt == "result" and _method_call(s.value):
            return ("callAssign",)
        raise ExtractError(f"{what}: unreadable assignment `{src}`")
    if isinstance(s, ast.Return) and s.value is not None:
        v = s.value
        if _name(v, "result"):
            return ("returnResult",)
        if _method_call(v):
            return ("returnCall",)
        if _self_call(v, "handle_unsupported_expression"):
            return ("returnHook",)
        if _self_call(v, "map_foreign"):
            return ("returnForeign",)
        raise ExtractError(f"{what}: unreadable return `{src}`")
    if isinstance(s, ast.If):
        return ("ifS", read_cond(s.test, what, fn),
                read_block(s.body, what, fn, in_loop), read_block(s.orelse, what, fn, in_loop))
    if isinstance(s, ast.For):
        it = s.iter
        ok = (_name(s.target, "cls") and isinstance(it, ast.Subscript)
              and ast.unparse(it.value) == "type(expr).__mro__"
              and isinstance(it.slice, ast.Slice) and it.slice.upper is None
              and it.slice.step is None
              and (it.slice.lower is None
                   or (isinstance(it.slice.lower, ast.Constant)
                       and type(it.slice.lower.value) is int and it.slice.lower.value >= 0)))
        if not ok or in_loop or s.type_comment:
            raise ExtractError(f"{what}: unreadable loop `{src}`")
        if "type" in fn.__globals__:
            raise ExtractError(f"{what}: `type` is shadowed in the module")
        skip = 0 if it.slice.lower is None else it.slice.lower.value
        return ("forMro", skip, read_block(s.body, what, fn, True),
                read_block(s.orelse, what, fn, False))
    raise ExtractError(f"{what}: unknown statement `{src}`")


def read_block(stmts, what, fn, in_loop):
    return [read_stmt(s, what, fn, in_loop) for s in stmts]


def read_routine(cls, name):
    fn, node, what = _fn(cls, name)
    for g in ("getattr",):
        if g in fn.__globals__:
            raise ExtractError(f"{what}: `{g}` is shadowed in the module")
    body = [s for i, s in enumerate(node.body)
            if not (i == 0 and isinstance(s, ast.Expr) and isinstance(s.value, ast.Constant)
                    and isinstance(s.value.value, str))]
    return _sig_ok(node), read_block(body, what, fn, False)


def read_combine(cls):
    """`combine` as defined in the body of `cls` -> 'notImplemented' | 'reduceOr' | 'sum'"""
    from .analysis import read_combine_fn
    fn, node, what = _fn(cls, "combine")
    body = _body(node)
    if len(body) == 1 and ast.unparse(body[0]) in ("raise NotImplementedError",
                                                   "raise NotImplementedError()"):
        if [a.arg for a in node.args.args] != ["self", "values"]:
            raise ExtractError(f"{what}: signature is not (self, values)")
        return "notImplemented"
    owner, kind = read_combine_fn(cls)
    if owner != cls.__name__:
        raise ExtractError(f"{what}: resolved on {owner}")
    return kind


def tables(ctx=None):
    import pymbolic.mapper as pm
    call_sig, call = read_routine(pm.Mapper, "__call__")
    fb_sig, fallback = read_routine(pm.Mapper, "rec_fallback")
    overriders = []
    for name, k in sorted(vars(pm).items()):
        if inspect.isclass(k) and k.__module__ == pm.__name__ and name == k.__name__:
            for attr in ("__call__", "rec", "rec_fallback"):
                if attr in k.__dict__:
                    overriders.append((k.__name__, attr))
    return dict(callSig=call_sig, call=call, fallbackSig=fb_sig, fallback=fallback,
                recIsCall=pm.Mapper.__dict__.get("rec") is pm.Mapper.__dict__["__call__"],
                overriders=sorted(overriders),
                combineMapperCombine=read_combine(pm.CombineMapper),
                collectorCombine=read_combine(pm.Collector),
                cachedCollectorMro=[c.__name__ for c in pm.CachedCollector.__mro__[:-1]],
                cachedCombineMro=[c.__name__ for c in pm.CachedCombineMapper.__mro__[:-1]])


# {{{ Lean output

def lean_cond(c):
    if c[0] == "isExpression":
        return ".isExpression"
    return f"(.{c[0]} .{c[1]})"


def lean_stmt(s, ind):
    k = s[0]
    pad = " " * ind
    if k == "getName":
        return f"{pad}.getName .{s[1]}"
    if k in ("getMethod", "callAssign", "returnResult", "returnCall", "returnHook", "returnForeign"):
        return f"{pad}.{k}"
    if k == "ifS":
        return (f"{pad}.ifS {lean_cond(s[1])}\n{lean_block(s[2], ind + 2)}\n{lean_block(s[3], ind + 2)}")
    if k == "forMro":
        return f"{pad}.forMro {s[1]}\n{lean_block(s[2], ind + 2)}\n{lean_block(s[3], ind + 2)}"
    raise ExtractError(f"unknown statement kind {k}")


def lean_block(b, ind):
    pad = " " * ind
    if not b:
        return f"{pad}[]"
    return f"{pad}[\n" + ",\n".join(lean_stmt(s, ind + 1) for s in b) + f"\n{pad}]"


def render(t):
    ov = "[" + ", ".join(f"({q(a)}, {q(b)})" for a, b in t["overriders"]) + "]"
    strs = lambda xs: "[" + ", ".join(q(x) for x in xs) + "]"      # noqa: E731
    return "\n".join([
        "import PV.Model.DispatchTable",
        "/- GENERATED by extract/dispatch.py from the live source of pymbolic/mapper/__init__.py",
        "   (`Mapper.__call__`, `Mapper.rec_fallback`, `CombineMapper.combine`, `Collector.combine`)",
        "   — do not edit. -/",
        "namespace PV.Generated", "",
        "/-- `Mapper.__call__` / `Mapper.rec_fallback`, statement by statement -/",
        "def c04DispatchSource : C04DispatchSource :=",
        f"  {{ callSig := {lb(t['callSig'])},",
        "    call :=\n" + lean_block(t["call"], 6) + ",",
        f"    fallbackSig := {lb(t['fallbackSig'])},",
        "    fallback :=\n" + lean_block(t["fallback"], 6) + ",",
        f"    recIsCall := {lb(t['recIsCall'])},",
        f"    overriders := {ov} }}", "",
        "/-- `CombineMapper.combine` -/",
        f"def c04CombineMapperCombine : C04CombineBody := .{t['combineMapperCombine']}", "",
        "/-- `Collector.combine` -/",
        f"def c04CollectorCombine : C04CombineBody := .{t['collectorCombine']}", "",
        "/-- class names along the MRO of `CachedCollector` / `CachedCombineMapper` (without `object`) -/",
        f"def c04CachedCollectorMro : List String := {strs(t['cachedCollectorMro'])}",
        f"def c04CachedCombineMro : List String := {strs(t['cachedCombineMro'])}", "",
        "end PV.Generated", ""])


def extract_dispatch(ctx=None):
    t = tables(ctx)
    write_if_changed(os.path.join(LEAN, "PV", "Generated", "Dispatch.lean"), render(t))
    return t

# }}}


if __name__ == "__main__":
    import pprint
    pprint.pprint(extract_dispatch(), width=120)
