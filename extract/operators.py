"""T-gen for C03: regenerate lean/PV/Generated/Operators.lean from the LIVE source of the operator
overloads of the working tree of /repo (pymbolic/primitives.py).

What is read, with `inspect` + `ast`, from the module `pymbolic.primitives` that is importable in
this process (it must lie under ctx["repo"]):

  * every arithmetic / shift / bitwise / unary dunder in the `__dict__` of `Expression`, `Sum` and
    `Product` (aliases such as `__truediv__ = __div__` are followed through the function object the
    attribute is bound to), reduced to a decision tree `C03Body` (lean/PV/Model/OpsTable.lean):
    guards in source order — operand-validity test → `NotImplemented`, `assert`, `is_zero(other)`,
    `is_nonzero`, `if self:`, `is_zero(x - 1)`, `isinstance(x, Sum)` … — and for every branch what
    is returned: `self` / `other` / a literal / `-x` / `C((…))` with which operands in which order /
    `C(a, b)` / `quotient(a, b)` / `self.__add__(…)`;
  * the `__bool__` every node class ends up with along its MRO (`Sum`, `Product`,
    `QuotientBase`, `Slice` define one; a class with neither `__bool__` nor `__len__` is always
    true), as a `C03Truth` rule;
  * the bodies of `is_constant`, `is_number`, `is_valid_operand`, `is_arithmetic_expression` as
    Boolean formulas over `isinstance(value, TUPLE)`, and the run-time values of the three class
    tuples; `is_nonzero` / `is_zero` must have exactly the shape `bool(value)` / `not is_nonzero`;
  * the helper `quotient` (its unit-denominator test and final constructor; the `Rational` /
    traits block in between must be literally the known one and is recorded as `outside`);
  * `flattened_sum` / `flattened_product` as a record of the choices their loop makes;
  * the positional constructor parameters of the node classes the bodies build.

Second table (lean/PV/Generated/OperatorsSyntax.lean, `extract_operators_syntax`): the NON-arithmetic
syntax of `Expression` — `__getitem__`, `__call__`, `attr`, the property `a` together with
`_AttributeLookupCreator.__init__ / __getattr__`, `index`, `not_`, `and_`, `or_`, `eq`, `ne`, `le`,
`lt`, `ge`, `gt`, `__abs__`, `__le__`, `__lt__`, `__ge__`, `__gt__`, `__iter__` — as `C03SynBody`
decision trees (lean/PV/Model/OpsSyntaxTable.lean): which test (`isinstance(p, EmptyOK)`,
`p == ()`, `if kwargs`), which constructor with which arguments in which order (the parameter
itself, `p.child`, `args`, `immutabledict(kwargs)`, a string literal, a tuple display), and the
dataclass field lists of the node classes these bodies build.  An override of one of these names
or a `__getattr__` / `__len__` / `__contains__` / `__index__` … hook in `Expression` or a node
class is an error.

What is recorded is what the source SAYS.  Any statement or expression shape this reader does not
know, any arithmetic dunder in another node class, any name that does not refer to the object of
`pymbolic.primitives` it is read as, is an `ExtractError` (reported by the check as a broken
obligation) — never a default.
"""
from __future__ import annotations

import ast
import dataclasses
import inspect
import os
import textwrap

from harness.leanio import LEAN

from .classes import ExtractError
from .prec import write_if_changed

# Python attribute -> constructor of `C03Dunder`
BIN_DUNDERS = {
    "__add__": "add", "__radd__": "radd", "__sub__": "sub", "__rsub__": "rsub",
    "__mul__": "mul", "__rmul__": "rmul", "__truediv__": "truediv", "__rtruediv__": "rtruediv",
    "__floordiv__": "floordiv", "__rfloordiv__": "rfloordiv", "__mod__": "mod", "__rmod__": "rmod",
    "__pow__": "pow", "__rpow__": "rpow", "__lshift__": "lshift", "__rlshift__": "rlshift",
    "__rshift__": "rshift", "__rrshift__": "rrshift", "__and__": "and_", "__rand__": "rand",
    "__or__": "or_", "__ror__": "ror", "__xor__": "xor", "__rxor__": "rxor",
}
UN_DUNDERS = {"__neg__": "neg", "__pos__": "pos", "__invert__": "invert"}
DUNDERS = {**BIN_DUNDERS, **UN_DUNDERS}
# Python-2 spellings CPython 3 never calls (they may only appear as the target of an alias)
DEAD_DUNDERS = {"__div__", "__rdiv__"}
# operator hooks CPython would call that the model does not have
UNMODELLED = {"__iadd__", "__isub__", "__imul__", "__itruediv__", "__ifloordiv__", "__imod__",
              "__ipow__", "__ilshift__", "__irshift__", "__iand__", "__ior__", "__ixor__",
              "__imatmul__", "__matmul__", "__rmatmul__", "__divmod__", "__rdivmod__"}

BINOP_AST = {ast.Add: "add", ast.Sub: "sub", ast.Mult: "mul", ast.Div: "truediv",
             ast.FloorDiv: "floordiv", ast.Mod: "mod", ast.Pow: "pow", ast.LShift: "lshift",
             ast.RShift: "rshift", ast.BitAnd: "band", ast.BitOr: "bor", ast.BitXor: "bxor"}

NARY_CLASSES = {"Sum": "sum", "Product": "prod", "BitwiseOr": "bor", "BitwiseXor": "bxor",
                "BitwiseAnd": "band"}
BIN_CLASSES = {"Quotient": "quot", "FloorDiv": "floordiv", "Remainder": "rem", "Power": "pow",
               "LeftShift": "lshift", "RightShift": "rshift"}
UN_CLASSES = {"BitwiseNot": "bnot"}
MODEL_CLASSES = {"Expression": "expression", "Sum": "sum", "Product": "product"}

PREDS = {"is_constant": "isConstant", "is_number": "isNumber",
         "is_valid_operand": "isValidOperand", "is_arithmetic_expression": "isArith"}
TUPLES = {"VALID_CONSTANT_CLASSES": "validConstantClasses", "_BOOL_CLASSES": "boolClasses",
          "VALID_OPERANDS": "validOperands"}


def _prim(ctx=None):
    import pymbolic.primitives as p
    repo = (ctx or {}).get("repo")
    if repo:
        here = os.path.realpath(p.__file__)
        root = os.path.realpath(repo)
        if not here.startswith(root.rstrip(os.sep) + os.sep):
            raise ExtractError(f"pymbolic.primitives was imported from {here}, not from {root}")
    return p


def _fn_ast(fn, what, decorators=()):
    if not inspect.isfunction(fn):
        raise ExtractError(f"{what}: not a plain function ({type(fn).__name__})")
    try:
        src = textwrap.dedent(inspect.getsource(fn))
    except (OSError, TypeError) as e:
        raise ExtractError(f"{what}: no source ({e})")
    mod = ast.parse(src)
    if len(mod.body) != 1 or not isinstance(mod.body[0], ast.FunctionDef):
        raise ExtractError(f"{what}: source is not a single function definition")
    node = mod.body[0]
    if [ast.unparse(d) for d in node.decorator_list] != list(decorators):
        raise ExtractError(f"{what}: decorated")
    return node


def _params(node: ast.FunctionDef, n, what):
    a = node.args
    if (a.vararg or a.kwarg or a.kwonlyargs or a.posonlyargs or a.defaults or a.kw_defaults
            or len(a.args) != n):
        raise ExtractError(f"{what}: signature is not {n} plain positional parameter(s)")
    return [x.arg for x in a.args]


def _stmts(node: ast.FunctionDef):
    body = list(node.body)
    if (body and isinstance(body[0], ast.Expr) and isinstance(body[0].value, ast.Constant)
            and isinstance(body[0].value.value, str)):
        body = body[1:]
    return body


class Reader:
    """reads one function of pymbolic.primitives; `self.names` maps its two parameters to the
    terms `self` / `other`"""

    def __init__(self, p, fn, what, nparams):
        self.p = p
        self.fn = fn
        self.what = what
        self.node = _fn_ast(fn, what)
        params = _params(self.node, nparams, what)
        self.names = dict(zip(params, ("self", "other")))
        if fn.__globals__ is not p.__dict__:
            raise ExtractError(f"{what}: defined outside pymbolic.primitives")
        self.local_imports = {}

    def err(self, msg, n=None):
        tail = f": `{ast.unparse(n)[:90]}`" if n is not None else ""
        return ExtractError(f"{self.what}: {msg}{tail}")

    # names ------------------------------------------------------------------------------------
    def glob(self, name, n):
        """the object a global name of the function refers to; it must be the attribute of the
        same name of pymbolic.primitives (or a builtin)"""
        if name in self.names:
            raise self.err(f"parameter {name} used as a global", n)
        g = self.fn.__globals__
        if name in g:
            return g[name]
        import builtins
        if hasattr(builtins, name):
            return getattr(builtins, name)
        raise self.err(f"unknown name {name}", n)

    def is_global(self, n, name):
        return isinstance(n, ast.Name) and n.id == name and n.id not in self.names

    def klass(self, n):
        """`Name` of a node class of pymbolic.primitives -> its name"""
        if isinstance(n, ast.Name) and n.id not in self.names:
            obj = self.glob(n.id, n)
            if inspect.isclass(obj) and obj is getattr(self.p, n.id, None):
                return n.id
        return None

    # terms ------------------------------------------------------------------------------------
    def term(self, n):
        if isinstance(n, ast.Name) and n.id in self.names:
            return "." + self.names[n.id]
        if isinstance(n, ast.Constant) and type(n.value) is int:
            return f"(.lit {n.value})" if n.value >= 0 else f"(.lit ({n.value}))"
        if (isinstance(n, ast.UnaryOp) and isinstance(n.op, ast.USub)
                and isinstance(n.operand, ast.Constant) and type(n.operand.value) is int):
            return f"(.lit ({-n.operand.value}))" if n.operand.value else "(.lit 0)"
        if isinstance(n, ast.UnaryOp) and isinstance(n.op, (ast.USub, ast.UAdd, ast.Invert)):
            o = {ast.USub: "neg", ast.UAdd: "pos", ast.Invert: "invert"}[type(n.op)]
            return f"(.unop .{o} {self.term(n.operand)})"
        if isinstance(n, ast.BinOp) and type(n.op) in BINOP_AST:
            return f"(.binop .{BINOP_AST[type(n.op)]} {self.term(n.left)} {self.term(n.right)})"
        if (isinstance(n, ast.Call) and self.is_global(n.func, "cast") and len(n.args) == 2
                and not n.keywords):
            import typing
            if self.glob("cast", n) is not typing.cast:
                raise self.err("`cast` is not typing.cast", n)
            return self.term(n.args[1])
        raise self.err("unreadable operand expression", n)

    def is_term(self, n):
        try:
            self.term(n)
            return True
        except ExtractError:
            return False

    def minus_one(self, n):
        """`T - 1` -> T"""
        if (isinstance(n, ast.BinOp) and isinstance(n.op, ast.Sub)
                and isinstance(n.right, ast.Constant) and type(n.right.value) is int
                and n.right.value == 1):
            return n.left
        return None

    # conditions -------------------------------------------------------------------------------
    def cond(self, n):
        if isinstance(n, ast.UnaryOp) and isinstance(n.op, ast.Not):
            t = self.minus_one(n.operand)
            if t is not None:
                return f"(.isOne {self.term(t)})"
            return f"(.not {self.cond(n.operand)})"
        if isinstance(n, ast.Call) and isinstance(n.func, ast.Name) and not n.keywords:
            f = n.func.id
            if f in self.names:
                raise self.err("call of a parameter", n)
            obj = self.glob(f, n)
            if f in PREDS and len(n.args) == 1:
                if obj is not getattr(self.p, f):
                    raise self.err(f"`{f}` is not pymbolic.primitives.{f}", n)
                return f"(.pred .{PREDS[f]} {self.term(n.args[0])})"
            if f in ("is_zero", "is_nonzero") and len(n.args) == 1:
                if obj is not getattr(self.p, f):
                    raise self.err(f"`{f}` is not pymbolic.primitives.{f}", n)
                if f == "is_zero":
                    t = self.minus_one(n.args[0])
                    if t is not None:
                        return f"(.isOne {self.term(t)})"
                    return f"(.isZero {self.term(n.args[0])})"
                return f"(.isNonzero {self.term(n.args[0])})"
            if f == "isinstance" and len(n.args) == 2:
                import builtins
                if obj is not builtins.isinstance:
                    raise self.err("`isinstance` is shadowed", n)
                c = self.klass(n.args[1])
                if c not in MODEL_CLASSES:
                    raise self.err("isinstance test for a class the model does not tell apart", n)
                return f"(.isinst {self.term(n.args[0])} .{MODEL_CLASSES[c]})"
            if f == "bool" and len(n.args) == 1:
                import builtins
                if obj is not builtins.bool:
                    raise self.err("`bool` is shadowed", n)
                return f"(.truthy {self.term(n.args[0])})"
            raise self.err("unreadable test", n)
        if self.is_term(n):
            return f"(.truthy {self.term(n)})"
        raise self.err("unreadable test", n)

    # results ----------------------------------------------------------------------------------
    def children_of(self, n):
        """`T.children` -> T"""
        if isinstance(n, ast.Attribute) and n.attr == "children":
            return n.value
        return None

    def pieces(self, n):
        """the single argument of an n-ary constructor -> list of pieces"""
        if isinstance(n, ast.Tuple):
            out = []
            for e in n.elts:
                if isinstance(e, ast.Starred):
                    t = self.children_of(e.value)
                    if t is None:
                        raise self.err("starred element is not `X.children`", e)
                    out.append(f".star {self.term(t)}")
                else:
                    out.append(f".one {self.term(e)}")
            return out
        if isinstance(n, ast.BinOp) and isinstance(n.op, ast.Add):
            return self.pieces(n.left) + self.pieces(n.right)
        t = self.children_of(n)
        if t is not None:
            return [f".star {self.term(t)}"]
        raise self.err("unreadable children tuple", n)

    def result(self, n):
        if n is None:
            raise self.err("bare `return`")
        if self.is_global(n, "NotImplemented"):
            if self.glob("NotImplemented", n) is not NotImplemented:
                raise self.err("`NotImplemented` is shadowed", n)
            return ".notImpl"
        if isinstance(n, ast.Call) and not n.keywords:
            c = self.klass(n.func)
            if c in NARY_CLASSES and len(n.args) == 1:
                ps = self.pieces(n.args[0])
                return f".ret (.nary .{NARY_CLASSES[c]} [{', '.join(ps)}])"
            if c in BIN_CLASSES and len(n.args) == 2:
                return (f".ret (.node2 .{BIN_CLASSES[c]} {self.term(n.args[0])} "
                        f"{self.term(n.args[1])})")
            if c in UN_CLASSES and len(n.args) == 1:
                return f".ret (.node1 .{UN_CLASSES[c]} {self.term(n.args[0])})"
            if self.is_global(n.func, "quotient") and len(n.args) == 2:
                if self.glob("quotient", n) is not self.p.quotient:
                    raise self.err("`quotient` is not pymbolic.primitives.quotient", n)
                return f".ret (.quotient {self.term(n.args[0])} {self.term(n.args[1])})"
            if (isinstance(n.func, ast.Attribute) and n.func.attr in DUNDERS
                    and len(n.args) == 1 and self.is_term(n.func.value)):
                return (f".ret (.method .{DUNDERS[n.func.attr]} {self.term(n.func.value)} "
                        f"{self.term(n.args[0])})")
        if self.is_term(n):
            return f".ret (.term {self.term(n)})"
        raise self.err("unreadable return value", n)

    # statements -------------------------------------------------------------------------------
    def block(self, stmts, outside=None, cont=()):
        """`stmts` followed by the statement lists `cont` (what runs when `stmts` falls through,
        innermost first) as a decision tree"""
        if not stmts:
            if cont:
                return self.block(cont[0], outside, cont[1:])
            raise self.err("a path falls off the end of the function (returns None)")
        s, rest = stmts[0], stmts[1:]
        if isinstance(s, ast.Return):
            if rest:
                raise self.err("statement after `return`", rest[0])
            return self.result(s.value)
        if outside is not None:
            o = outside(s)
            if o is not None:
                return f".outside {q(o)} ({self.block(rest, outside, cont)})"
        if isinstance(s, ast.If):
            c = self.cond(s.test)
            thn = self.block(s.body, outside, (rest, *cont))
            if s.orelse:
                els = self.block(s.orelse, outside, (rest, *cont))
            else:
                els = self.block(rest, outside, cont)
            return f".ite {c}\n      ({thn})\n      ({els})"
        if isinstance(s, ast.Assert):
            return f".assert {self.cond(s.test)} ({self.block(rest, outside, cont)})"
        if (isinstance(s, ast.Assign) and len(s.targets) == 1 and isinstance(s.targets[0], ast.Name)
                and s.targets[0].id in self.names and isinstance(s.value, ast.Call)
                and self.is_global(s.value.func, "cast") and len(s.value.args) == 2
                and isinstance(s.value.args[1], ast.Name) and s.value.args[1].id == s.targets[0].id):
            self.term(s.value)            # checks that `cast` is typing.cast
            return self.block(rest, outside, cont)
        raise self.err("unreadable statement", s)

    def body(self, outside=None):
        return self.block(_stmts(self.node), outside)


def q(s):
    return '"' + s.replace("\\", "\\\\").replace('"', '\\"') + '"'


# {{{ dunder methods

def node_classes(p):
    def subs(c):
        for s in c.__subclasses__():
            yield s
            yield from subs(s)
    out, seen = [], set()
    for c in subs(p.Expression):
        if c not in seen and c.__module__ == p.__name__:
            seen.add(c)
            out.append(c)
    return out


def read_methods(p):
    owners = [p.Expression, p.Sum, p.Product]
    for c in node_classes(p):
        for name in sorted(set(DUNDERS) | DEAD_DUNDERS | UNMODELLED):
            if name in c.__dict__ and c not in owners:
                raise ExtractError(f"{c.__name__}.{name}: operator overload in a node class the "
                                   "model does not tell apart")
    out = []
    for c in owners:
        for name in sorted(UNMODELLED):
            if name in c.__dict__:
                raise ExtractError(f"{c.__name__}.{name}: operator hook outside the model")
        for name, lean in DUNDERS.items():
            if name not in c.__dict__:
                continue
            fn = c.__dict__[name]
            what = f"{c.__name__}.{name}"
            r = Reader(p, fn, what, 2 if name in BIN_DUNDERS else 1)
            if list(r.names)[0] != "self":
                raise ExtractError(f"{what}: first parameter is not `self`")
            out.append(dict(cls=c.__name__, name=name, lean=lean, impl=fn.__name__, body=r.body()))
    # CPython tries the reflected method of the right operand FIRST when its class is a proper
    # subclass of the left operand's class; the hand-written `dispatch` has no such case, so no
    # overriding class may sit below another node class
    for c in (p.Sum, p.Product):
        if [b for b in c.__mro__[1:] if b not in (p.Expression, object)]:
            raise ExtractError(f"{c.__name__}: not a direct subclass of Expression")
    return out

# }}}


# {{{ predicates

def class_name(p, c):
    import numpy
    table = {int: "int", float: "float", complex: "complex", bool: "bool",
             numpy.number: "npNumber", numpy.bool_: "npBool", p.Expression: "expression"}
    if c not in table:
        raise ExtractError(f"class tuple mentions {c!r}: not a class the model knows")
    return table[c]


def read_pred(p, name):
    fn = getattr(p, name)
    r = Reader(p, fn, name, 1)
    (param,) = r.names
    st = _stmts(r.node)
    if len(st) != 1 or not isinstance(st[0], ast.Return) or st[0].value is None:
        raise ExtractError(f"{name}: body is not a single `return <formula>`")

    def formula(n):
        if isinstance(n, ast.UnaryOp) and isinstance(n.op, ast.Not):
            return f"(.not {formula(n.operand)})"
        if isinstance(n, ast.BoolOp):
            k = "and" if isinstance(n.op, ast.And) else "or"
            parts = [formula(v) for v in n.values]
            acc = parts[-1]
            for x in reversed(parts[:-1]):
                acc = f"(.{k} {x} {acc})"
            return acc
        if (isinstance(n, ast.Call) and isinstance(n.func, ast.Name) and not n.keywords
                and len(n.args) >= 1 and isinstance(n.args[0], ast.Name) and n.args[0].id == param):
            f = n.func.id
            if f == "isinstance" and len(n.args) == 2 and isinstance(n.args[1], ast.Name):
                import builtins
                if r.glob("isinstance", n) is not builtins.isinstance:
                    raise r.err("`isinstance` is shadowed", n)
                t = n.args[1].id
                if t not in TUPLES:
                    raise r.err("isinstance against something else than the three class tuples", n)
                return f"(.isinst .{TUPLES[t]})"
            if f in PREDS and len(n.args) == 1:
                if r.glob(f, n) is not getattr(p, f):
                    raise r.err(f"`{f}` is not pymbolic.primitives.{f}", n)
                return f"(.call .{PREDS[f]})"
        raise r.err("unreadable predicate formula", n)
    return formula(st[0].value)


def check_truth_helpers(p):
    """`is_nonzero(v)` must be `bool(v)` (None refused, ValueError ↦ True) and `is_zero` its
    negation: the table language has these two as primitives"""
    r = Reader(p, p.is_nonzero, "is_nonzero", 1)
    (v,) = r.names
    st = _stmts(r.node)
    ok = (len(st) == 2 and isinstance(st[0], ast.If) and ast.unparse(st[0].test) == f"{v} is None"
          and len(st[0].body) == 1 and isinstance(st[0].body[0], ast.Raise) and not st[0].orelse
          and isinstance(st[1], ast.Try) and len(st[1].body) == 1
          and ast.unparse(st[1].body[0]) == f"return bool({v})"
          and len(st[1].handlers) == 1 and ast.unparse(st[1].handlers[0].type) == "ValueError"
          and len(st[1].handlers[0].body) == 1
          and ast.unparse(st[1].handlers[0].body[0]) == "return True"
          and not st[1].orelse and not st[1].finalbody)
    import builtins
    if not ok or r.glob("bool", None) is not builtins.bool:
        raise ExtractError("is_nonzero: body is not `bool(value)` guarded against None / ValueError")
    r = Reader(p, p.is_zero, "is_zero", 1)
    (v,) = r.names
    st = _stmts(r.node)
    if not (len(st) == 1 and ast.unparse(st[0]) == f"return not is_nonzero({v})"
            and r.glob("is_nonzero", None) is p.is_nonzero):
        raise ExtractError("is_zero: body is not `return not is_nonzero(value)`")

# }}}


# {{{ truthiness (`__bool__`)

def read_bool(p, owner, user):
    """the `__bool__` defined in `owner`, as it acts on instances of `user` -> lean `C03Truth`"""
    what = f"{owner.__name__}.__bool__"
    r = Reader(p, owner.__dict__["__bool__"], what, 1)
    if list(r.names) != ["self"]:
        raise ExtractError(f"{what}: parameter is not `self`")
    st = _stmts(r.node)
    fields = [f.name for f in dataclasses.fields(user)] if dataclasses.is_dataclass(user) else []

    def lit(n):
        return isinstance(n, ast.Constant) and type(n.value) is bool

    def res(n, maxlen):
        """`True` / `False` / `bool(self.children[i])`"""
        if lit(n):
            return f"(.const {lb(n.value)})"
        if (isinstance(n, ast.Call) and r.is_global(n.func, "bool") and len(n.args) == 1
                and not n.keywords and isinstance(n.args[0], ast.Subscript)
                and ast.unparse(n.args[0].value) == "self.children"
                and isinstance(n.args[0].slice, ast.Constant) and type(n.args[0].slice.value) is int
                and 0 <= n.args[0].slice.value < maxlen):
            import builtins
            if r.glob("bool", n) is not builtins.bool:
                raise r.err("`bool` is shadowed", n)
            return f"(.child {n.args[0].slice.value})"
        raise r.err("unreadable result", n)

    # return <literal>
    if len(st) == 1 and isinstance(st[0], ast.Return) and lit(st[0].value):
        return f".const {lb(st[0].value.value)}"
    # return bool(self.F)
    if (len(st) == 1 and isinstance(st[0], ast.Return) and isinstance(st[0].value, ast.Call)
            and r.is_global(st[0].value.func, "bool") and len(st[0].value.args) == 1
            and not st[0].value.keywords and isinstance(st[0].value.args[0], ast.Attribute)
            and isinstance(st[0].value.args[0].value, ast.Name)
            and st[0].value.args[0].value.id == "self"):
        import builtins
        if r.glob("bool", st[0]) is not builtins.bool:
            raise r.err("`bool` is shadowed", st[0])
        f = st[0].value.args[0].attr
        if f not in fields:
            raise r.err(f"`self.{f}` is not a dataclass field of {user.__name__}", st[0])
        k = fields.index(f)
        # the k-th child of the model (`Expr.children`) is the k-th field only when every field
        # up to it holds exactly one expression
        for fld in dataclasses.fields(user)[:k + 1]:
            t = fld.type if isinstance(fld.type, str) else getattr(fld.type, "__name__", "")
            if t.strip() != "ExpressionT":
                raise r.err(f"`bool(self.{f})`: field {fld.name} of {user.__name__} is not "
                            "declared as one expression", st[0])
        return f".field {k}"
    if st and fields != ["children"]:
        raise ExtractError(f"{what}: unreadable body (class {user.__name__} has no single "
                           "`children` field)")
    # if len(self.children) == 0: A  elif len(self.children) == 1: B  else: C
    if (len(st) == 1 and isinstance(st[0], ast.If)
            and ast.unparse(st[0].test) == "len(self.children) == 0"
            and len(st[0].body) == 1 and isinstance(st[0].body[0], ast.Return)
            and len(st[0].orelse) == 1 and isinstance(st[0].orelse[0], ast.If)):
        inner = st[0].orelse[0]
        if (ast.unparse(inner.test) == "len(self.children) == 1" and len(inner.body) == 1
                and isinstance(inner.body[0], ast.Return) and len(inner.orelse) == 1
                and isinstance(inner.orelse[0], ast.Return)):
            if r.glob("len", st[0]) is not len:
                raise r.err("`len` is shadowed", st[0])
            return (f".byLen {res(st[0].body[0].value, 0)} {res(inner.body[0].value, 1)} "
                    f"{res(inner.orelse[0].value, 2)}")
    # for i in self.children: if is_zero(i): return False / return True
    if (len(st) == 2 and isinstance(st[0], ast.For) and isinstance(st[0].target, ast.Name)
            and ast.unparse(st[0].iter) == "self.children" and not st[0].orelse
            and len(st[0].body) == 1
            and ast.unparse(st[0].body[0]) == f"if is_zero({st[0].target.id}):\n    return False"
            and ast.unparse(st[1]) == "return True"):
        if r.glob("is_zero", st[0]) is not p.is_zero:
            raise r.err("`is_zero` is not pymbolic.primitives.is_zero", st[0])
        return ".noZeroChild"
    raise ExtractError(f"{what}: unreadable body")


def read_truth(p):
    """for every node class of pymbolic.primitives the `__bool__` CPython ends up calling"""
    rows = []
    for c in sorted(node_classes(p), key=lambda c: c.__name__):
        mro = [k for k in c.__mro__ if k is not object]
        owner = next((k for k in mro if "__bool__" in k.__dict__), None)
        if owner is None:
            if any("__len__" in k.__dict__ for k in mro):
                raise ExtractError(f"{c.__name__}: truthiness through __len__")
            rows.append((c.__name__, ".const true"))
        else:
            rows.append((c.__name__, read_bool(p, owner, c)))
    return rows

# }}}


# {{{ quotient, flatteners

QUOTIENT_TRY = """\
try:
    c_traits = traits.common_traits({n}, {d})
    if isinstance(c_traits, traits.EuclideanRingTraits):
        return rat.Rational({n}, {d})
except traits.NoCommonTraitsError:
    pass
except traits.NoTraitsError:
    pass"""


def read_quotient(p):
    r = Reader(p, p.quotient, "quotient", 2)
    num, den = list(r.names)
    # premises of skipping the Rational / traits block for operands of the model: no node class
    # has traits, so `traits.common_traits` raises NoTraitsError as soon as one operand is a node
    for c in [p.Expression, *node_classes(p)]:
        if hasattr(c, "traits"):
            raise ExtractError(f"quotient: node class {c.__name__} has traits")

    def outside(s):
        if isinstance(s, ast.Import):
            if ast.unparse(s) != "import pymbolic.rational as rat":
                raise r.err("unreadable import", s)
            return "import pymbolic.rational"
        if isinstance(s, ast.If) and "Rational" in ast.unparse(s.test):
            t = s.test
            conj = t.values if isinstance(t, ast.BoolOp) and isinstance(t.op, ast.And) else [t]
            want = {f"isinstance({num}, rat.Rational)", f"isinstance({den}, rat.Rational)"}
            if {ast.unparse(c) for c in conj} != want or s.orelse:
                raise r.err("unreadable Rational test", s.test)
            return "both operands are Rational"
        if isinstance(s, ast.Try):
            if ast.unparse(s) != QUOTIENT_TRY.format(n=num, d=den):
                raise r.err("unreadable traits block", s)
            import pymbolic.traits as tr
            if r.fn.__globals__.get("traits") is not tr:
                raise r.err("`traits` is not pymbolic.traits", s)
            return "Euclidean-ring traits of two plain numbers"
        return None
    return r.body(outside)


# the statement that puts the children of a nested Sum / Product back into the queue
# -> `spliceFront` of `C03Flatten`: in place (front of the queue) or at the end of the queue
FLATTEN_SPLICES = {"queue[0:0] = item.children": True, "queue += item.children": False}

FLATTEN_TEMPLATE = """\
queue = list({terms})
done = []
while queue:
    item = queue.pop(0)
{tests}
    if isinstance(item, {cls}):
        {splice}
    else:
        done.append(item)
if len(done) == 0:
    return {empty}
elif len(done) == 1:
    return done[0]
else:
    return {cls}(tuple(done))"""


def read_flatten(p, name):
    fn = getattr(p, name)
    r = Reader(p, fn, name, 1)
    (terms,) = r.names
    st = _stmts(r.node)
    what = name
    if len(st) != 4 or not isinstance(st[2], ast.While) or st[2].orelse:
        raise ExtractError(f"{what}: not `queue = …; done = []; while queue: …; if len(done) …`")
    loop = st[2].body
    if len(loop) < 3:
        raise ExtractError(f"{what}: unreadable loop body")
    tests = loop[1:-1]
    zero_returns = None
    skips_one = False
    texts = []
    for i, t in enumerate(tests):
        src = ast.unparse(t)
        texts.append(textwrap.indent(src, "    "))
        if i == 0 and src == "if is_zero(item):\n    continue":
            zero_returns = False
        elif i == 0 and src == "if is_zero(item):\n    return 0":
            zero_returns = True
        elif i == 1 and src == "if is_zero(item - 1):\n    continue":
            skips_one = True
        else:
            raise ExtractError(f"{what}: unreadable test in the loop: `{src[:80]}`")
    if zero_returns is None:
        raise ExtractError(f"{what}: no zero test in the loop")
    last = loop[-1]
    if not (isinstance(last, ast.If) and isinstance(last.test, ast.Call)
            and ast.unparse(last.test.func) == "isinstance" and len(last.test.args) == 2):
        raise ExtractError(f"{what}: the loop does not end in an isinstance test")
    cls = r.klass(last.test.args[1])
    if cls not in ("Sum", "Product"):
        raise ExtractError(f"{what}: flattens something else than Sum / Product")
    # where the children of a nested node go: the statement itself is read
    splice = ast.unparse(last.body[0]) if len(last.body) == 1 else None
    if splice not in FLATTEN_SPLICES:
        raise ExtractError(f"{what}: unreadable re-queueing of the children: "
                           f"`{(splice or ast.unparse(last))[:80]}`")
    splice_front = FLATTEN_SPLICES[splice]
    ret0 = st[3].body[0] if isinstance(st[3], ast.If) and st[3].body else None
    if not (isinstance(ret0, ast.Return) and isinstance(ret0.value, ast.Constant)
            and type(ret0.value.value) is int):
        raise ExtractError(f"{what}: unreadable result for an empty list")
    empty = ret0.value.value
    want = FLATTEN_TEMPLATE.format(terms=terms, tests="\n".join(texts), cls=cls, empty=empty,
                                   splice=splice)
    got = "\n".join(ast.unparse(s) for s in st)
    if got != want:
        raise ExtractError(f"{what}: body differs from the known loop shape")
    for g, obj in (("is_zero", p.is_zero), ("list", list), ("tuple", tuple), ("len", len),
                   ("isinstance", isinstance)):
        if r.glob(g, None) is not obj:
            raise ExtractError(f"{what}: `{g}` is shadowed")
    return dict(zeroReturns=zero_returns, skipsOne=skips_one, cls=NARY_CLASSES[cls], empty=empty,
                spliceFront=splice_front)

# }}}


def ctor_fields(p):
    out = []
    for name in sorted([*NARY_CLASSES, *BIN_CLASSES, *UN_CLASSES]):
        c = getattr(p, name)
        if not dataclasses.is_dataclass(c):
            raise ExtractError(f"{name} is not a dataclass")
        fs = dataclasses.fields(c)
        if any(not f.init or f.kw_only for f in fs):
            raise ExtractError(f"{name}: a field is not a positional init parameter")
        if "__post_init__" in c.__dict__ or "__new__" in c.__dict__:
            raise ExtractError(f"{name}: constructor hook")
        out.append((name, [f.name for f in fs]))
    return out


def tables(ctx=None):
    p = _prim(ctx)
    check_truth_helpers(p)
    return dict(
        tuples={lean: [class_name(p, c) for c in getattr(p, py)] for py, lean in TUPLES.items()},
        preds=[(lean, read_pred(p, py)) for py, lean in PREDS.items()],
        truth=read_truth(p),
        methods=read_methods(p),
        quotient=read_quotient(p),
        ctorFields=ctor_fields(p),
        flatSum=read_flatten(p, "flattened_sum"),
        flatProduct=read_flatten(p, "flattened_product"),
    )


# {{{ Lean output

def lb(b):
    return "true" if b else "false"


def ident(m):
    return f"c03_{m['cls']}_{m['lean']}"


def lean_flat(f):
    e = f["empty"]
    return (f"{{ zeroReturns := {lb(f['zeroReturns'])}, skipsOne := {lb(f['skipsOne'])}, "
            f"cls := .{f['cls']}, spliceFront := {lb(f['spliceFront'])}, "
            f"empty := {e if e >= 0 else f'({e})'} }}")


def render(t):
    out = ["import PV.Model.OpsTable",
           "/- GENERATED by extract/operators.py from the live source of pymbolic/primitives.py",
           "   (operator overloads of Expression / Sum / Product, operand predicates, quotient,",
           "   flattened_sum / flattened_product) — do not edit. -/",
           "namespace PV.Generated", ""]
    for m in t["methods"]:
        out.append(f"/-- `{m['cls']}.{m['name']}`" + (f" (bound to `{m['impl']}`)" if m["impl"] != m["name"] else "") + " -/")
        out.append(f"def {ident(m)} : C03Body :=\n  {m['body']}\n")
    out.append("/-- `quotient(numerator, denominator)` -/")
    out.append(f"def c03_quotient : C03Body :=\n  {t['quotient']}\n")
    tup = t["tuples"]

    def classes(xs):
        return "[" + ", ".join("." + x for x in xs) + "]"
    out.append("/-- the `__bool__` every node class ends up with (`.const true`: the default of `object`) -/")
    out.append("def c03Truth : List (String × C03Truth) := [\n" + ",\n".join(
        f"  ({q(n)}, {r})" for n, r in t["truth"]) + "\n]\n")
    out.append("def c03Preds : C03Preds where")
    for k in ("validConstantClasses", "boolClasses", "validOperands"):
        out.append(f"  {k} := {classes(tup[k])}")
    out.append("  defs := [\n" + ",\n".join(f"    (.{n}, {f})" for n, f in t["preds"]) + "]")
    out.append("  truth := c03Truth\n")
    out.append("def c03Methods : List C03Method := [\n" + ",\n".join(
        f"  ⟨.{MODEL_CLASSES[m['cls']]}, .{m['lean']}, {q(m['impl'])}, {ident(m)}⟩"
        for m in t["methods"]) + "\n]\n")
    out.append("def c03CtorFields : List (String × List String) := [\n" + ",\n".join(
        f"  ({q(n)}, [{', '.join(q(f) for f in fs)}])" for n, fs in t["ctorFields"]) + "\n]\n")
    out.append(f"def c03FlatSum : C03Flatten := {lean_flat(t['flatSum'])}\n")
    out.append(f"def c03FlatProduct : C03Flatten := {lean_flat(t['flatProduct'])}\n")
    out.append("def c03Table : C03Table where\n  preds := c03Preds\n  methods := c03Methods\n"
               "  quotient := c03_quotient\n  ctorFields := c03CtorFields\n"
               "  flatSum := c03FlatSum\n  flatProduct := c03FlatProduct\n")
    out.append("end PV.Generated\n")
    return "\n".join(out)


# {{{ the non-arithmetic syntax: __getitem__, __call__, attr / a, constructor methods

# Python attribute of `Expression` -> (constructor of `C03SynName`, signature)
SYN_METHODS = {
    "__getitem__": ("getitem", "one"), "__call__": ("call", "star"), "attr": ("attr", "one"),
    "a": ("a", "prop"), "index": ("index", "one"),
    "not_": ("not_", "unary"), "and_": ("and_", "one"), "or_": ("or_", "one"),
    "eq": ("eq", "one"), "ne": ("ne", "one"), "le": ("le", "one"), "lt": ("lt", "one"),
    "ge": ("ge", "one"), "gt": ("gt", "one"), "__abs__": ("abs", "unary"),
    "__le__": ("dle", "one"), "__lt__": ("dlt", "one"), "__ge__": ("dge", "one"),
    "__gt__": ("dgt", "one"), "__iter__": ("iter", "unary"),
}
# hooks CPython would consult for subscript / call / attribute / container syntax that the model
# does not have
SYN_UNMODELLED = {"__getattr__", "__getattribute__", "__setitem__", "__delitem__", "__contains__",
                  "__len__", "__index__", "__class_getitem__", "__missing__", "__reversed__",
                  "__next__", "__set_name__", "__get__", "__set__"}
# the classes the bodies may build, with the `__post_init__` hooks known to leave the positional
# fields alone for the arguments these bodies pass (a hashable mapping; an operator symbol)
SYN_NODE_CLASSES = ("Subscript", "Call", "CallWithKwargs", "Lookup", "LogicalNot", "LogicalAnd",
                    "LogicalOr", "Comparison", "Variable")
SYN_POST_INIT_OK = {"CallWithKwargs", "Comparison"}
CREATOR = "_AttributeLookupCreator"


class SynReader:
    """reads one method of the non-arithmetic syntax into a `C03SynBody`"""

    def __init__(self, p, fn, what, sig):
        self.p = p
        self.fn = fn
        self.what = what
        self.node = _fn_ast(fn, what, ("property",) if sig == "prop" else ())
        if fn.__globals__ is not p.__dict__:
            raise ExtractError(f"{what}: defined outside pymbolic.primitives")
        if sig == "prop" and "property" in fn.__globals__:
            raise ExtractError(f"{what}: `property` is shadowed")
        a = self.node.args
        if a.kwonlyargs or a.posonlyargs or a.defaults or a.kw_defaults:
            raise ExtractError(f"{what}: unreadable signature")
        names = [x.arg for x in a.args]
        if not names or names[0] != "self":
            raise ExtractError(f"{what}: first parameter is not `self`")
        self.param = self.vararg = self.kwarg = None
        if sig in ("unary", "prop"):
            ok = len(names) == 1 and not a.vararg and not a.kwarg
        elif sig == "one":
            ok = len(names) == 2 and not a.vararg and not a.kwarg
            self.param = names[1] if ok else None
        else:
            ok = len(names) == 1 and a.vararg is not None and a.kwarg is not None
            if ok:
                self.vararg, self.kwarg = a.vararg.arg, a.kwarg.arg
        if not ok:
            raise ExtractError(f"{what}: signature is not the `{sig}` one")
        self.locals = {}          # names bound by local imports -> object

    def err(self, msg, n=None):
        tail = f": `{ast.unparse(n)[:90]}`" if n is not None else ""
        return ExtractError(f"{self.what}: {msg}{tail}")

    def bound(self):
        return {"self", self.param, self.vararg, self.kwarg} - {None}

    def glob(self, name, n):
        if name in self.bound():
            raise self.err(f"parameter {name} used as a global", n)
        if name in self.locals:
            return self.locals[name]
        g = self.fn.__globals__
        if name in g:
            return g[name]
        import builtins
        if hasattr(builtins, name):
            return getattr(builtins, name)
        raise self.err(f"unknown name {name}", n)

    def is_name(self, n, name):
        return name is not None and isinstance(n, ast.Name) and n.id == name

    def klass(self, n):
        if isinstance(n, ast.Name) and n.id not in self.bound():
            obj = self.glob(n.id, n)
            if inspect.isclass(obj) and obj is getattr(self.p, n.id, None):
                return n.id
        return None

    # terms ------------------------------------------------------------------------------------
    def term(self, n):
        if self.is_name(n, "self"):
            return ".self"
        if self.is_name(n, self.param):
            return ".arg"
        if self.is_name(n, self.vararg):
            return ".args"
        if (isinstance(n, ast.Attribute) and self.is_name(n.value, self.param)
                and n.attr == "child"):
            flds = [f.name for f in dataclasses.fields(self.p.EmptyOK)]
            if flds != ["child"]:
                raise self.err("EmptyOK does not have the single field `child`", n)
            return ".argChild"
        if isinstance(n, ast.Attribute) and self.is_name(n.value, "self"):
            return f".selfField {q(n.attr)}"
        if isinstance(n, ast.Constant) and type(n.value) is str:
            return f".str {q(n.value)}"
        if isinstance(n, ast.Tuple):
            if any(isinstance(e, ast.Starred) for e in n.elts):
                raise self.err("starred element", n)
            return ".tuple [" + ", ".join(self.term(e) for e in n.elts) + "]"
        if isinstance(n, ast.Call) and not n.keywords and isinstance(n.func, ast.Name):
            f = n.func.id
            if (len(n.args) == 1 and self.is_name(n.args[0], self.kwarg)
                    and f not in self.bound()):
                import immutabledict
                if self.glob(f, n) is not immutabledict.immutabledict:
                    raise self.err("`kwargs` is wrapped in something else than immutabledict", n)
                return ".kwargs"
            c = self.klass(n.func)
            if c is not None and (c in SYN_NODE_CLASSES or c == CREATOR):
                if any(isinstance(e, ast.Starred) for e in n.args):
                    raise self.err("starred argument", n)
                return f".node {q(c)} [" + ", ".join(self.term(e) for e in n.args) + "]"
        raise self.err("unreadable expression", n)

    # conditions -------------------------------------------------------------------------------
    def cond(self, n):
        if (isinstance(n, ast.Call) and self.is_name(n.func, "isinstance") and not n.keywords
                and len(n.args) == 2 and self.is_name(n.args[0], self.param)):
            import builtins
            if self.glob("isinstance", n) is not builtins.isinstance:
                raise self.err("`isinstance` is shadowed", n)
            if self.klass(n.args[1]) != "EmptyOK":
                raise self.err("isinstance test for something else than EmptyOK", n)
            return ".isEmptyOK"
        if (isinstance(n, ast.Compare) and len(n.ops) == 1 and isinstance(n.ops[0], ast.Eq)
                and self.is_name(n.left, self.param) and isinstance(n.comparators[0], ast.Tuple)
                and not n.comparators[0].elts):
            return ".eqEmptyTuple"
        if self.is_name(n, self.kwarg):
            return ".kwargsTruthy"
        raise self.err("unreadable test", n)

    # statements -------------------------------------------------------------------------------
    def block(self, stmts, cont=()):
        if not stmts:
            if cont:
                return self.block(cont[0], cont[1:])
            raise self.err("a path falls off the end of the function (returns None)")
        s, rest = stmts[0], stmts[1:]
        if isinstance(s, ast.Return):
            if rest:
                raise self.err("statement after `return`", rest[0])
            if s.value is None:
                raise self.err("bare `return`")
            v = s.value
            if (isinstance(v, ast.Subscript) and self.is_name(v.value, "self")
                    and self.is_name(v.slice, self.param)):
                return ".retGetitem"
            return f".ret ({self.term(v)})"
        if isinstance(s, ast.Raise):
            if rest:
                raise self.err("statement after `raise`", rest[0])
            e = s.exc
            import builtins
            if (s.cause is None and isinstance(e, ast.Call) and isinstance(e.func, ast.Name)
                    and e.func.id == "TypeError" and self.glob("TypeError", s) is builtins.TypeError
                    and len(e.args) == 1 and isinstance(e.args[0], ast.Constant)
                    and not e.keywords):
                return ".raiseTypeError"
            raise self.err("unreadable raise", s)
        if isinstance(s, ast.If):
            c = self.cond(s.test)
            thn = self.block(s.body, (rest, *cont))
            els = self.block(s.orelse, (rest, *cont)) if s.orelse else self.block(rest, cont)
            return f".ite {c}\n      ({thn})\n      ({els})"
        if (isinstance(s, ast.Expr) and isinstance(s.value, ast.Call)
                and isinstance(s.value.func, ast.Name) and s.value.func.id == "warn"):
            import warnings
            if self.glob("warn", s) is not warnings.warn:
                raise self.err("`warn` is not warnings.warn", s)
            cat = s.value.args[1] if len(s.value.args) >= 2 else None
            if not (isinstance(cat, ast.Name) and cat.id == "DeprecationWarning"
                    and isinstance(s.value.args[0], (ast.Constant, ast.BinOp))):
                raise self.err("unreadable warning", s)
            return f".outside {q('warn(…, DeprecationWarning)')} ({self.block(rest, cont)})"
        if isinstance(s, ast.ImportFrom):
            if (s.module != "immutabledict" or s.level != 0 or len(s.names) != 1
                    or s.names[0].name != "immutabledict" or s.names[0].asname is not None):
                raise self.err("unreadable import", s)
            import immutabledict
            self.locals["immutabledict"] = immutabledict.immutabledict
            return (f".outside {q('from immutabledict import immutabledict')} "
                    f"({self.block(rest, cont)})")
        raise self.err("unreadable statement", s)

    def body(self):
        return self.block(_stmts(self.node))


def read_syntax_methods(p):
    all_names = set(SYN_METHODS) | SYN_UNMODELLED
    for c in node_classes(p):
        for name in sorted(all_names):
            if name in c.__dict__:
                raise ExtractError(f"{c.__name__}.{name}: subscript / call / attribute / "
                                   "constructor-method hook in a node class the model does not "
                                   "tell apart from Expression")
    for name in sorted(SYN_UNMODELLED):
        if name in p.Expression.__dict__:
            raise ExtractError(f"Expression.{name}: syntax hook outside the model")
    out = []
    for name, (lean, sig) in SYN_METHODS.items():
        if name not in p.Expression.__dict__:
            raise ExtractError(f"Expression.{name} is missing")
        obj = p.Expression.__dict__[name]
        what = f"Expression.{name}"
        if sig == "prop":
            if not (type(obj) is property and obj.fset is None and obj.fdel is None):
                raise ExtractError(f"{what}: not a read-only property")
            obj = obj.fget
        r = SynReader(p, obj, what, sig)
        out.append(dict(lean=lean, attr=name, owner="Expression", sig=sig, body=r.body()))
    # the helper behind `expr.a`: only `__init__` (stores its parameter) and `__getattr__`
    cr = getattr(p, CREATOR)
    own = sorted(k for k in cr.__dict__
                 if k not in ("__module__", "__doc__", "__dict__", "__weakref__",
                              "__firstlineno__", "__static_attributes__", "__qualname__"))
    if own != ["__getattr__", "__init__"] or cr.__mro__ != (cr, object):
        raise ExtractError(f"{CREATOR}: unexpected members {own}")
    r = SynReader(p, cr.__dict__["__getattr__"], f"{CREATOR}.__getattr__", "one")
    out.append(dict(lean="creatorGetattr", attr="__getattr__", owner=CREATOR, sig="one",
                    body=r.body()))
    return out


def read_creator_fields(p):
    """`_AttributeLookupCreator.__init__(self, x₁, …)`: body `self.Fₖ = xₖ` -> [F₁, …]"""
    cr = getattr(p, CREATOR)
    node = _fn_ast(cr.__dict__["__init__"], f"{CREATOR}.__init__")
    a = node.args
    if a.vararg or a.kwarg or a.kwonlyargs or a.posonlyargs or a.defaults or a.kw_defaults:
        raise ExtractError(f"{CREATOR}.__init__: unreadable signature")
    params = [x.arg for x in a.args]
    st = _stmts(node)
    if not params or params[0] != "self" or len(st) != len(params) - 1:
        raise ExtractError(f"{CREATOR}.__init__: unreadable")
    fields = []
    for s, prm in zip(st, params[1:]):
        if not (isinstance(s, ast.Assign) and len(s.targets) == 1
                and isinstance(s.targets[0], ast.Attribute)
                and isinstance(s.targets[0].value, ast.Name) and s.targets[0].value.id == "self"
                and isinstance(s.value, ast.Name) and s.value.id == prm):
            raise ExtractError(f"{CREATOR}.__init__: statement is not `self.F = {prm}`: "
                               f"`{ast.unparse(s)[:80]}`")
        fields.append(s.targets[0].attr)
    return fields


def syn_ctor_fields(p):
    out = []
    for name in SYN_NODE_CLASSES:
        c = getattr(p, name)
        if not dataclasses.is_dataclass(c):
            raise ExtractError(f"{name} is not a dataclass")
        fs = dataclasses.fields(c)
        if any(not f.init or f.kw_only for f in fs):
            raise ExtractError(f"{name}: a field is not a positional init parameter")
        for k in c.__mro__:
            if k is object:
                continue
            if "__new__" in k.__dict__:
                raise ExtractError(f"{name}: constructor hook {k.__name__}.__new__")
            if "__post_init__" in k.__dict__ and k.__name__ not in SYN_POST_INIT_OK:
                raise ExtractError(f"{name}: constructor hook {k.__name__}.__post_init__")
        out.append((name, [f.name for f in fs]))
    out.append((CREATOR, read_creator_fields(p)))
    return out


def syntax_tables(ctx=None):
    p = _prim(ctx)
    return dict(methods=read_syntax_methods(p), ctorFields=syn_ctor_fields(p))


def render_syntax(t):
    out = ["import PV.Model.OpsSyntaxTable",
           "/- GENERATED by extract/operators.py from the live source of pymbolic/primitives.py",
           "   (subscript / call / attribute syntax and the constructor methods of Expression)",
           "   — do not edit. -/",
           "namespace PV.Generated", ""]
    for m in t["methods"]:
        out.append(f"/-- `{m['owner']}.{m['attr']}` -/")
        out.append(f"def c03Syn_{m['lean']} : C03SynBody :=\n  {m['body']}\n")
    out.append("def c03SynMethods : List C03SynMethod := [\n" + ",\n".join(
        f"  ⟨.{m['lean']}, {q(m['attr'])}, {q(m['owner'])}, .{m['sig']}, c03Syn_{m['lean']}⟩"
        for m in t["methods"]) + "\n]\n")
    out.append("def c03SynCtorFields : List (String × List String) := [\n" + ",\n".join(
        f"  ({q(n)}, [{', '.join(q(f) for f in fs)}])" for n, fs in t["ctorFields"]) + "\n]\n")
    out.append("def c03SynTable : C03SynTable where\n  methods := c03SynMethods\n"
               "  ctorFields := c03SynCtorFields\n")
    out.append("end PV.Generated\n")
    return "\n".join(out)

# }}}


def extract_operators(ctx=None):
    t = tables(ctx)
    write_if_changed(os.path.join(LEAN, "PV", "Generated", "Operators.lean"), render(t))
    return t


def extract_operators_syntax(ctx=None):
    t = syntax_tables(ctx)
    write_if_changed(os.path.join(LEAN, "PV", "Generated", "OperatorsSyntax.lean"),
                     render_syntax(t))
    return t

# }}}


if __name__ == "__main__":
    print(render(tables()))
    print(render_syntax(syntax_tables()))
