"""T-gen for C05 (method gathering of the mapper optimizer): regenerate
lean/PV/Generated/OptCollect.lean from the live `optimize_mapper` of the tree under test.

For a few user classes of harness/c05_subjects.py (one per stock memoizing base class, the class that
overrides alias names only, the class with an alias of its own):

  * the class AS WRITTEN: the `def`s and the class-level `a = b` assignments of its body (read from
    its source with `ast`), and every name of `dir(cls)` with what `getattr(cls, name)` is — a
    property, or a function: the number of its source text (`inspect.getsource`, the name of the
    definition blanked) and its `__name__`;
  * the class AS REWRITTEN by `optimize_mapper()` (every option off: the rewriting passes leave the
    texts alone): the `def`s of the emitted class body (`_MODULE_SOURCE_CODE`) with the numbers of
    their texts, and the assignments, in order.

Texts are numbered in order of first appearance.  A text of the rewritten class that no function of
the class as written has gets a new number (so that the Lean comparison fails, not this reader); a
statement of a class body that is neither a definition, a docstring nor an assignment of a name to
names is an `ExtractError`.
"""
from __future__ import annotations

import ast
import inspect
import os
import textwrap
from functools import cached_property

from harness.leanio import LEAN

from .classes import ExtractError
from .prec import write_if_changed

CLASSES = ["IdSum", "IdAliasNames", "IdOwnAlias", "CoSum", "ClConstant", "WkVariable"]


def q(s):
    return '"' + s.replace("\\", "\\\\").replace('"', '\\"') + '"'


class Texts:
    def __init__(self):
        self.ids: dict = {}

    def of_def(self, node: ast.FunctionDef):
        n = ast.parse(ast.unparse(node)).body[0]
        n.name = "_"
        n.decorator_list = []
        return self.ids.setdefault(ast.unparse(n), len(self.ids))

    def of_function(self, fn, what):
        try:
            src = inspect.getsource(fn)
        except (OSError, TypeError) as ex:
            raise ExtractError(f"{what}: no source ({ex})") from None
        if src[:1] in " \t":
            # a method: keep its indentation (a docstring's text depends on it)
            body = ast.parse("class _C:\n" + src).body[0].body
        else:
            body = ast.parse(src).body
        if len(body) != 1 or not isinstance(body[0], ast.FunctionDef):
            raise ExtractError(f"{what}: the source is not one function definition")
        return self.of_def(body[0])


def read_body(cls_ast: ast.ClassDef, texts, what):
    defs, aliases = [], []
    for s in cls_ast.body:
        if isinstance(s, ast.FunctionDef):
            defs.append((s.name, texts.of_def(s)))
        elif isinstance(s, ast.Expr) and isinstance(s.value, ast.Constant) \
                and isinstance(s.value.value, str):
            continue
        elif isinstance(s, ast.Assign) and isinstance(s.value, ast.Name) \
                and all(isinstance(t, ast.Name) for t in s.targets):
            # `a = b = c` binds left to right
            aliases.extend((t.id, s.value.id) for t in s.targets)
        else:
            raise ExtractError(f"{what}: unreadable statement of the class body "
                               f"`{ast.unparse(s)[:80]}`")
    return defs, aliases


def class_ast(src, name, what):
    found = [n for n in ast.parse(src).body if isinstance(n, ast.ClassDef) and n.name == name]
    if len(found) != 1:
        raise ExtractError(f"{what}: no class {name}")
    return found[0]


def read_class(cls, opt, texts):
    what = f"optimize_mapper()({cls.__name__})"
    own, aliases = read_body(
        class_ast(textwrap.dedent(inspect.getsource(cls)), cls.__name__, cls.__name__), texts,
        cls.__name__)
    rows = []
    for name in dir(cls):
        v = getattr(cls, name)
        if isinstance(v, (property, cached_property)):
            rows.append((name, True, 0, ""))
        elif inspect.isfunction(v):
            rows.append((name, False, texts.of_function(v, f"{cls.__name__}.{name}"), v.__name__))
        elif not name.startswith("__"):
            raise ExtractError(f"{cls.__name__}.{name} is neither a method nor a property")
    try:
        new = opt.optimize_mapper()(cls)
    except Exception as ex:
        raise ExtractError(f"{what} raised {type(ex).__name__}: {ex}") from None
    src = getattr(new, "__call__", None)
    src = getattr(src, "__globals__", {}).get("_MODULE_SOURCE_CODE")
    if not isinstance(src, str):
        raise ExtractError(f"{what}: no rewritten source")
    flat_defs, flat_aliases = read_body(class_ast(src, cls.__name__, what), texts, what)
    return dict(cls=cls.__name__, own=own, aliases=aliases, dir=rows, flatDefs=flat_defs,
                flatAliases=flat_aliases)


def tables(ctx=None):
    import pymbolic.mapper.optimize as opt

    from harness import c05_subjects as S
    repo = (ctx or {}).get("repo")
    if repo is not None:
        root = os.path.realpath(repo) + os.sep
        if not os.path.realpath(opt.__file__).startswith(root):
            raise ExtractError(f"{opt.__name__} was imported from {opt.__file__}, "
                               f"not from the tree under test {repo}")
    texts = Texts()
    return [read_class(S.c05_subject(n)[1], opt, texts) for n in CLASSES]


def lean_pairs(ps, f):
    return "[" + ", ".join(f"({q(a)}, {f(b)})" for a, b in ps) + "]"


def render(rows):
    out = ["import PV.Model.OptCollect",
           "/- GENERATED by extract/optcollect.py from the live `optimize_mapper` applied to user classes of",
           "   harness/c05_subjects.py — do not edit. -/",
           "namespace PV.Generated", "open PV.OptCollect", ""]
    out.append("/-- the classes as written and as rewritten by `optimize_mapper()` -/\n"
               "def c05CollectRows : List ClassRow := [")
    items = []
    for r in rows:
        lb = lambda b: "true" if b else "false"  # noqa: E731
        d = ",\n      ".join(f"⟨{q(n)}, {lb(pr)}, {t}, {q(dn)}⟩" for n, pr, t, dn in r["dir"])
        items.append(
            f"  {{ cls := {q(r['cls'])},\n"
            f"    own := {lean_pairs(r['own'], str)},\n"
            f"    aliases := {lean_pairs(r['aliases'], q)},\n"
            f"    dir := [\n      {d}],\n"
            f"    flatDefs := {lean_pairs(r['flatDefs'], str)},\n"
            f"    flatAliases := {lean_pairs(r['flatAliases'], q)} }}")
    out.append(",\n".join(items) + "\n]\n")
    out.append("end PV.Generated\n")
    return "\n".join(out)


def extract_optcollect(ctx=None):
    rows = tables(ctx)
    write_if_changed(os.path.join(LEAN, "PV", "Generated", "OptCollect.lean"), render(rows))
    return rows


if __name__ == "__main__":
    for row in extract_optcollect({"repo": os.environ.get("REPO", "/repo")}):
        print(row["cls"], len(row["dir"]), len(row["flatDefs"]), row["aliases"], row["flatAliases"])
