"""T-gen for C15: regenerate lean/PV/Generated/Coefficient.lean from the LIVE source text of

  * pymbolic/mapper/coefficient.py   `CoefficientCollector`: `__init__` and every `map_*` handler the
                                     dispatch of `Mapper.__call__` can reach on it (own handlers and
                                     the delegating handlers inherited from `Mapper`), the handler
                                     every node class of the Lean IR reaches (own `mapper_method`,
                                     else the first one along the MRO the mapper implements),
                                     `Mapper.map_foreign`;
  * pymbolic/algorithm.py            `gaussian_elimination`, `solve_affine_equations_for` and the
                                     helpers they call (`lcm`, `gcd`, `gcd_many`)

in the working tree named by ctx["repo"].

Every function body is translated STATEMENT BY STATEMENT (with `inspect` + `ast`, never executed)
into the small Python-like language of lean/PV/Model/CoeffTable.lean (`C15E` expressions, `C15S`
statements): assignments (also to tuple patterns, to `X[i]`, `X[i, j]`, `X[i], Y[k] = …`, `X[i, j] op= …`),
`for` over dictionaries / `.items()` / `.keys()` / `enumerate` / `zip` / `range` / list displays,
`while`, `if`/`elif`/`else`, `break`/`continue`, `raise`, `assert`, `return`, list and dictionary
comprehensions, `.copy()`, the operators `+ - * //`, unary minus, comparisons, `is`/`in`,
`and`/`or`/`not`.  Names are resolved the way Python resolves them (locals, function-local
imports, module globals, builtins); a call is recorded under the canonical name of the OBJECT the
name is bound to (`pymbolic.algorithm.lcm`, `builtins.len`, `numpy.zeros`, the node class
`Quotient`, …), so an alias or a re-import does not change the table and a name bound to something
else does.  One loop idiom is recorded as one statement: `for K in D.keys(): D[K] op= E` (`K`, `D`
not in `E`) is `mapValues D op E` (Python finds the entry of the very key object it iterates).

What the reader does not understand — a statement or expression shape outside the list above, a
name it cannot resolve, a call of an object it has no canonical name for — is an `ExtractError`
(reported by the check as a broken obligation).  Nothing is guessed and nothing has a default.

NOT translated (stays hand-written in the Lean model, named in the table as `primitives`):
`extended_euclidean` (a recursive function over `pymbolic.traits`; model `Algo.extEuclid`, C19) and
the `DependencyMapper` (model `deps`, C09 has its own regenerated table).
"""
from __future__ import annotations

import ast
import builtins
import dataclasses
import functools
import inspect
import os

from harness.leanio import LEAN

from .classes import ExtractError
from .evaluator import IR_CLASSES, check_repo, function_ast, read_map_foreign, resolve_handler
from .prec import write_if_changed

BINOPS = {ast.Add: "add", ast.Sub: "sub", ast.Mult: "mul", ast.FloorDiv: "floordiv"}
CMPOPS = {ast.Eq: "eq", ast.NotEq: "ne", ast.Lt: "lt", ast.LtE: "le", ast.Gt: "gt", ast.GtE: "ge"}

# functions of pymbolic.algorithm whose body is NOT translated (hand-written in the model)
PRIMITIVES = ("extended_euclidean",)


def short(n):
    try:
        return ast.unparse(n)[:90]
    except Exception:
        return ast.dump(n)[:90]


# {{{ canonical names of the objects a name may be bound to

def _canon(obj, what):
    """canonical name of a resolved global / imported / builtin object"""
    import numpy

    import pymbolic.algorithm as alg
    import pymbolic.mapper.coefficient as co
    import pymbolic.mapper.dependency as dep
    import pymbolic.primitives as prim
    for nm in ("len", "abs", "int", "set", "list", "enumerate", "zip", "range", "getattr",
               "object", "RuntimeError", "ValueError", "NotImplementedError", "AssertionError",
               "KeyError", "TypeError"):
        if obj is getattr(builtins, nm):
            return ("builtin", nm)
    if obj is functools.reduce:
        return ("builtin", "reduce")
    if obj is numpy:
        return ("module", "numpy")
    if inspect.isfunction(obj) and obj.__module__ == alg.__name__ \
            and getattr(alg, obj.__name__, None) is obj:
        return ("algorithm", obj.__name__)
    if inspect.isclass(obj) and dataclasses.is_dataclass(obj) and issubclass(obj, prim.Expression) \
            and getattr(prim, obj.__name__, None) is obj:
        return ("node", obj.__name__)
    if obj is co.CoefficientCollector:
        return ("class", "CoefficientCollector")
    if obj is dep.DependencyMapper:
        return ("class", "DependencyMapper")
    raise ExtractError(f"{what}: the name is bound to {obj!r}, for which the table language has "
                       "no word")

# }}}


# {{{ one function body

class FnReader:
    """translate one function (a handler `(self, expr)` or a module-level function)"""

    def __init__(self, fn, handler):
        self.fdef, self.fn = function_ast(fn)
        self.what = self.fn.__qualname__
        self.handler = handler
        a = self.fdef.args
        if a.kwonlyargs or a.posonlyargs or a.kw_defaults or a.kwarg:
            raise ExtractError(f"{self.what}: unsupported signature ({ast.unparse(a)})")
        self.vararg = a.vararg.arg if a.vararg else None
        params = [x.arg for x in a.args]
        if handler:
            if params != ["self", "expr"] or a.defaults or self.vararg:
                raise ExtractError(f"{self.what}: handler signature is not (self, expr): "
                                   f"({ast.unparse(a)})")
            self.params = []
        else:
            if a.defaults:
                raise ExtractError(f"{self.what}: default arguments are not supported")
            self.params = params
        # local names: parameters, every assigned name, loop / comprehension targets
        self.locals = set(self.params) | ({self.vararg} if self.vararg else set())
        self.imports = {}
        for n in ast.walk(self.fdef):
            if isinstance(n, ast.Name) and isinstance(n.ctx, ast.Store):
                self.locals.add(n.id)
            if isinstance(n, (ast.FunctionDef, ast.Lambda, ast.ClassDef)) and n is not self.fdef:
                raise ExtractError(f"{self.what}: nested definitions are not supported")
        self.called = []          # ("algorithm", name) objects this body calls

    def err(self, n, msg):
        return ExtractError(f"{self.what}: {msg}: `{short(n)}`")

    # --- names ---------------------------------------------------------------------------------
    def resolve(self, name, node):
        """object a non-local name is bound to"""
        if name in self.imports:
            return self.imports[name]
        g = self.fn.__globals__
        if name in g:
            return g[name]
        if hasattr(builtins, name):
            return getattr(builtins, name)
        raise self.err(node, f"unresolved name {name!r}")

    def is_local(self, name):
        return name in self.locals and name not in self.imports

    def canon_of(self, n):
        """canonical object named by the expression `n` (a Name or `module.attr`), else None"""
        if isinstance(n, ast.Name) and not self.is_local(n.id):
            if self.handler and n.id in ("self", "expr"):
                return None
            return _canon(self.resolve(n.id, n), f"{self.what}: `{short(n)}`")
        if isinstance(n, ast.Attribute) and isinstance(n.value, ast.Name) \
                and not self.is_local(n.value.id) and not (self.handler and n.value.id in ("self", "expr")):
            base = self.resolve(n.value.id, n)
            if inspect.ismodule(base):
                import numpy
                if base is numpy and n.attr in ("zeros", "where"):
                    if getattr(numpy, n.attr) is not getattr(base, n.attr):
                        raise self.err(n, "not numpy's function")
                    return ("numpy", n.attr)
                raise self.err(n, "module attribute outside the table language")
        return None

    # --- expressions ------------------------------------------------------------------------------
    def pat(self, t):
        if isinstance(t, ast.Name):
            if not self.is_local(t.id):
                raise self.err(t, "assignment to a non-local name")
            return ("name", t.id)
        if isinstance(t, ast.Tuple) and len(t.elts) == 2:
            return ("tup2", self.pat(t.elts[0]), self.pat(t.elts[1]))
        raise self.err(t, "unsupported assignment target")

    def expr(self, n):
        E = self.expr
        if isinstance(n, ast.Constant):
            if n.value is None:
                return ("pyNone",)
            if isinstance(n.value, bool):
                return ("boolLit", n.value)
            if isinstance(n.value, int):
                return ("lit", n.value)
            raise self.err(n, "constant outside the table language")
        if isinstance(n, ast.Name):
            if self.handler and n.id == "expr":
                return ("node",)
            if self.handler and n.id == "self":
                raise self.err(n, "bare `self`")
            if self.is_local(n.id):
                return ("var", n.id)
            raise self.err(n, "a global used as a value")
        if isinstance(n, ast.Attribute):
            if self.handler and isinstance(n.value, ast.Name) and n.value.id == "self":
                return ("selfAttr", n.attr)
            if self.handler and isinstance(n.value, ast.Name) and n.value.id == "expr":
                raise self.err(n, "a node attribute outside self.rec(…)")
            if n.attr == "shape":
                return ("attr", E(n.value), "shape")
            raise self.err(n, "attribute access outside the table language")
        if isinstance(n, ast.UnaryOp):
            if isinstance(n.op, ast.USub):
                if isinstance(n.operand, ast.Constant) and isinstance(n.operand.value, int) \
                        and not isinstance(n.operand.value, bool):
                    return ("lit", -n.operand.value)
                return ("neg", E(n.operand))
            if isinstance(n.op, ast.Not):
                return ("not_", E(n.operand))
            raise self.err(n, "unary operator outside the table language")
        if isinstance(n, ast.BinOp):
            op = BINOPS.get(type(n.op))
            if op is None:
                raise self.err(n, "binary operator outside the table language")
            return ("bin", op, E(n.left), E(n.right))
        if isinstance(n, ast.BoolOp):
            vals = [E(v) for v in n.values]
            tag = "and_" if isinstance(n.op, ast.And) else "or_"
            out = vals[-1]
            for v in reversed(vals[:-1]):
                out = (tag, v, out)
            return out
        if isinstance(n, ast.Compare):
            if len(n.ops) != 1:
                raise self.err(n, "chained comparison")
            a, b, op = E(n.left), E(n.comparators[0]), n.ops[0]
            if type(op) in CMPOPS:
                return ("cmp", CMPOPS[type(op)], a, b)
            tag = {ast.Is: "is_", ast.IsNot: "isNot", ast.In: "in_", ast.NotIn: "notIn"}.get(type(op))
            if tag is None:
                raise self.err(n, "comparison operator outside the table language")
            return (tag, a, b)
        if isinstance(n, ast.Subscript):
            s = n.slice
            if isinstance(s, ast.Tuple):
                if len(s.elts) != 2:
                    raise self.err(n, "subscript with more than two indices")
                i, j = s.elts
                if isinstance(i, ast.Slice):
                    if i.lower or i.upper or i.step or isinstance(j, ast.Slice):
                        raise self.err(n, "slice other than `[:, j]`")
                    return ("col", E(n.value), E(j))
                if isinstance(j, ast.Slice):
                    raise self.err(n, "slice other than `[:, j]`")
                return ("index2", E(n.value), E(i), E(j))
            if isinstance(s, ast.Slice):
                raise self.err(n, "slice outside the table language")
            return ("index", E(n.value), E(s))
        if isinstance(n, ast.Tuple):
            if len(n.elts) != 2:
                raise self.err(n, "tuple display that is not a pair")
            return ("tuple2", E(n.elts[0]), E(n.elts[1]))
        if isinstance(n, ast.List):
            return ("listLit", [E(x) for x in n.elts])
        if isinstance(n, ast.Dict):
            if not n.keys:
                return ("emptyDict",)
            if len(n.keys) != 1 or n.keys[0] is None:
                raise self.err(n, "dictionary display with more than one entry")
            return ("mkDict", E(n.keys[0]), E(n.values[0]))
        if isinstance(n, (ast.ListComp, ast.DictComp)):
            return self.comprehension(n)
        if isinstance(n, ast.Call):
            return self.call(n)
        raise self.err(n, "expression outside the table language")

    def comprehension(self, n):
        if len(n.generators) != 1:
            raise self.err(n, "comprehension with several `for` clauses")
        g = n.generators[0]
        if g.is_async or len(g.ifs) > 1:
            raise self.err(n, "comprehension shape outside the table language")
        if isinstance(n, ast.ListComp):
            # [self.rec(c) for c in expr.F]
            if (self.handler and isinstance(g.target, ast.Name) and not g.ifs
                    and isinstance(g.iter, ast.Attribute) and isinstance(g.iter.value, ast.Name)
                    and g.iter.value.id == "expr" and self.is_rec_of(n.elt, g.target.id)):
                return ("recList", g.iter.attr)
            e = self.expr(n.elt)
            if g.ifs:
                return ("listCompIf", e, self.pat(g.target), self.expr(g.iter), self.expr(g.ifs[0]))
            return ("listComp", e, self.pat(g.target), self.expr(g.iter))
        if g.ifs:
            raise self.err(n, "dictionary comprehension with a condition")
        return ("dictComp", self.expr(n.key), self.expr(n.value), self.pat(g.target),
                self.expr(g.iter))

    def is_rec_of(self, c, var):
        return (isinstance(c, ast.Call) and isinstance(c.func, ast.Attribute) and c.func.attr == "rec"
                and isinstance(c.func.value, ast.Name) and c.func.value.id == "self"
                and len(c.args) == 1 and not c.keywords and isinstance(c.args[0], ast.Name)
                and c.args[0].id == var)

    def call(self, n):
        E = self.expr
        f = n.func
        # self.rec(expr.F)
        if (self.handler and isinstance(f, ast.Attribute) and isinstance(f.value, ast.Name)
                and f.value.id == "self"):
            if (f.attr == "rec" and len(n.args) == 1 and not n.keywords
                    and isinstance(n.args[0], ast.Attribute) and isinstance(n.args[0].value, ast.Name)
                    and n.args[0].value.id == "expr"):
                return ("recField", n.args[0].attr)
            raise self.err(n, "call on self outside the table language")
        # method calls without arguments: X.copy() / X.items() / X.keys()
        if isinstance(f, ast.Attribute) and self.canon_of(f) is None:
            if f.attr in ("copy", "items", "keys") and not n.args and not n.keywords:
                return ("meth", E(f.value), f.attr)
            raise self.err(n, "method call outside the table language")
        # a local callable object: dep_map(lhs), coeff_coll(lhs)
        if isinstance(f, ast.Name) and self.is_local(f.id):
            if n.keywords or any(isinstance(a, ast.Starred) for a in n.args):
                raise self.err(n, "call of a local object with keyword / starred arguments")
            return ("callVar", f.id, [E(a) for a in n.args])
        c = self.canon_of(f)
        if c is None:
            raise self.err(n, "call outside the table language")
        kind, name = c
        star = [a for a in n.args if isinstance(a, ast.Starred)]
        if kind == "builtin":
            if name == "getattr":
                if (len(n.args) == 3 and not n.keywords and isinstance(n.args[0], ast.Name)
                        and self.handler and n.args[0].id == "expr"
                        and isinstance(n.args[1], ast.Constant) and isinstance(n.args[1].value, str)):
                    return ("getattrOr", n.args[1].value, E(n.args[2]))
                raise self.err(n, "getattr other than getattr(expr, \"NAME\", DEFAULT)")
            if name == "reduce":
                if len(n.args) == 2 and not n.keywords and not star:
                    fc = self.canon_of(n.args[0])
                    if fc is not None and fc[0] == "algorithm":
                        self.called.append(fc[1])
                        return ("reduce", fc[1], E(n.args[1]))
                raise self.err(n, "reduce other than reduce(<algorithm function>, xs)")
            if name in ("len", "abs", "int", "set", "list", "enumerate", "zip", "range"):
                if n.keywords or star:
                    raise self.err(n, "keyword / starred arguments of a builtin")
                arity = {"len": (1,), "abs": (1,), "int": (1,), "set": (0, 1), "list": (1,),
                         "enumerate": (1,), "zip": (2,), "range": (1, 2)}[name]
                if len(n.args) not in arity:
                    raise self.err(n, f"{name} with {len(n.args)} arguments")
                return ("call", name, [E(a) for a in n.args])
            raise self.err(n, "builtin outside the table language")
        if kind == "numpy":
            if name == "zeros":
                if (len(n.args) == 1 and isinstance(n.args[0], ast.Tuple) and len(n.args[0].elts) == 2
                        and len(n.keywords) == 1 and n.keywords[0].arg == "dtype"
                        and isinstance(n.keywords[0].value, ast.Name)
                        and not self.is_local(n.keywords[0].value.id)
                        and self.resolve(n.keywords[0].value.id, n) is object):
                    return ("call", "numpy.zeros", [E(x) for x in n.args[0].elts])
                raise self.err(n, "np.zeros other than np.zeros((a, b), dtype=object)")
            if len(n.args) == 1 and not n.keywords and not star:
                return ("call", "numpy.where", [E(n.args[0])])
            raise self.err(n, "np.where with other than one argument")
        if kind == "algorithm":
            if n.keywords:
                raise self.err(n, "keyword arguments of an algorithm function")
            self.called.append(name)
            if star:
                if len(n.args) != 1:
                    raise self.err(n, "a starred argument next to others")
                return ("callStar", name, E(n.args[0].value))
            return ("call", name, [E(a) for a in n.args])
        if kind == "node":
            import pymbolic.primitives as prim
            cls = getattr(prim, name)
            if n.keywords or star or len(n.args) != len(dataclasses.fields(cls)):
                raise self.err(n, f"{name}(…) is not called with its {len(dataclasses.fields(cls))} "
                                  "fields positionally")
            return ("mkNode", name, [E(a) for a in n.args])
        if kind == "class":
            if n.args:
                raise self.err(n, "positional constructor arguments")
            for k in n.keywords:
                if k.arg is None:
                    raise self.err(n, "**kwargs in a constructor call")
            return ("construct", name, [k.arg for k in n.keywords], [E(k.value) for k in n.keywords])
        raise self.err(n, "call outside the table language")

    # --- statements ---------------------------------------------------------------------------------
    def block(self, ss):
        out = []
        for s in ss:
            r = self.stmt(s)
            if r is not None:
                out.append(r)
        return out

    def exc(self, n):
        """`raise Exc("message")` / `raise Exc(f"text {x} text")` / `raise Exc`"""
        e = n
        msg = ""
        if isinstance(e, ast.Call):
            if e.keywords or len(e.args) > 1:
                raise self.err(n, "exception constructed with several arguments")
            if e.args:
                a = e.args[0]
                if isinstance(a, ast.Constant) and isinstance(a.value, str):
                    msg = a.value
                elif isinstance(a, ast.JoinedStr):
                    parts = []
                    for v in a.values:
                        if isinstance(v, ast.Constant) and isinstance(v.value, str):
                            parts.append(v.value)
                        elif isinstance(v, ast.FormattedValue) and isinstance(v.value, ast.Name) \
                                and self.is_local(v.value.id):
                            parts.append("{}")
                        else:
                            raise self.err(n, "f-string part outside the table language")
                    msg = "".join(parts)
                else:
                    raise self.err(n, "exception message is not a string")
            e = e.func
        c = self.canon_of(e)
        if c is None or c[0] != "builtin" or not c[1].endswith("Error"):
            raise self.err(n, "raised object is not a builtin exception class")
        return c[1], msg

    def sub_target(self, t):
        """`X[i]` / `X[i, j]` with X a local name -> (X, [index expressions])"""
        if not (isinstance(t, ast.Subscript) and isinstance(t.value, ast.Name)
                and self.is_local(t.value.id)):
            raise self.err(t, "unsupported assignment target")
        s = t.slice
        if isinstance(s, ast.Slice) or (isinstance(s, ast.Tuple) and any(
                isinstance(x, ast.Slice) for x in s.elts)):
            raise self.err(t, "assignment to a slice")
        if isinstance(s, ast.Tuple):
            if len(s.elts) != 2:
                raise self.err(t, "subscript with more than two indices")
            return t.value.id, [self.expr(x) for x in s.elts]
        return t.value.id, [self.expr(s)]

    def stmt(self, s):
        E = self.expr
        if isinstance(s, ast.Expr):
            if isinstance(s.value, ast.Constant) and isinstance(s.value.value, str):
                return None                                   # docstring
            c = s.value
            if (isinstance(c, ast.Call) and isinstance(c.func, ast.Attribute) and c.func.attr == "update"
                    and isinstance(c.func.value, ast.Name) and self.is_local(c.func.value.id)
                    and len(c.args) == 1 and not c.keywords):
                return ("setUpdate", c.func.value.id, E(c.args[0]))
            raise self.err(s, "expression statement outside the table language")
        if isinstance(s, ast.ImportFrom):
            if s.level:
                raise self.err(s, "relative import")
            import importlib
            mod = importlib.import_module(s.module)
            out = None
            for a in s.names:
                if not hasattr(mod, a.name):
                    raise self.err(s, f"{s.module} has no attribute {a.name}")
                obj = getattr(mod, a.name)
                self.imports[a.asname or a.name] = obj
                _canon(obj, f"{self.what}: `{short(s)}`")
                out = ("importName", s.module, a.name, a.asname or a.name)
            if len(s.names) != 1:
                raise self.err(s, "import of several names in one statement")
            return out
        if isinstance(s, ast.Import):
            if len(s.names) != 1:
                raise self.err(s, "import of several modules in one statement")
            a = s.names[0]
            import importlib
            mod = importlib.import_module(a.name)
            self.imports[a.asname or a.name] = mod
            _canon(mod, f"{self.what}: `{short(s)}`")
            return ("importName", a.name, "", a.asname or a.name)
        if isinstance(s, ast.Assign):
            if len(s.targets) != 1:
                raise self.err(s, "chained assignment")
            t = s.targets[0]
            if isinstance(t, ast.Name):
                return ("assign", self.pat(t), E(s.value))
            if isinstance(t, ast.Subscript):
                x, idx = self.sub_target(t)
                if len(idx) != 1:
                    return ("setSub2", x, idx[0], idx[1], E(s.value))
                return ("setSubs", [x], idx, [E(s.value)])
            if isinstance(t, ast.Tuple):
                if len(t.elts) == 1 and isinstance(t.elts[0], ast.Name):
                    if not self.is_local(t.elts[0].id):
                        raise self.err(s, "assignment to a non-local name")
                    return ("unpack1", t.elts[0].id, E(s.value))
                if all(isinstance(x, ast.Subscript) for x in t.elts):
                    if not (isinstance(s.value, ast.Tuple) and len(s.value.elts) == len(t.elts)):
                        raise self.err(s, "subscript targets need a tuple display of the same length")
                    xs, idxs = [], []
                    for x in t.elts:
                        nm, idx = self.sub_target(x)
                        if len(idx) != 1:
                            raise self.err(s, "assignment to X[i, j]")
                        xs.append(nm)
                        idxs.append(idx[0])
                    return ("setSubs", xs, idxs, [E(v) for v in s.value.elts])
                if len(t.elts) == 2:
                    return ("assign", self.pat(t), E(s.value))
            raise self.err(s, "unsupported assignment target")
        if isinstance(s, ast.AugAssign):
            op = BINOPS.get(type(s.op))
            if op is None:
                raise self.err(s, "augmented operator outside the table language")
            t = s.target
            if isinstance(t, ast.Name):
                if not self.is_local(t.id):
                    raise self.err(s, "assignment to a non-local name")
                return ("aug", t.id, op, E(s.value))
            x, idx = self.sub_target(t)
            if len(idx) == 1:
                return ("augSub", x, idx[0], op, E(s.value))
            return ("augSub2", x, idx[0], idx[1], op, E(s.value))
        if isinstance(s, ast.For):
            if s.orelse:
                raise self.err(s, "for … else")
            mv = self.map_values(s)
            if mv is not None:
                return mv
            return ("forIn", self.pat(s.target), E(s.iter), self.block(s.body))
        if isinstance(s, ast.While):
            if s.orelse:
                raise self.err(s, "while … else")
            return ("while_", E(s.test), self.block(s.body))
        if isinstance(s, ast.If):
            t = s.test
            if isinstance(t, ast.Constant) and t.value in (0, False, None) and not s.orelse:
                return ("deadIf",)                            # `if 0:` — the body never runs
            return ("ifThen", E(t), self.block(s.body), self.block(s.orelse))
        if isinstance(s, ast.Raise):
            if s.cause is not None or s.exc is None:
                raise self.err(s, "raise shape outside the table language")
            exc, msg = self.exc(s.exc)
            return ("raise_", exc, msg)
        if isinstance(s, ast.Assert):
            if s.msg is not None:
                raise self.err(s, "assert with a message")
            return ("assert_", E(s.test))
        if isinstance(s, ast.Return):
            if s.value is None:
                raise self.err(s, "bare return")
            return ("ret", E(s.value))
        if isinstance(s, ast.Break):
            return ("break_",)
        if isinstance(s, ast.Continue):
            return ("continue_",)
        if isinstance(s, ast.Pass):
            return None
        raise self.err(s, "statement outside the table language")

    def map_values(self, s):
        """`for K in D.keys(): D[K] op= E`  (K and D not in E)"""
        it = s.iter
        if not (isinstance(s.target, ast.Name) and isinstance(it, ast.Call) and not it.args
                and not it.keywords and isinstance(it.func, ast.Attribute) and it.func.attr == "keys"
                and isinstance(it.func.value, ast.Name) and self.is_local(it.func.value.id)):
            return None
        k, d = s.target.id, it.func.value.id
        if len(s.body) != 1 or not isinstance(s.body[0], ast.AugAssign):
            return None
        a = s.body[0]
        t = a.target
        if not (isinstance(t, ast.Subscript) and isinstance(t.value, ast.Name) and t.value.id == d
                and isinstance(t.slice, ast.Name) and t.slice.id == k):
            return None
        if any(isinstance(x, ast.Name) and x.id in (k, d) for x in ast.walk(a.value)):
            return None
        op = BINOPS.get(type(a.op))
        if op is None:
            raise self.err(s, "augmented operator outside the table language")
        return ("mapValues", d, op, self.expr(a.value))

    def read(self):
        body = self.block(self.fdef.body)
        return dict(name=self.fn.__name__, definedIn=self.fn.__qualname__, params=self.params,
                    vararg=self.vararg or "", body=body)

# }}}


# {{{ the tables

def read_init(cls):
    """`def __init__(self, A=None): self.A = A` -> [(A, default)]"""
    fdef, fn = function_ast(cls.__init__)
    what = fn.__qualname__
    a = fdef.args
    if a.vararg or a.kwarg or a.kwonlyargs or a.posonlyargs:
        raise ExtractError(f"{what}: unsupported signature ({ast.unparse(a)})")
    params = [x.arg for x in a.args]
    if not params or params[0] != "self" or len(a.defaults) != len(params) - 1:
        raise ExtractError(f"{what}: every parameter after self needs a default ({ast.unparse(a)})")
    out = []
    for p_, d in zip(params[1:], a.defaults):
        if not (isinstance(d, ast.Constant) and d.value is None):
            raise ExtractError(f"{what}: default of {p_} is not None")
        out.append([p_, "None"])
    stores = []
    for s in fdef.body:
        if isinstance(s, ast.Expr) and isinstance(s.value, ast.Constant) and isinstance(s.value.value, str):
            continue
        if (isinstance(s, ast.Assign) and len(s.targets) == 1 and isinstance(s.targets[0], ast.Attribute)
                and isinstance(s.targets[0].value, ast.Name) and s.targets[0].value.id == "self"
                and isinstance(s.value, ast.Name) and s.value.id in params[1:]):
            stores.append([s.targets[0].attr, s.value.id])
        else:
            raise ExtractError(f"{what}: statement other than `self.A = A`: `{short(s)}`")
    return dict(definedIn=fn.__qualname__, params=out, stores=stores)


def delegation(fn):
    """`def map_x(self, expr, *args, **kwargs): return self.map_y(expr, *args, **kwargs)` -> map_y;
    `… raise NotImplementedError` -> ("raise", exc); else None"""
    fdef, fn = function_ast(fn)
    a = fdef.args
    if ([x.arg for x in a.args] != ["self", "expr"] or not a.vararg or not a.kwarg or a.defaults
            or a.kwonlyargs or a.posonlyargs):
        return None
    body = [s for s in fdef.body if not (isinstance(s, ast.Expr) and isinstance(s.value, ast.Constant))]
    if len(body) != 1:
        return None
    s = body[0]
    if isinstance(s, ast.Return) and isinstance(s.value, ast.Call):
        c = s.value
        if (isinstance(c.func, ast.Attribute) and isinstance(c.func.value, ast.Name)
                and c.func.value.id == "self"
                and ast.unparse(c) == f"self.{c.func.attr}(expr, *{a.vararg.arg}, **{a.kwarg.arg})"):
            return ("delegate", c.func.attr)
    if isinstance(s, ast.Raise) and isinstance(s.exc, ast.Name) and s.cause is None \
            and getattr(builtins, s.exc.id, None) is NotImplementedError \
            and s.exc.id not in fn.__globals__:
        return ("raise", "NotImplementedError")
    return None


def coefficient_tables(ctx=None):
    import pymbolic.algorithm as alg
    import pymbolic.mapper as pm
    import pymbolic.mapper.coefficient as co
    import pymbolic.mapper.dependency as dep
    import pymbolic.primitives as prim
    check_repo(ctx, [pm, co, prim, alg, dep])
    CC = co.CoefficientCollector

    # the recursion: `rec` must be the plain dispatcher (no memo)
    if CC.rec is not pm.Mapper.__call__ or CC.__call__ is not pm.Mapper.__call__:
        raise ExtractError("CoefficientCollector overrides rec / __call__")
    init = read_init(CC)

    classes = []
    reached = []
    for name in IR_CLASSES:
        cls = getattr(prim, name, None)
        if cls is None or not dataclasses.is_dataclass(cls):
            raise ExtractError(f"pymbolic.primitives.{name} is not a dataclass node class")
        fields = [f.name for f in dataclasses.fields(cls)]
        # attributes `getattr(expr, NAME, None)` can see: the dataclass fields; a class-level
        # attribute / property of the same name as a field of another class would be seen too
        for other in ("name",):
            if other not in fields and hasattr(cls, other):
                raise ExtractError(f"{name} has a non-field attribute {other!r}")
        h = resolve_handler(cls, CC)
        classes.append(dict(cls=name, fields=fields, handler=h))
        if h is not None:
            reached.append(h)
    foreign, foreign_else = read_map_foreign(CC.map_foreign)
    reached += [h for k, h in foreign if k != "numpy"]

    handlers = {}
    queue = list(dict.fromkeys(reached))
    while queue:
        h = queue.pop(0)
        if h in handlers:
            continue
        fn = getattr(CC, h, None)
        if fn is None:
            raise ExtractError(f"the collector has no handler {h}")
        d = delegation(fn)
        if d is not None and d[0] == "delegate":
            handlers[h] = dict(name=h, definedIn=fn.__qualname__, params=[], vararg="",
                               body=[("delegate", d[1])])
            queue.append(d[1])
        elif d is not None:
            handlers[h] = dict(name=h, definedIn=fn.__qualname__, params=[], vararg="",
                               body=[("raise_", d[1], "")])
        else:
            r = FnReader(fn, handler=True)
            handlers[h] = r.read()
            if r.called:
                raise ExtractError(f"{fn.__qualname__} calls algorithm functions {r.called}")

    # algorithm.py
    fns = {}
    queue = ["gaussian_elimination", "solve_affine_equations_for"]
    while queue:
        nm = queue.pop(0)
        if nm in fns or nm in PRIMITIVES:
            continue
        fn = getattr(alg, nm, None)
        if not inspect.isfunction(fn):
            raise ExtractError(f"pymbolic.algorithm.{nm} is not a function")
        r = FnReader(fn, handler=False)
        fns[nm] = r.read()
        queue += r.called
    prims = sorted(p_ for p_ in PRIMITIVES
                   if any(p_ in _called_names(f["body"]) for f in fns.values()))
    for p_ in prims:
        if not inspect.isfunction(getattr(alg, p_, None)):
            raise ExtractError(f"pymbolic.algorithm.{p_} is not a function")

    return dict(
        init=init, classes=classes,
        handlers=[handlers[h] for h in sorted(handlers)],
        foreign=foreign, foreignElse=foreign_else,
        constKinds=[k for k, v in [("int", 0), ("bool", True), ("float", 0.5), ("str", "s"),
                                   ("NoneType", None)] if isinstance(v, prim.VALID_CONSTANT_CLASSES)],
        fns=[fns[n] for n in sorted(fns)], primitives=prims,
    )


def _called_names(x):
    out = set()
    if isinstance(x, (list, tuple)):
        if isinstance(x, tuple) and x and x[0] in ("call", "callStar", "reduce"):
            out.add(x[1])
        for y in x:
            out |= _called_names(y)
    return out

# }}}


# {{{ Lean output

def q(s):
    return '"' + s.replace("\\", "\\\\").replace('"', '\\"').replace("\n", "\\n") + '"'


def lint(n):
    return str(n) if n >= 0 else f"({n})"


def lstrs(xs):
    return "[" + ", ".join(q(x) for x in xs) + "]"


def l_pat(p_):
    if p_[0] == "name":
        return f"(.name {q(p_[1])})"
    return f"(.tup2 {l_pat(p_[1])} {l_pat(p_[2])})"


def l_es(es):
    return "[" + ", ".join(l_e(e) for e in es) + "]"


def l_e(e):
    k = e[0]
    if k == "lit":
        return f"(.lit {lint(e[1])})"
    if k == "boolLit":
        return f"(.boolLit {'true' if e[1] else 'false'})"
    if k in ("pyNone", "node", "emptyDict"):
        return f".{k}"
    if k in ("var", "selfAttr", "recField", "recList"):
        return f"(.{k} {q(e[1])})"
    if k == "getattrOr":
        return f"(.getattrOr {q(e[1])} {l_e(e[2])})"
    if k == "attr":
        return f"(.attr {l_e(e[1])} {q(e[2])})"
    if k in ("bin", "cmp"):
        return f"(.{k} .{e[1]} {l_e(e[2])} {l_e(e[3])})"
    if k in ("neg", "not_"):
        return f"(.{k} {l_e(e[1])})"
    if k in ("is_", "isNot", "in_", "notIn", "and_", "or_", "index", "col", "tuple2", "mkDict"):
        return f"(.{k} {l_e(e[1])} {l_e(e[2])})"
    if k == "index2":
        return f"(.index2 {l_e(e[1])} {l_e(e[2])} {l_e(e[3])})"
    if k == "meth":
        return f"(.meth {l_e(e[1])} {q(e[2])})"
    if k == "listLit":
        return f"(.listLit {l_es(e[1])})"
    if k == "dictComp":
        return f"(.dictComp {l_e(e[1])} {l_e(e[2])} {l_pat(e[3])} {l_e(e[4])})"
    if k == "listComp":
        return f"(.listComp {l_e(e[1])} {l_pat(e[2])} {l_e(e[3])})"
    if k == "listCompIf":
        return f"(.listCompIf {l_e(e[1])} {l_pat(e[2])} {l_e(e[3])} {l_e(e[4])})"
    if k in ("mkNode", "call", "callVar"):
        return f"(.{k} {q(e[1])} {l_es(e[2])})"
    if k == "callStar":
        return f"(.callStar {q(e[1])} {l_e(e[2])})"
    if k == "reduce":
        return f"(.reduce {q(e[1])} {l_e(e[2])})"
    if k == "construct":
        return f"(.construct {q(e[1])} {lstrs(e[2])} {l_es(e[3])})"
    raise ExtractError(f"no Lean spelling for expression {e!r}")


def l_block(ss, ind):
    if not ss:
        return "[]"
    pad = " " * ind
    return "[\n" + ",\n".join(pad + "  " + l_s(s, ind + 2) for s in ss) + "]"


def l_s(s, ind):
    k = s[0]
    if k == "importName":
        return f".importName {q(s[1])} {q(s[2])} {q(s[3])}"
    if k == "delegate":
        return f".delegate {q(s[1])}"
    if k == "assign":
        return f".assign {l_pat(s[1])} {l_e(s[2])}"
    if k == "unpack1":
        return f".unpack1 {q(s[1])} {l_e(s[2])}"
    if k == "aug":
        return f".aug {q(s[1])} .{s[2]} {l_e(s[3])}"
    if k == "setSubs":
        return f".setSubs {lstrs(s[1])} {l_es(s[2])} {l_es(s[3])}"
    if k == "augSub":
        return f".augSub {q(s[1])} {l_e(s[2])} .{s[3]} {l_e(s[4])}"
    if k == "setSub2":
        return f".setSub2 {q(s[1])} {l_e(s[2])} {l_e(s[3])} {l_e(s[4])}"
    if k == "augSub2":
        return f".augSub2 {q(s[1])} {l_e(s[2])} {l_e(s[3])} .{s[4]} {l_e(s[5])}"
    if k == "mapValues":
        return f".mapValues {q(s[1])} .{s[2]} {l_e(s[3])}"
    if k == "setUpdate":
        return f".setUpdate {q(s[1])} {l_e(s[2])}"
    if k == "forIn":
        return f".forIn {l_pat(s[1])} {l_e(s[2])} {l_block(s[3], ind)}"
    if k == "while_":
        return f".while_ {l_e(s[1])} {l_block(s[2], ind)}"
    if k == "ifThen":
        return f".ifThen {l_e(s[1])} {l_block(s[2], ind)} {l_block(s[3], ind)}"
    if k in ("deadIf", "break_", "continue_"):
        return f".{k}"
    if k == "raise_":
        return f".raise_ {q(s[1])} {q(s[2])}"
    if k == "assert_":
        return f".assert_ {l_e(s[1])}"
    if k == "ret":
        return f".ret {l_e(s[1])}"
    raise ExtractError(f"no Lean spelling for statement {s!r}")


def l_fn(f):
    return (f"  {{ name := {q(f['name'])}, definedIn := {q(f['definedIn'])}, "
            f"params := {lstrs(f['params'])}, vararg := {q(f['vararg'])},\n"
            f"    body := {l_block(f['body'], 4)} }}")


def l_opt(x):
    return "none" if x is None else f"(some {q(x)})"


def to_lean(t):
    L = ["import PV.Model.CoeffTable",
         "/- GENERATED by extract/coefficient.py from the working tree of the repository",
         "   (pymbolic/mapper/coefficient.py, pymbolic/mapper/__init__.py, pymbolic/algorithm.py) —",
         "   do not edit. -/",
         "namespace PV.Generated", "open PV PV.Coeff", ""]
    L.append("/-- `CoefficientCollector.__init__`: parameters with defaults, attributes stored -/")
    L.append("def c15Init : C15Init :=")
    L.append(f"  {{ definedIn := {q(t['init']['definedIn'])},")
    L.append("    params := [" + ", ".join(f"({q(a)}, {q(b)})" for a, b in t['init']['params']) + "],")
    L.append("    stores := [" + ", ".join(f"({q(a)}, {q(b)})" for a, b in t['init']['stores']) + "] }")
    L.append("")
    L.append("/-- node class ↦ dataclass fields, handler the dispatch reaches on the collector -/")
    L.append("def c15Classes : List C15Class := [")
    L.append(",\n".join(f"  {{ cls := {q(c['cls'])}, fields := {lstrs(c['fields'])}, "
                        f"handler := {l_opt(c['handler'])} }}" for c in t["classes"]) + "]")
    L.append("")
    L.append("/-- every handler the dispatch can reach, body translated statement by statement -/")
    L.append("def c15Handlers : List C15Fn := [")
    L.append(",\n".join(l_fn(f) for f in t["handlers"]) + "]")
    L.append("")
    L.append("/-- `gaussian_elimination`, `solve_affine_equations_for` and the helpers they call -/")
    L.append("def c15Fns : List C15Fn := [")
    L.append(",\n".join(l_fn(f) for f in t["fns"]) + "]")
    L.append("")
    L.append("def c15Table : C15Table :=")
    L.append("  { init := c15Init, classes := c15Classes, handlers := c15Handlers, fns := c15Fns,")
    L.append("    foreign := [" + ", ".join(f"({q(a)}, {q(b)})" for a, b in t["foreign"]) + "],")
    L.append(f"    foreignElse := {q(t['foreignElse'])},")
    L.append(f"    constKinds := {lstrs(t['constKinds'])},")
    L.append(f"    primitives := {lstrs(t['primitives'])} }}")
    L += ["", "end PV.Generated", ""]
    return "\n".join(L)


def extract_coefficient(ctx=None):
    t = coefficient_tables(ctx)
    write_if_changed(os.path.join(LEAN, "PV", "Generated", "Coefficient.lean"), to_lean(t))
    return t

# }}}


if __name__ == "__main__":
    import json
    import sys
    t = extract_coefficient({"repo": os.environ.get("REPO", "/repo")})
    json.dump(t, sys.stdout, indent=1, default=str)
