"""T-gen for C08: pymbolic/mapper/substitutor.py read statement by statement.

What is read (any other statement shape is an ExtractError = broken obligation):

  SubstitutionMapper.map_variable / map_subscript / map_lookup (whatever `map_*` the class defines)
      result = self.subst_func(expr)
      if result is not None: return result
      else: return expr                                  -> ("leaf", handler)
            return <Base>.map_x(self, expr)              -> ("descend", handler, Base, map_x)
  SubstitutionMapper.__init__:   self.subst_func = subst_func
  CachedSubstitutionMapper:      its MRO inside the module family, and an __init__ that calls both bases
  make_subst_func:  the closure — look the NODE up in the mapping; on KeyError, a Variable is looked up
      by its NAME; KeyError again / any other node -> None
  substitute:       None -> {}; `.copy()` of the caller's mapping BEFORE `.update(kwargs)`; the mapper class
      (default read from the signature) built on make_subst_func(...) and applied to the expression

The table goes to lean/PV/Generated/Substitutor.lean; `PV.C08.substitutor_source_current` compares it with the
literal the model (`substM`, key kinds of `eval_subst_keys`) and the harness were written against.
"""
from __future__ import annotations

import ast
import inspect
import os
import textwrap

from .classes import ExtractError

LEAN = os.path.join(os.path.dirname(os.path.dirname(os.path.abspath(__file__))), "lean")


def _fn_ast(fn, what):
    try:
        src = textwrap.dedent(inspect.getsource(fn))
    except (OSError, TypeError) as e:
        raise ExtractError(f"{what}: no source ({e})") from None
    t = ast.parse(src).body[0]
    if not isinstance(t, ast.FunctionDef) or t.decorator_list:
        raise ExtractError(f"{what}: not a plain function")
    return t


def _body(t):
    return [st for st in t.body
            if not (isinstance(st, ast.Expr) and isinstance(st.value, ast.Constant))
            and not isinstance(st, (ast.Import, ast.ImportFrom))]


def _names(t):
    a = t.args
    return [x.arg for x in a.args], a.vararg and a.vararg.arg, a.kwarg and a.kwarg.arg


def _is_call(node, f_pred, nargs):
    return isinstance(node, ast.Call) and f_pred(node.func) and len(node.args) == nargs and not node.keywords


def _self_attr(node, s, attr):
    return (isinstance(node, ast.Attribute) and node.attr == attr and isinstance(node.value, ast.Name)
            and node.value.id == s)


def read_handler(cls, name):
    what = f"{cls.__name__}.{name}"
    t = _fn_ast(cls.__dict__[name], what)
    args, va, kw = _names(t)
    if len(args) != 2 or va or kw:
        raise ExtractError(f"{what}: unexpected signature")
    s, e = args
    b = _body(t)
    ok = (len(b) == 2 and isinstance(b[0], ast.Assign) and len(b[0].targets) == 1
          and isinstance(b[0].targets[0], ast.Name)
          and _is_call(b[0].value, lambda f: _self_attr(f, s, "subst_func"), 1)
          and isinstance(b[0].value.args[0], ast.Name) and b[0].value.args[0].id == e
          and isinstance(b[1], ast.If))
    if not ok:
        raise ExtractError(f"{what}: unreadable body")
    r = b[0].targets[0].id
    i = b[1]
    t_ok = (isinstance(i.test, ast.Compare) and len(i.test.ops) == 1 and isinstance(i.test.ops[0], ast.IsNot)
            and isinstance(i.test.left, ast.Name) and i.test.left.id == r
            and isinstance(i.test.comparators[0], ast.Constant) and i.test.comparators[0].value is None
            and len(i.body) == 1 and isinstance(i.body[0], ast.Return)
            and isinstance(i.body[0].value, ast.Name) and i.body[0].value.id == r
            and len(i.orelse) == 1 and isinstance(i.orelse[0], ast.Return))
    if not t_ok:
        raise ExtractError(f"{what}: the test is not `if result is not None: return result`")
    v = i.orelse[0].value
    if isinstance(v, ast.Name) and v.id == e:
        return [name, "leaf", "", ""]
    if (isinstance(v, ast.Call) and isinstance(v.func, ast.Attribute) and isinstance(v.func.value, ast.Name)
            and len(v.args) == 2 and not v.keywords and isinstance(v.args[0], ast.Name) and v.args[0].id == s
            and isinstance(v.args[1], ast.Name) and v.args[1].id == e):
        base = cls.__dict__[name].__globals__.get(v.func.value.id)
        if not inspect.isclass(base) or base not in cls.__mro__:
            raise ExtractError(f"{what}: {v.func.value.id} is not a base class")
        return [name, "descend", base.__name__, v.func.attr]
    raise ExtractError(f"{what}: unreadable else branch `{ast.unparse(v)}`")


def read_init(cls):
    what = f"{cls.__name__}.__init__"
    t = _fn_ast(cls.__dict__["__init__"], what)
    args, va, kw = _names(t)
    if len(args) != 2 or va or kw:
        raise ExtractError(f"{what}: unexpected signature")
    s, f = args
    b = _body(t)
    if (len(b) == 1 and isinstance(b[0], ast.Assign) and len(b[0].targets) == 1
            and _self_attr(b[0].targets[0], s, "subst_func") and isinstance(b[0].value, ast.Name)
            and b[0].value.id == f):
        return ["store"]
    # Base.__init__(self [, subst_func]) calls, in order
    calls = []
    for st in b:
        c = st.value if isinstance(st, ast.Expr) else None
        if not (isinstance(c, ast.Call) and isinstance(c.func, ast.Attribute) and c.func.attr == "__init__"
                and isinstance(c.func.value, ast.Name) and not c.keywords and c.args
                and isinstance(c.args[0], ast.Name) and c.args[0].id == s
                and all(isinstance(x, ast.Name) and x.id == f for x in c.args[1:]) and len(c.args) <= 2):
            raise ExtractError(f"{what}: unreadable statement `{ast.unparse(st)[:60]}`")
        base = cls.__dict__["__init__"].__globals__.get(c.func.value.id)
        if not inspect.isclass(base) or base not in cls.__mro__:
            raise ExtractError(f"{what}: {c.func.value.id} is not a base class")
        calls.append(base.__name__ + ("(subst_func)" if len(c.args) == 2 else "()"))
    return ["bases"] + calls


def read_make_subst_func(fn):
    what = "make_subst_func"
    t = _fn_ast(fn, what)
    args, va, kw = _names(t)
    if len(args) != 1 or va or kw:
        raise ExtractError(f"{what}: unexpected signature")
    m = args[0]
    b = _body(t)
    if not (len(b) == 2 and isinstance(b[0], ast.FunctionDef) and isinstance(b[1], ast.Return)
            and isinstance(b[1].value, ast.Name) and b[1].value.id == b[0].name):
        raise ExtractError(f"{what}: expected one nested function that is returned")
    inner = b[0]
    ia, iva, ikw = _names(inner)
    if len(ia) != 1 or iva or ikw or inner.decorator_list:
        raise ExtractError(f"{what}: unexpected inner signature")
    v = ia[0]
    ib = _body(inner)

    def lookup(node, key_pred):
        return (isinstance(node, ast.Return) and isinstance(node.value, ast.Subscript)
                and isinstance(node.value.value, ast.Name) and node.value.value.id == m
                and key_pred(node.value.slice))

    def is_none_ret(sts):
        return (len(sts) == 1 and isinstance(sts[0], ast.Return)
                and isinstance(sts[0].value, ast.Constant) and sts[0].value.value is None)

    def key_error_try(st, key_pred):
        return (isinstance(st, ast.Try) and len(st.body) == 1 and lookup(st.body[0], key_pred)
                and len(st.handlers) == 1 and isinstance(st.handlers[0].type, ast.Name)
                and st.handlers[0].type.id == "KeyError" and st.handlers[0].name is None
                and not st.orelse and not st.finalbody)

    by_node = lambda k: isinstance(k, ast.Name) and k.id == v  # noqa: E731
    by_name = lambda k: (isinstance(k, ast.Attribute) and k.attr == "name"  # noqa: E731
                         and isinstance(k.value, ast.Name) and k.value.id == v)
    if not (len(ib) == 1 and key_error_try(ib[0], by_node)):
        raise ExtractError(f"{what}: the closure does not start with `try: return mapping[var]`")
    h = ib[0].handlers[0].body
    if not (len(h) == 1 and isinstance(h[0], ast.If)):
        raise ExtractError(f"{what}: unreadable KeyError handler")
    i = h[0]
    tst = i.test
    isvar = (isinstance(tst, ast.Call) and isinstance(tst.func, ast.Name) and tst.func.id == "isinstance"
             and len(tst.args) == 2 and isinstance(tst.args[0], ast.Name) and tst.args[0].id == v
             and ast.unparse(tst.args[1]).split(".")[-1] == "Variable")
    if not (isvar and len(i.body) == 1 and key_error_try(i.body[0], by_name)
            and is_none_ret(i.body[0].handlers[0].body) and is_none_ret(i.orelse)):
        raise ExtractError(f"{what}: unreadable by-name fallback")
    return ["by-node", "KeyError", "Variable:by-name", "KeyError:None", "else:None"]


def read_substitute(fn):
    what = "substitute"
    t = _fn_ast(fn, what)
    sig = inspect.signature(fn)
    params = list(sig.parameters)
    if params[:3] != ["expression", "variable_assignments", "mapper_cls"] or len(params) != 4 \
            or sig.parameters[params[3]].kind is not inspect.Parameter.VAR_KEYWORD:
        raise ExtractError(f"{what}: unexpected signature {params}")
    if sig.parameters["variable_assignments"].default is not None:
        raise ExtractError(f"{what}: default of variable_assignments is not None")
    dflt = sig.parameters["mapper_cls"].default
    if not inspect.isclass(dflt):
        raise ExtractError(f"{what}: default mapper_cls is not a class")
    kw = params[3]
    steps = []
    for st in _body(t):
        u = ast.unparse(st)
        if u == "if variable_assignments is None:\n    variable_assignments = {}":
            steps.append("none->empty")
        elif u == "variable_assignments = variable_assignments.copy()":
            steps.append("copy")
        elif u == f"variable_assignments.update({kw})":
            steps.append("update-kwargs")
        elif u == "return mapper_cls(make_subst_func(variable_assignments))(expression)":
            if fn.__globals__.get("make_subst_func") is None:
                raise ExtractError(f"{what}: make_subst_func unbound")
            steps.append("apply")
        else:
            raise ExtractError(f"{what}: unknown statement `{u[:70]}`")
    return [dflt.__name__] + steps


def substitutor_table():
    import pymbolic.mapper.substitutor as sm
    import pymbolic.mapper as pm
    S, C = sm.SubstitutionMapper, sm.CachedSubstitutionMapper
    own = sorted(n for n in S.__dict__ if n.startswith("map_"))
    extra = sorted(n for n in C.__dict__ if n.startswith("map_") or n in ("__call__", "rec", "get_cache_key"))
    if extra:
        raise ExtractError(f"CachedSubstitutionMapper overrides {extra}")
    fam = [k.__name__ for k in C.__mro__ if k.__module__ in (sm.__name__, pm.__name__)]
    return {
        "handlers": [read_handler(S, n) for n in own],
        "init": read_init(S),
        "cachedInit": read_init(C),
        "cachedMro": fam,
        "makeSubstFunc": read_make_subst_func(sm.make_subst_func),
        "substitute": read_substitute(sm.substitute),
    }


def q(s):
    return '"' + s.replace("\\", "\\\\").replace('"', '\\"') + '"'


def ls(xs):
    return "[" + ", ".join(q(x) for x in xs) + "]"


def extract_substitutor(ctx=None):
    t = substitutor_table()
    text = ("/- GENERATED by extract/substitutor.py from the live source of pymbolic/mapper/substitutor.py — "
            "do not edit. -/\nnamespace PV.Generated\n\n"
            "structure SubstitutorTable where\n"
            "  handlers : List (List String)\n  init : List String\n  cachedInit : List String\n"
            "  cachedMro : List String\n  makeSubstFunc : List String\n  substitute : List String\n"
            "  deriving DecidableEq, Repr\n\n"
            "def substitutorTable : SubstitutorTable := {\n"
            f"  handlers := [{', '.join(ls(h) for h in t['handlers'])}],\n"
            f"  init := {ls(t['init'])},\n  cachedInit := {ls(t['cachedInit'])},\n"
            f"  cachedMro := {ls(t['cachedMro'])},\n  makeSubstFunc := {ls(t['makeSubstFunc'])},\n"
            f"  substitute := {ls(t['substitute'])}\n}}\n\nend PV.Generated\n")
    path = os.path.join(LEAN, "PV", "Generated", "Substitutor.lean")
    old = open(path).read() if os.path.exists(path) else None
    if old != text:
        with open(path, "w") as f:
            f.write(text)
    return t
