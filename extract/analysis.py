"""T-gen for C09: regenerate lean/PV/Generated/Analysis.lean from the LIVE source of the three
analyses of the working tree under check (`ctx["repo"]`):

  * `DependencyMapper` (pymbolic/mapper/dependency.py) on top of `CSECachingMapperMixin`,
    `Collector`, `CombineMapper`, `Mapper` (pymbolic/mapper/__init__.py),
  * `FlopCounterBase`, `FlopCounter`, `CSEAwareFlopCounter` (pymbolic/mapper/flop_counter.py),
  * `NodeCountMapper`, `get_num_nodes` (pymbolic/mapper/analysis.py) on top of `CachedWalkMapper`,
    `CachedMapper`, `WalkMapper`.

A mapper class is written as the list of LAYERS of its MRO; a layer holds the `map_*` functions the
class body defines, each parsed with `ast` into the handler language `C09Body`
(lean/PV/Model/AnalysisTable.lean): which flag is tested and how (`== "literal"` / truthiness),
what is returned (`{expr}`, `set()`, `self.combine([...])` over which recursion sites,
`super().map_x(...)`, `Collector.map_x(self, ...)`), the flop increment as an expression in
`len(expr.children)`, `self.rec(...)`, `sum(...)`, `max(...)`, the seen-set test and update.  The
layers of `CombineMapper` and `Mapper` are NOT re-read here: they are the rows of the C04 table
`c04CombineTable` (extract/traversal.py), referenced by class name — the handlers inherited from
`CombineMapper` are governed by the C04 combine table.  `Collector.combine` /
`FlopCounterBase.combine`, `DependencyMapper.__init__`, the memo protocol of
`CachedMapper.__call__`, the `visit` / `post_visit` hooks of `NodeCountMapper` and the body of
`get_num_nodes` are read too.

What is recorded is what the source SAYS.  A shape this reader does not know is an `ExtractError`
(reported by the check as a broken obligation) — never a default.
"""
from __future__ import annotations

import ast
import inspect
import os

from harness.leanio import LEAN

from .classes import ExtractError
from .prec import write_if_changed
from .traversal import _fn_ast as _fn_ast_raw
from .traversal import (_body, _expr_field, _name, _self_call, _site_comprehension,
                        _site_direct, lb, lean_recs, lean_strs, q)

# layers that are rows of the C04 combine table (extract/traversal.py: `handler_table(CombineMapper)`)
C04_LAYERS = ("CombineMapper", "Mapper")


def _fn_ast(fn, what):
    """the function's AST; a decorated function is outside every reader here"""
    node = _fn_ast_raw(fn, what)
    if node.decorator_list:
        raise ExtractError(f"{what}: decorated ({ast.unparse(node.decorator_list[0])})")
    if getattr(fn, "__wrapped__", None) is not None:
        raise ExtractError(f"{what}: a wrapper around another function")
    return node


# {{{ signatures

def _sig(fn: ast.FunctionDef, what):
    """(has *args, has **kwargs); the positional parameters must be exactly (self, expr)"""
    a = fn.args
    if ([x.arg for x in a.args] != ["self", "expr"] or a.kwonlyargs or a.posonlyargs or a.defaults
            or (a.vararg is not None and a.vararg.arg != "args")
            or (a.kwarg is not None and a.kwarg.arg != "kwargs")):
        raise ExtractError(f"{what}: signature is not (self, expr[, *args[, **kwargs]])")
    return a.vararg is not None, a.kwarg is not None


def _passes_on(call: ast.Call, what, sig, npos=1):
    """a call that hands the handler's extra arguments on: exactly the `*args` / `**kwargs` the
    signature has must follow the `npos` leading positional arguments"""
    pos = [a for a in call.args if not isinstance(a, ast.Starred)]
    star = [a for a in call.args if isinstance(a, ast.Starred)]
    dstar = [k for k in call.keywords if k.arg is None]
    if (len(pos) != npos or call.args[:npos] != pos or any(k.arg is not None for k in call.keywords)
            or any(not _name(s.value, "args") for s in star)
            or any(not _name(k.value, "kwargs") for k in dstar)
            or len(star) != int(sig[0]) or len(dstar) != int(sig[1])):
        raise ExtractError(f"{what}: the extra arguments are not passed on unchanged in "
                           f"`{ast.unparse(call)}`")

# }}}


# {{{ DependencyMapper / Collector / CSECachingMapperMixin bodies

def _self_attr(n):
    """`self.A` -> A"""
    if isinstance(n, ast.Attribute) and _name(n.value, "self"):
        return n.attr
    return None


def _sites_of_list(n, what):
    """`[rec … for …]` / `[…] + […]` -> recursion sites, in evaluation order"""
    if isinstance(n, ast.BinOp) and isinstance(n.op, ast.Add):
        return _sites_of_list(n.left, what) + _sites_of_list(n.right, what)
    if isinstance(n, ast.ListComp):
        r = _site_comprehension(n, what)
        if r is not None:
            return [r]
    if isinstance(n, (ast.List, ast.Tuple)):
        out = []
        for e in n.elts:
            r = _site_comprehension(e.value, what) if isinstance(e, ast.Starred) else _site_direct(e, what)
            if r is None:
                raise ExtractError(f"{what}: unreadable element of the combine argument: "
                                   f"{ast.unparse(e)[:60]}")
            out.append(r)
        return out
    raise ExtractError(f"{what}: unreadable argument of self.combine: {ast.unparse(n)[:80]}")


def _dep_return(v, what, sig, cls, name):
    """value of a `return` of a set-valued handler"""
    # {expr}
    if isinstance(v, ast.Set) and len(v.elts) == 1 and _name(v.elts[0], "expr"):
        return ("single",)
    # set()
    if isinstance(v, ast.Call) and _name(v.func, "set") and not v.args and not v.keywords:
        return ("empty",)
    # self.rec(expr.F, *args, **kwargs)
    if _self_call(v, "rec"):
        r = _site_direct(v, what)
        if not r["fwd"] and (sig[0] or sig[1]):
            raise ExtractError(f"{what}: a recursive call drops the extra arguments")
        return ("recOne", r)
    # self.combine([...])
    if _self_call(v, "combine"):
        if len(v.args) != 1 or v.keywords:
            raise ExtractError(f"{what}: self.combine takes one argument")
        recs = _sites_of_list(v.args[0], what)
        for r in recs:
            if not r["fwd"] and (sig[0] or sig[1]):
                raise ExtractError(f"{what}: a recursive call drops the extra arguments")
        return ("combine", recs)
    # super().map_x(expr, *args, **kwargs)
    if (isinstance(v, ast.Call) and isinstance(v.func, ast.Attribute)
            and isinstance(v.func.value, ast.Call) and _name(v.func.value.func, "super")
            and not v.func.value.args and not v.func.value.keywords):
        if not (v.args and _name(v.args[0], "expr")):
            raise ExtractError(f"{what}: super().{v.func.attr} is not applied to expr")
        _passes_on(v, what, sig)
        return ("super", v.func.attr)
    # Base.map_x(self, expr, *args, **kwargs)
    if (isinstance(v, ast.Call) and isinstance(v.func, ast.Attribute) and isinstance(v.func.value, ast.Name)
            and v.func.value.id not in ("self", "expr") and v.func.attr.startswith("map_")):
        base = v.func.value.id
        if not (len(v.args) >= 2 and _name(v.args[0], "self") and _name(v.args[1], "expr")):
            raise ExtractError(f"{what}: {base}.{v.func.attr} is not applied to (self, expr, …)")
        _passes_on(v, what, sig, npos=2)
        mro = [k.__name__ for k in cls.__mro__]
        if base not in mro[mro.index(_defining(cls, name).__name__) + 1:]:
            raise ExtractError(f"{what}: {base} is not a later class of the MRO of {cls.__name__}")
        return ("base", base, v.func.attr)
    raise ExtractError(f"{what}: unreadable return value `{ast.unparse(v)[:80]}`")


def _single_return(stmts, what):
    if len(stmts) != 1 or not isinstance(stmts[0], ast.Return) or stmts[0].value is None:
        raise ExtractError(f"{what}: branch is not a single `return <value>`")
    return stmts[0].value


def _dep_block(stmts, what, sig, cls, name):
    """`return V` | `if TEST: block else: block` (elif chains included)"""
    if len(stmts) == 1 and isinstance(stmts[0], ast.If):
        s = stmts[0]
        if not s.orelse:
            raise ExtractError(f"{what}: `if` without `else`")
        t = s.test
        then = _dep_block(s.body, what, sig, cls, name)
        other = _dep_block(s.orelse, what, sig, cls, name)
        # self.F == "literal"
        if (isinstance(t, ast.Compare) and len(t.ops) == 1 and isinstance(t.ops[0], ast.Eq)
                and _self_attr(t.left) and isinstance(t.comparators[0], ast.Constant)
                and isinstance(t.comparators[0].value, str)):
            return ("ifFlagEq", _self_attr(t.left), t.comparators[0].value, then, other)
        # self.F
        if _self_attr(t):
            return ("ifFlag", _self_attr(t), then, other)
        raise ExtractError(f"{what}: unreadable test `{ast.unparse(t)}`")
    return _dep_return(_single_return(stmts, what), what, sig, cls, name)


def read_dep_handler(fn, what, cls, name):
    sig = _sig(fn, what)
    return _dep_block(_body(fn), what, sig, cls, name)


_CSE_MEMO = """\
try:
    ccd = self.{attr}
except AttributeError:
    ccd = self.{attr} = {{}}
key = (expr, *args)
try:
    return ccd[key]
except KeyError:
    result = self.{unc}(expr, *args)
    ccd[key] = result
    return result"""


def read_cse_memo(fn, what):
    """`CSECachingMapperMixin.map_common_subexpression`: the per-INSTANCE dictionary keyed by
    `(expr, *args)`, a miss computed by `self.<uncached>(expr, *args)` and stored.  Read by exact
    comparison with the expected statement sequence (modulo the two names)."""
    a = fn.args
    if ([x.arg for x in a.args] != ["self", "expr"] or a.vararg is None or a.vararg.arg != "args"
            or a.kwarg is not None or a.kwonlyargs or a.defaults):
        raise ExtractError(f"{what}: signature is not (self, expr, *args)")
    body = _body(fn)
    attr = unc = None
    try:
        attr = body[0].body[0].value.attr
        unc = body[2].handlers[0].body[0].value.func.attr
    except (AttributeError, IndexError):
        pass
    if not attr or not unc:
        raise ExtractError(f"{what}: unreadable memo wrapper")
    want = ast.unparse(ast.parse(_CSE_MEMO.format(attr=attr, unc=unc)))
    got = ast.unparse(ast.Module(body=body, type_ignores=[]))
    if got != want:
        raise ExtractError(f"{what}: the memo wrapper is not the expected statement sequence:\n{got}")
    return ("cseMemo", attr, unc)

# }}}


# {{{ flop counter bodies

def _num(n, what, sig):
    if isinstance(n, ast.Constant) and type(n.value) is int and n.value >= 0:
        return ("lit", n.value)
    if isinstance(n, ast.BinOp) and isinstance(n.op, (ast.Add, ast.Sub)):
        return ("add" if isinstance(n.op, ast.Add) else "sub", _num(n.left, what, sig),
                _num(n.right, what, sig))
    if isinstance(n, ast.Call) and _name(n.func, "len") and len(n.args) == 1 and not n.keywords:
        f = _expr_field(n.args[0])
        if f:
            return ("len", f)
    if isinstance(n, ast.Call) and _name(n.func, "max") and len(n.args) == 2 and not n.keywords:
        return ("max", _num(n.args[0], what, sig), _num(n.args[1], what, sig))
    if isinstance(n, ast.Call) and _name(n.func, "sum") and len(n.args) == 1 and not n.keywords:
        r = _site_comprehension(n.args[0], what)
        if r is not None:
            return ("recSum", r)
    if _self_call(n, "rec"):
        r = _site_direct(n, what)
        if r is not None:
            return ("recSum", r)
    raise ExtractError(f"{what}: unreadable integer expression `{ast.unparse(n)[:80]}`")


def _flop_block(stmts, what, sig):
    """`return N` | `if expr.F: … else: …` | `if expr in self.A: … else: …` |
    `self.A.add(expr); …`"""
    if not stmts:
        raise ExtractError(f"{what}: empty block")
    s = stmts[0]
    if isinstance(s, ast.Return) and len(stmts) == 1 and s.value is not None:
        return ("num", _num(s.value, what, sig))
    if isinstance(s, ast.If) and len(stmts) == 1:
        if not s.orelse:
            raise ExtractError(f"{what}: `if` without `else`")
        then, other = _flop_block(s.body, what, sig), _flop_block(s.orelse, what, sig)
        t = s.test
        if _expr_field(t):
            return ("ifField", _expr_field(t), then, other)
        if (isinstance(t, ast.Compare) and len(t.ops) == 1 and isinstance(t.ops[0], ast.In)
                and _name(t.left, "expr") and _self_attr(t.comparators[0])):
            return ("ifSeen", _self_attr(t.comparators[0]), then, other)
        raise ExtractError(f"{what}: unreadable test `{ast.unparse(t)}`")
    if (isinstance(s, ast.Expr) and isinstance(s.value, ast.Call) and isinstance(s.value.func, ast.Attribute)
            and s.value.func.attr == "add" and _self_attr(s.value.func.value)
            and len(s.value.args) == 1 and _name(s.value.args[0], "expr") and not s.value.keywords):
        return ("addSeen", _self_attr(s.value.func.value), _flop_block(stmts[1:], what, sig))
    raise ExtractError(f"{what}: unreadable statement `{ast.unparse(s).splitlines()[0][:80]}`")


def read_flop_handler(fn, what, cls=None, name=None):
    sig = _sig(fn, what)
    if sig[1]:
        raise ExtractError(f"{what}: a flop handler takes no **kwargs")
    return _flop_block(_body(fn), what, sig)

# }}}


# {{{ layers

def _defining(cls, name):
    for c in cls.__mro__:
        if name in c.__dict__:
            return c
    raise ExtractError(f"{cls.__name__}.{name}: not found along the MRO")


def _own_rows(k, reader, top):
    rows = []
    for n in sorted(x for x in k.__dict__ if x.startswith("map_") and x != "map_foreign"):
        fn = k.__dict__[n]
        what = f"{k.__name__}.{n}"
        if getattr(fn, "__isabstractmethod__", False):
            continue        # an abstract placeholder: overridden by every concrete class (checked below)
        if not inspect.isfunction(fn):
            raise ExtractError(f"{what}: not a plain function ({type(fn).__name__})")
        node = _fn_ast(fn, what)
        rows.append(dict(name=n, impl=fn.__name__, body=reader(k)(node, what, top, n)))
    return rows


def layers_of(cls, readers):
    """the MRO of `cls` as layers; `readers`: class name -> reader of its own `map_*` functions.
    `CombineMapper` / `Mapper` must close the MRO (they are the C04 combine table)."""
    mro = [k for k in cls.__mro__ if k is not object and k.__name__ != "ABC"]
    names = [k.__name__ for k in mro]
    if tuple(names[-2:]) != C04_LAYERS:
        raise ExtractError(f"{cls.__name__}: the MRO {names} does not end in CombineMapper, Mapper")
    import pymbolic.mapper as pm
    if mro[-2] is not pm.CombineMapper or mro[-1] is not pm.Mapper:
        raise ExtractError(f"{cls.__name__}: CombineMapper / Mapper are not pymbolic.mapper's")
    layers = []
    for k in mro[:-2]:
        if k.__name__ not in readers:
            if any(x.startswith("map_") for x in k.__dict__):
                raise ExtractError(f"{cls.__name__}: unexpected class {k.__name__} with handlers in the MRO")
            layers.append(dict(cls=k.__name__, rows=[]))
        else:
            layers.append(dict(cls=k.__name__, rows=_own_rows(k, lambda kk: readers[kk.__name__], cls)))
    for k in mro[:-2]:
        for forbidden in ("__call__", "rec", "rec_fallback", "map_foreign",
                          "handle_unsupported_expression", "__getattr__", "__getattribute__"):
            if forbidden in k.__dict__ and k.__name__ != "CachedMapper":
                raise ExtractError(f"{k.__name__} overrides {forbidden}")
    # every handler the class has is found where Python finds it
    for n in (x for x in dir(cls) if x.startswith("map_") and x != "map_foreign"):
        owner = _defining(cls, n)
        if getattr(owner.__dict__[n], "__isabstractmethod__", False):
            raise ExtractError(f"{cls.__name__}.{n} is abstract")
        if owner.__name__ in C04_LAYERS:
            if any(n == r["name"] for l in layers for r in l["rows"]):
                raise ExtractError(f"{cls.__name__}.{n}: layer resolution differs from Python's")
        else:
            first = next((l["cls"] for l in layers if any(r["name"] == n for r in l["rows"])), None)
            if first != owner.__name__:
                raise ExtractError(f"{cls.__name__}.{n}: layer resolution differs from Python's")
    return dict(cls=cls.__name__, layers=layers, mro=names)


def read_combine_fn(cls):
    """`combine` as resolved on `cls` -> 'reduceOr' | 'sum'"""
    owner = _defining(cls, "combine")
    node = _fn_ast(owner.__dict__["combine"], f"{owner.__name__}.combine")
    if [a.arg for a in node.args.args] != ["self", "values"] or node.args.vararg or node.args.kwarg:
        raise ExtractError(f"{owner.__name__}.combine: signature is not (self, values)")
    body = _body(node)
    if len(body) != 1 or not isinstance(body[0], ast.Return) or body[0].value is None:
        raise ExtractError(f"{owner.__name__}.combine: body is not a single return")
    src = ast.unparse(body[0].value)
    if src == "sum(values)":
        return owner.__name__, "sum"
    if src == "reduce(operator.or_, values, set())":
        # the two names must be the standard ones (imported inside the function)
        imports = sorted(ast.unparse(s) for s in node.body if isinstance(s, (ast.Import, ast.ImportFrom)))
        if imports != ["from functools import reduce", "import operator"]:
            raise ExtractError(f"{owner.__name__}.combine: unexpected imports {imports}")
        return owner.__name__, "reduceOr"
    raise ExtractError(f"{owner.__name__}.combine: unreadable `{src}`")

# }}}


# {{{ DependencyMapper.__init__

def read_dep_init(cls):
    node = _fn_ast(cls.__dict__["__init__"], f"{cls.__name__}.__init__")
    a = node.args
    if a.vararg or a.kwarg or a.kwonlyargs or a.posonlyargs or a.args[0].arg != "self":
        raise ExtractError("DependencyMapper.__init__: unreadable signature")
    names = [x.arg for x in a.args[1:]]
    if len(a.defaults) != len(names):
        raise ExtractError("DependencyMapper.__init__: a parameter has no default")
    params = []
    for n, d in zip(names, a.defaults):
        if not (isinstance(d, ast.Constant) and (d.value is None or isinstance(d.value, bool))):
            raise ExtractError(f"DependencyMapper.__init__: unreadable default of {n}")
        params.append((n, repr(d.value)))
    comp = {False: None, True: None}
    domain, stores = None, []
    for s in _body(node):
        # if composite_leaves is <bool>: p = <bool> …
        if (isinstance(s, ast.If) and not s.orelse and isinstance(s.test, ast.Compare)
                and len(s.test.ops) == 1 and isinstance(s.test.ops[0], ast.Is)
                and _name(s.test.left, "composite_leaves")
                and isinstance(s.test.comparators[0], ast.Constant)
                and isinstance(s.test.comparators[0].value, bool)):
            v = s.test.comparators[0].value
            if comp[v] is not None or stores or domain is not None:
                raise ExtractError("DependencyMapper.__init__: composite_leaves handled twice / too late")
            sets = []
            for t in s.body:
                if not (isinstance(t, ast.Assign) and len(t.targets) == 1 and _name(t.targets[0])
                        and t.targets[0].id in names and isinstance(t.value, ast.Constant)
                        and t.value.value is v):
                    raise ExtractError(f"DependencyMapper.__init__: unreadable `{ast.unparse(t)}`")
                sets.append(t.targets[0].id)
            comp[v] = sets
            continue
        if (isinstance(s, ast.Assert) and isinstance(s.test, ast.Compare) and len(s.test.ops) == 1
                and isinstance(s.test.ops[0], ast.In) and _name(s.test.left, "include_calls")
                and isinstance(s.test.comparators[0], ast.List)
                and all(isinstance(e, ast.Constant) for e in s.test.comparators[0].elts)):
            if stores:
                raise ExtractError("DependencyMapper.__init__: assert after the stores")
            domain = [repr(e.value) for e in s.test.comparators[0].elts]
            continue
        if (isinstance(s, ast.Assign) and len(s.targets) == 1 and _self_attr(s.targets[0])
                and _name(s.value) and s.value.id in names):
            stores.append((_self_attr(s.targets[0]), s.value.id))
            continue
        raise ExtractError(f"DependencyMapper.__init__: unreadable statement `{ast.unparse(s)[:70]}`")
    if comp[False] is None or comp[True] is None or domain is None:
        raise ExtractError("DependencyMapper.__init__: composite_leaves / assert not found")
    if len({a for a, _ in stores}) != len(stores):
        raise ExtractError("DependencyMapper.__init__: attribute stored twice")
    return dict(params=params, compositeFalse=comp[False], compositeTrue=comp[True],
                callsDomain=domain, stores=stores)

# }}}


# {{{ CSEAwareFlopCounter.__init__, NodeCountMapper

def _super_init(s):
    return isinstance(s, ast.Expr) and ast.unparse(s.value) == "super().__init__()"


def read_seen_init(cls):
    """`super().__init__(); self.<attr> = set()` -> attr"""
    node = _fn_ast(cls.__dict__["__init__"], f"{cls.__name__}.__init__")
    if [a.arg for a in node.args.args] != ["self"] or node.args.vararg or node.args.kwarg:
        raise ExtractError(f"{cls.__name__}.__init__: signature is not (self)")
    body = _body(node)
    if not (len(body) == 2 and _super_init(body[0]) and isinstance(body[1], ast.Assign)
            and len(body[1].targets) == 1 and _self_attr(body[1].targets[0])
            and ast.unparse(body[1].value) == "set()"):
        raise ExtractError(f"{cls.__name__}.__init__: not `super().__init__(); self.<attr> = set()`")
    return _self_attr(body[1].targets[0])


def read_hook(cls, name, counter):
    """`visit` / `post_visit` as resolved on `cls`: statements `self.<counter> += n`, `pass`, and an
    optional final `return True`"""
    owner = _defining(cls, name)
    fn = owner.__dict__[name]
    what = f"{owner.__name__}.{name}"
    if not inspect.isfunction(fn):
        raise ExtractError(f"{what}: not a plain function")
    node = _fn_ast(fn, what)
    if [a.arg for a in node.args.args][:2] != ["self", "expr"]:
        raise ExtractError(f"{what}: signature does not start with (self, expr)")
    incr, ret = 0, False
    body = _body(node)
    for i, s in enumerate(body):
        if isinstance(s, ast.Pass):
            continue
        if (isinstance(s, ast.AugAssign) and isinstance(s.op, ast.Add) and _self_attr(s.target) == counter
                and isinstance(s.value, ast.Constant) and type(s.value.value) is int and s.value.value >= 0):
            incr += s.value.value
            continue
        if (isinstance(s, ast.Return) and i == len(body) - 1 and isinstance(s.value, ast.Constant)
                and s.value.value is True):
            ret = True
            continue
        raise ExtractError(f"{what}: unreadable statement `{ast.unparse(s)[:70]}`")
    return dict(definedIn=owner.__name__, incr=incr, returnsTrue=ret)


def read_node_count():
    import pymbolic.mapper as pm
    import pymbolic.mapper.analysis as an
    from .evaluator import read_memo, rec_owner
    cls = an.NodeCountMapper
    mro = [k.__name__ for k in cls.__mro__ if k is not object]
    # __init__: super().__init__(); self.<counter> = <n>
    node = _fn_ast(cls.__dict__["__init__"], "NodeCountMapper.__init__")
    body = _body(node)
    if not (len(body) == 2 and _super_init(body[0]) and isinstance(body[1], ast.Assign)
            and len(body[1].targets) == 1 and _self_attr(body[1].targets[0])
            and isinstance(body[1].value, ast.Constant) and type(body[1].value.value) is int
            and body[1].value.value >= 0):
        raise ExtractError("NodeCountMapper.__init__: not `super().__init__(); self.<counter> = <n>`")
    counter, initial = _self_attr(body[1].targets[0]), body[1].value.value
    # nothing but __init__ and the hooks is overridden above CachedMapper / WalkMapper
    for k in cls.__mro__:
        if k in (pm.CachedMapper, pm.WalkMapper, pm.Mapper, object):
            continue
        extra = sorted(x for x, v in k.__dict__.items()
                       if (inspect.isfunction(v) or isinstance(v, (staticmethod, classmethod, property)))
                       and x not in ("__init__", "visit", "post_visit"))
        if extra:
            raise ExtractError(f"{k.__name__} defines {extra}: outside the NodeCountMapper reader")
        if k is not cls and "__init__" in k.__dict__:
            raise ExtractError(f"{k.__name__} defines __init__")
    if pm.CachedMapper not in cls.__mro__ or pm.WalkMapper not in cls.__mro__:
        raise ExtractError("NodeCountMapper is not a CachedMapper over WalkMapper")
    # every handler is WalkMapper's (so that the C04 walk table governs)
    for n in (x for x in dir(cls) if x.startswith("map_")):
        if getattr(cls, n) is not getattr(pm.WalkMapper, n):
            raise ExtractError(f"NodeCountMapper.{n} is not WalkMapper.{n}")
    # CachedMapper.__init__ creates an empty per-instance cache
    cinit = ast.unparse(ast.Module(body=_body(_fn_ast(pm.CachedMapper.__dict__["__init__"],
                                                     "CachedMapper.__init__")), type_ignores=[]))
    if cinit != "self._cache: dict[Any, Any] = {}\nMapper.__init__(self)":
        raise ExtractError(f"CachedMapper.__init__: unreadable body\n{cinit}")
    # get_num_nodes
    g = _fn_ast(an.get_num_nodes, "get_num_nodes")
    if [a.arg for a in g.args.args] != ["expr"]:
        raise ExtractError("get_num_nodes: signature is not (expr)")
    gb = [ast.unparse(s) for s in _body(g)]
    fresh = len(gb) == 3 and gb[0].endswith("= NodeCountMapper()") and " = " in gb[0]
    var = gb[0].split(" = ")[0] if fresh else None
    if not (fresh and gb[1] == f"{var}(expr)" and gb[2] == f"return {var}.{counter}"):
        raise ExtractError(f"get_num_nodes: unreadable body {gb}")
    if g_global(an.get_num_nodes, "NodeCountMapper") is not cls:
        raise ExtractError("get_num_nodes: NodeCountMapper is not the class of this module")
    return dict(mro=mro, recOwner=rec_owner(cls), memo=read_memo(pm.CachedMapper),
                visit=read_hook(cls, "visit", counter), postVisit=read_hook(cls, "post_visit", counter),
                counter=counter, initial=initial, freshMapper=True, returnsCounter=True)


def g_global(fn, name):
    return fn.__globals__.get(name)

# }}}


# {{{ tables

def tables(ctx=None):
    import pymbolic.mapper as pm
    import pymbolic.mapper.analysis as an
    import pymbolic.mapper.dependency as dp
    import pymbolic.mapper.flop_counter as fc
    from .evaluator import check_repo, rec_owner
    check_repo(ctx, [pm, an, dp, fc])

    def collector_reader(node, what, cls, name):
        _sig(node, what)
        b = read_dep_handler(node, what, cls, name)
        return b

    def mixin_reader(node, what, cls, name):
        if name != "map_common_subexpression":
            raise ExtractError(f"{what}: unexpected handler of CSECachingMapperMixin")
        return read_cse_memo(node, what)

    dep_readers = dict(DependencyMapper=read_dep_handler, CSECachingMapperMixin=mixin_reader,
                       Collector=collector_reader, CachedDependencyMapper=read_dep_handler)
    flop_readers = dict(FlopCounterBase=read_flop_handler, CSEAwareFlopCounter=read_flop_handler,
                        FlopCounter=read_flop_handler)
    dep = layers_of(dp.DependencyMapper, dep_readers)
    cdep = layers_of(dp.CachedDependencyMapper, dep_readers)
    flop = layers_of(fc.FlopCounter, flop_readers)
    flopcse = layers_of(fc.CSEAwareFlopCounter, flop_readers)
    # the cached dependency mapper adds nothing but the memo of CachedMapper
    if [l for l in cdep["layers"] if l["rows"]] != [l for l in dep["layers"] if l["rows"]]:
        raise ExtractError("CachedDependencyMapper: handlers differ from DependencyMapper's")
    seen_attr = read_seen_init(fc.CSEAwareFlopCounter)
    for k in (fc.FlopCounterBase, fc.FlopCounter):
        if "__init__" in k.__dict__:
            src = [ast.unparse(s) for s in _body(_fn_ast(k.__dict__["__init__"], f"{k.__name__}.__init__"))]
            if sorted(src) != ["CachedMapper.__init__(self)", "FlopCounterBase.__init__(self)"]:
                raise ExtractError(f"{k.__name__}.__init__: unreadable body {src}")
    return dict(
        dep=dep, cdep=cdep, flop=flop, flopcse=flopcse,
        depCombine=read_combine_fn(dp.DependencyMapper),
        flopCombine=read_combine_fn(fc.FlopCounterBase),
        flopCseCombine=read_combine_fn(fc.CSEAwareFlopCounter),
        flopCachedCombine=read_combine_fn(fc.FlopCounter),
        depInit=read_dep_init(dp.DependencyMapper),
        seenAttr=seen_attr,
        recOwners=[(k.__name__, rec_owner(k)) for k in
                   (dp.DependencyMapper, dp.CachedDependencyMapper, fc.FlopCounter,
                    fc.CSEAwareFlopCounter, an.NodeCountMapper)],
        count=read_node_count())

# }}}


# {{{ Lean output

def lean_num(n):
    k = n[0]
    if k == "lit":
        return f"(.lit {n[1]})"
    if k == "len":
        return f"(.len {q(n[1])})"
    if k in ("add", "sub", "max"):
        return f"(.{k} {lean_num(n[1])} {lean_num(n[2])})"
    if k == "recSum":
        return f"(.recSum {lean_recs([n[1]])[1:-1]})"
    raise ExtractError(f"unknown integer expression {k}")


def lean_body(b):
    k = b[0]
    if k in ("single", "empty"):
        return "." + k
    if k == "combine":
        return f"(.combine {lean_recs(b[1])})"
    if k == "recOne":       # `return self.rec(expr.F, …)`: the shape of a `CombineMapper` row
        return f"(.c04 (.fold false {lean_recs([b[1]])}))"
    if k == "super":
        return f"(.super {q(b[1])})"
    if k == "base":
        return f"(.base {q(b[1])} {q(b[2])})"
    if k == "ifFlagEq":
        return f"(.ifFlagEq {q(b[1])} {q(b[2])} {lean_body(b[3])} {lean_body(b[4])})"
    if k in ("ifFlag", "ifField", "ifSeen"):
        return f"(.{k} {q(b[1])} {lean_body(b[2])} {lean_body(b[3])})"
    if k == "cseMemo":
        return f"(.cseMemo {q(b[1])} {q(b[2])})"
    if k == "num":
        return f"(.num {lean_num(b[1])})"
    if k == "addSeen":
        return f"(.addSeen {q(b[1])} {lean_body(b[2])})"
    raise ExtractError(f"unknown body kind {k}")


def lean_layers(t):
    out = []
    for l in t["layers"]:
        rows = ",\n".join(f"    ⟨{q(r['name'])}, {q(r['impl'])},\n      {lean_body(r['body'])}⟩"
                          for r in l["rows"])
        out.append(f"  ⟨{q(l['cls'])}, [" + ("\n" + rows if rows else "") + "]⟩")
    for c in C04_LAYERS:
        out.append(f"  c09C04Layer {q(c)} c04CombineTable")
    return "[\n" + ",\n".join(out) + "\n]"


def lean_pairs(ps):
    return "[" + ", ".join(f"({q(a)}, {q(b)})" for a, b in ps) + "]"


def lean_hook(h):
    return f"{{ definedIn := {q(h['definedIn'])}, incr := {h['incr']}, returnsTrue := {lb(h['returnsTrue'])} }}"


def render(t):
    out = ["import PV.Model.AnalysisTable",
           "import PV.Generated.Traversal",
           "/- GENERATED by extract/analysis.py from the live source of pymbolic/mapper/dependency.py,",
           "   flop_counter.py, analysis.py and __init__.py — do not edit. -/",
           "namespace PV.Generated", ""]
    for key, ident, doc in (
            ("dep", "c09DepLayers", "`DependencyMapper`"),
            ("flop", "c09FlopLayers", "`FlopCounter` (`CachedMapper` over `FlopCounterBase`)"),
            ("flopcse", "c09FlopCseLayers", "`CSEAwareFlopCounter`")):
        out.append(f"/-- the MRO of {doc} as layers of `map_*` functions; the last two are rows of the\n"
                   f"C04 combine table -/\n"
                   f"def {ident} : List C09Layer := {lean_layers(t[key])}\n")
    out.append(f"/-- class names along the MRO of `CachedDependencyMapper` (its handlers are "
               f"`DependencyMapper`'s) -/\n"
               f"def c09CachedDepMro : List String := {lean_strs(t['cdep']['mro'])}\n")
    for key, ident in (("depCombine", "c09DepCombine"), ("flopCombine", "c09FlopCombine"),
                       ("flopCseCombine", "c09FlopCseCombine"), ("flopCachedCombine", "c09FlopCachedCombine")):
        out.append(f"/-- `combine` as resolved on the class: (defining class, body) -/\n"
                   f"def {ident} : String × C09Combine := ({q(t[key][0])}, .{t[key][1]})\n")
    d = t["depInit"]
    out.append("/-- `DependencyMapper.__init__` -/\n"
               "def c09DepInit : C09DepInit :=\n"
               f"  {{ params := {lean_pairs(d['params'])},\n"
               f"    compositeFalse := {lean_strs(d['compositeFalse'])},\n"
               f"    compositeTrue := {lean_strs(d['compositeTrue'])},\n"
               f"    callsDomain := {lean_strs(d['callsDomain'])},\n"
               f"    stores := {lean_pairs(d['stores'])} }}\n")
    out.append("/-- the attribute `CSEAwareFlopCounter.__init__` initialises with `set()` -/\n"
               f"def c09FlopSeenAttr : String := {q(t['seenAttr'])}\n")
    out.append("/-- mapper class ↦ class whose `__call__` is its `rec` -/\n"
               f"def c09RecOwners : List (String × String) := {lean_pairs(t['recOwners'])}\n")
    c = t["count"]
    m = c["memo"]
    out.append("/-- `NodeCountMapper` / `get_num_nodes` -/\n"
               "def c09CountSpec : C09CountSpec :=\n"
               f"  {{ mro := {lean_strs(c['mro'])},\n"
               f"    recOwner := {q(c['recOwner'])},\n"
               f"    memo := {{ lookupFirst := {lb(m['lookupFirst'])}, keyType := {lb(m['keyType'])}, "
               f"keyExpr := {lb(m['keyExpr'])}, storeMethod := {lb(m['storeMethod'])}, "
               f"storeFallback := {lb(m['storeFallback'])} }},\n"
               f"    visit := {lean_hook(c['visit'])},\n"
               f"    postVisit := {lean_hook(c['postVisit'])},\n"
               f"    counter := {q(c['counter'])}, initial := {c['initial']},\n"
               f"    freshMapper := {lb(c['freshMapper'])}, returnsCounter := {lb(c['returnsCounter'])} }}\n")
    out.append("end PV.Generated\n")
    return "\n".join(out)


def extract_analysis(ctx=None):
    from .traversal import extract_traversal
    extract_traversal(ctx)        # `c04CombineTable` / `c04WalkTable` / `c04Classes` of the same tree
    t = tables(ctx)
    write_if_changed(os.path.join(LEAN, "PV", "Generated", "Analysis.lean"), render(t))
    return t

# }}}


if __name__ == "__main__":
    import pprint
    pprint.pprint(extract_analysis(), width=140)
