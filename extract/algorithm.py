"""T-gen for C19: regenerate lean/PV/Generated/Algo.lean from the LIVE source of the
exact-arithmetic helpers of the tree under test:

  pymbolic/algorithm.py    integer_power, extended_euclidean, gcd, lcm, find_factors, fft, ifft
                           (and the call shape of sym_fft)
  pymbolic/polynomial.py   _sort_uniq, Polynomial.__init__ / __neg__ / __add__ / __radd__ / __sub__ /
                           __mul__ / __rmul__ / __pow__ / __divmod__ / traits, the properties
                           data / base / unit / degree, PolynomialTraits, leading_coefficient
  pymbolic/traits.py       traits, common_traits (rule chain), IntegerTraits.norm / get_unit, EuclideanRingTraits.gcd /
                           gcd_extended / lcm
  pymbolic/rational.py     Rational.__init__, __neg__, __bool__, reciprocal, the properties, and whichever of
                           __add__ / __radd__ / __sub__ / __rsub__ / __mul__ / __rmul__ / __div__ / __rdiv__ /
                           __truediv__ / __rtruediv__ / __pow__ the class itself defines (aliases such as
                           `__radd__ = __add__` are translated under their own name)
  pymbolic/primitives.py   quotient
  pymbolic/mapper/evaluator.py   EvaluationMapper.map_polynomial, map_quotient
  pymbolic/mapper/__init__.py    IdentityMapper.map_polynomial

Every function BODY is translated statement by statement into the small imperative language of
lean/PV/Model/AlgoTable.lean (`C19S` / `C19E`): loops with their state and update order, early
returns, tuple assignments, augmented assignments, list mutation, comprehensions, `try/except`,
method calls, constructor calls with defaults filled in from the live signature.  The translation
is purely syntactic; names are resolved like Python does (locals, function-level imports, module
globals, builtins; methods through `cls.__dict__` along the MRO, aliases such as
`__truediv__ = __div__` included), and the live objects are checked to come from the tree under
test.

What is NOT translated by the general reader, and how it is handled instead:

  * the parameter-processing block of `fft` (deprecation warnings, nested adapter functions, numpy
    defaults): every statement is matched against a known shape and recorded as a tag
    (`fftPreamble`); the body from `n = len(x)` on is translated;
    `wrap_intermediate_with_level(level, E)` and `scalar_tp(E)` (locals holding callables) become
    calls of the external names `fft.wrap_intermediate_with_level` / `fft.scalar_tp`;
  * `custom_np.exp(ARG)`: ARG is flattened as a product / quotient chain and must consist of
    `sign`, `-2j`, `pi` (once each), integer-valued names, at most one `custom_np.arange(0, N, …)`
    and one denominator: it becomes `.twiddle sign [factors] den`;
  * `int(sqrt(E))` becomes the builtin `isqrt`;
  * the nested `sortkey` of `_sort_uniq` must return the first component of its pair argument;
    `data.sort(key=sortkey)` becomes `.sortByFirst "data"`;
  * `traits.common_traits` (a `reduce` over a generator with a nested function) is recorded as the
    ordered rule list of `common_traits_two` (field `commonTraits` of the table); a call of it
    becomes `.commonTraits [args]`, which the interpreter evaluates with `traits.traits` of the
    table and that rule list;
  * `sym_fft`: the data flow of the returned expression is recorded (`symFftFlow`), and its two
    nested definitions (`NearZeroKiller`, `wrap_intermediate`) are matched against known shapes and
    recorded as tags (`symFftParts`);
  * `try` with SEVERAL `except` clauses is desugared with a selector variable `_handler` (the first
    matching clause runs, a later clause never catches what a handler raises; clauses naming
    related classes are refused);
  * `module.Class.method(self, …)` (an unbound method of a class outside the table, e.g.
    `primitives.Expression.__add__`) and the constructor of a class outside the table (e.g.
    `Quotient(…)`) become calls of the external names `Class.method` / `module.Class`.

An unknown statement / expression shape is an `ExtractError` (reported by the check as a broken
obligation) — never a default.
"""
from __future__ import annotations

import ast
import builtins
import importlib
import inspect
import os
import textwrap
import types

from harness.leanio import LEAN

from .classes import ExtractError
from .prec import write_if_changed


def check_repo(ctx, modules):
    if not ctx or not ctx.get("repo"):
        return
    root = os.path.realpath(ctx["repo"]) + os.sep
    for m in modules:
        f = os.path.realpath(m.__file__)
        if not f.startswith(root):
            raise ExtractError(f"{m.__name__} was imported from {f}, not from the repository "
                               f"under check ({root}); set PYTHONPATH to the working tree")


BUILTINS = {"len", "abs", "int", "bool", "tuple", "range", "enumerate", "zip", "all", "any", "sum",
            "divmod"}
BINOPS = {ast.Add: "add", ast.Sub: "sub", ast.Mult: "mul", ast.FloorDiv: "floordiv",
          ast.Mod: "mod", ast.Div: "truediv", ast.Pow: "pow", ast.BitAnd: "bitand"}
CMPOPS = {ast.Lt: "lt", ast.Gt: "gt", ast.LtE: "le", ast.GtE: "ge", ast.Eq: "eq", ast.NotEq: "ne",
          ast.Is: "is", ast.IsNot: "isNot"}
FFT_EXT_CALLABLES = ("wrap_intermediate_with_level", "scalar_tp")


def q(s):
    return '"' + s.replace("\\", "\\\\").replace('"', '\\"') + '"'


def lint(i):
    return f"(.int {i})" if i >= 0 else f"(.int ({i}))"


def short(n):
    return ast.unparse(n).splitlines()[0][:80]


def modtag(mod):
    return mod.__name__.split(".")[-1] if mod.__name__ != "pymbolic.mapper" else "mapper"


def fn_ast(fn, what):
    try:
        src = textwrap.dedent(inspect.getsource(fn))
    except (OSError, TypeError) as e:
        raise ExtractError(f"{what}: no source ({e})")
    mod = ast.parse(src)
    if len(mod.body) != 1 or not isinstance(mod.body[0], ast.FunctionDef):
        raise ExtractError(f"{what}: source is not a single function definition")
    return mod.body[0]


def strip_doc(body):
    out = list(body)
    if (out and isinstance(out[0], ast.Expr) and isinstance(out[0].value, ast.Constant)
            and isinstance(out[0].value.value, str)):
        out = out[1:]
    return out


def unwrap(fn):
    """follow functools.wraps chains (`@memoize`) to the function whose source is the `def`"""
    seen = 0
    while hasattr(fn, "__wrapped__") and seen < 5:
        fn = fn.__wrapped__
        seen += 1
    return fn


def qualname_of(obj):
    """qualified table name of a live function object"""
    obj = unwrap(obj)
    mod = importlib.import_module(obj.__module__)
    qn = obj.__qualname__
    if "<locals>" in qn:
        raise ExtractError(f"call of the nested function {qn}")
    if "." in qn:
        return qn                       # Class.method
    return f"{modtag(mod)}.{qn}"


class Scope:
    """name resolution inside one function body, the way Python does it"""

    def __init__(self, fn, fnast, what):
        self.fn = fn
        self.what = what
        self.globals = fn.__globals__
        a = fnast.args
        self.locals = {x.arg for x in a.posonlyargs + a.args + a.kwonlyargs}
        if a.vararg:
            self.locals.add(a.vararg.arg)
        if a.kwarg:
            self.locals.add(a.kwarg.arg)
        self.locals0 = set(self.locals)
        self.imports = {}
        self.keyfuns = {}
        for n in ast.walk(fnast):
            if isinstance(n, ast.Import):
                for al in n.names:
                    if al.asname:
                        self.imports[al.asname] = importlib.import_module(al.name)
                    else:
                        self.imports[al.name.split(".")[0]] = importlib.import_module(
                            al.name.split(".")[0])
            elif isinstance(n, ast.ImportFrom):
                if n.level:
                    raise ExtractError(f"{what}: relative import inside a function")
                m = importlib.import_module(n.module)
                for al in n.names:
                    self.imports[al.asname or al.name] = getattr(m, al.name)
            elif isinstance(n, ast.Name) and isinstance(n.ctx, ast.Store):
                self.locals.add(n.id)
            elif isinstance(n, ast.FunctionDef) and n is not fnast:
                self.locals.add(n.name)
        params = set(self.locals0)
        self.locals -= set(self.imports) - params
        for pn in params:
            self.imports.pop(pn, None)

    def lookup_is_local(self, name):
        return name in self.locals

    def lookup(self, name):
        """('local', None) | ('obj', live object)"""
        if name in self.locals:
            return ("local", None)
        if name in self.imports:
            return ("obj", self.imports[name])
        if name in self.globals:
            return ("obj", self.globals[name])
        if hasattr(builtins, name):
            return ("obj", getattr(builtins, name))
        raise ExtractError(f"{self.what}: unresolvable name {name}")


class Translator:
    def __init__(self, known_classes, fields, fft_mode=False):
        self.known_classes = known_classes      # name -> live class
        self.fields = fields                    # instance attribute names of the table classes
        self.fft_mode = fft_mode

    # {{{ expressions

    def class_name(self, n, sc, what):
        """a class expression inside isinstance -> its __name__"""
        if isinstance(n, ast.Name):
            kind, obj = sc.lookup(n.id)
            if kind == "obj" and isinstance(obj, type):
                return obj.__name__
        if isinstance(n, ast.Attribute) and isinstance(n.value, ast.Name):
            kind, obj = sc.lookup(n.value.id)
            if kind == "obj" and isinstance(obj, types.ModuleType):
                c = getattr(obj, n.attr, None)
                if isinstance(c, type):
                    return c.__name__
        raise ExtractError(f"{what}: unreadable class expression `{short(n)}`")

    def args_for(self, call, target, what, skip_first=False):
        """positional argument list of `call` for the live callable `target`: keywords placed,
        defaults (simple constants) filled in"""
        try:
            sig = inspect.signature(target)
        except (TypeError, ValueError) as e:
            raise ExtractError(f"{what}: no signature for {target!r} ({e})")
        params = list(sig.parameters.values())
        if skip_first:
            params = params[1:]
        if any(isinstance(a, ast.Starred) for a in call.args) or any(k.arg is None
                                                                      for k in call.keywords):
            raise ExtractError(f"{what}: star arguments in `{short(call)}`")
        if any(p.kind == p.VAR_KEYWORD for p in params):
            raise ExtractError(f"{what}: callee of `{short(call)}` takes **kwargs")
        if any(p.kind == p.VAR_POSITIONAL for p in params):
            if call.keywords or len(params) != 1:
                raise ExtractError(f"{what}: unreadable call of a variadic function `{short(call)}`")
            return [("ast", a) for a in call.args]
        out = []
        kws = {k.arg: k.value for k in call.keywords}
        pos = list(call.args)
        for p in params:
            if pos and p.kind in (p.POSITIONAL_ONLY, p.POSITIONAL_OR_KEYWORD):
                out.append(("ast", pos.pop(0)))
            elif p.name in kws:
                out.append(("ast", kws.pop(p.name)))
            elif p.default is not p.empty:
                d = p.default
                if d is None or isinstance(d, (bool, int)):
                    out.append(("const", d))
                else:
                    raise ExtractError(f"{what}: default {d!r} of {p.name} is not a simple constant")
            else:
                raise ExtractError(f"{what}: missing argument {p.name} in `{short(call)}`")
        if pos or kws:
            raise ExtractError(f"{what}: surplus arguments in `{short(call)}`")
        return out

    def arglist(self, items, sc, what):
        out = []
        for kind, v in items:
            if kind == "ast":
                out.append(self.expr(v, sc, what))
            elif v is None:
                out.append(".none")
            elif isinstance(v, bool):
                out.append(f"(.bool {'true' if v else 'false'})")
            else:
                out.append(lint(v))
        return "[" + ", ".join(out) + "]"

    def plain_args(self, call, sc, what, forward_ok=False):
        out = []
        for a in call.args:
            if isinstance(a, ast.Starred):
                if forward_ok and isinstance(a.value, ast.Name) and a.value.id == "args":
                    out.append('(.var "args")')
                    continue
                raise ExtractError(f"{what}: star argument in `{short(call)}`")
            out.append(self.expr(a, sc, what))
        for k in call.keywords:
            if (forward_ok and k.arg is None and isinstance(k.value, ast.Name)
                    and k.value.id == "kwargs"):
                out.append('(.var "kwargs")')
                continue
            raise ExtractError(f"{what}: keyword argument in `{short(call)}`")
        return "[" + ", ".join(out) + "]"

    def twiddle(self, arg, sc, what):
        num, den = [], []

        def flat(n, into_num):
            if isinstance(n, ast.BinOp) and isinstance(n.op, ast.Mult):
                flat(n.left, into_num)
                flat(n.right, into_num)
            elif isinstance(n, ast.BinOp) and isinstance(n.op, ast.Div) and into_num:
                flat(n.left, True)
                den.append(n.right)
            else:
                (num if into_num else den).append(n)
        flat(arg, True)
        if len(den) != 1:
            raise ExtractError(f"{what}: twiddle exponent `{short(arg)}` has {len(den)} denominators")
        sign = two_j = pi = 0
        rest = []
        for f in num:
            src = ast.unparse(f)
            if src in ("-2j", "(-2j)"):
                two_j += 1
            elif isinstance(f, ast.Name) and f.id == "sign" and sc.lookup("sign")[0] == "local":
                sign += 1
            elif isinstance(f, ast.Name) and f.id == "pi":
                import math
                kind, obj = sc.lookup("pi")
                if kind != "obj" or obj is not math.pi and obj != math.pi:
                    raise ExtractError(f"{what}: `pi` in a twiddle is not math.pi")
                pi += 1
            elif isinstance(f, ast.Name) and sc.lookup(f.id)[0] == "local":
                rest.append(f'(.var {q(f.id)})')
            elif (isinstance(f, ast.Call) and isinstance(f.func, ast.Attribute)
                  and isinstance(f.func.value, ast.Name) and f.func.value.id == "custom_np"
                  and f.func.attr == "arange"):
                if (len(f.args) != 2 or not (isinstance(f.args[0], ast.Constant)
                                             and f.args[0].value == 0 and
                                             not isinstance(f.args[0].value, bool))
                        or [k.arg for k in f.keywords] != ["dtype"]):
                    raise ExtractError(f"{what}: unreadable index vector `{short(f)}`")
                rest.append(f'(.call "np.arange" [{self.expr(f.args[1], sc, what)}])')
            else:
                raise ExtractError(f"{what}: unreadable twiddle factor `{short(f)}` in `{short(arg)}`")
        if (sign, two_j, pi) != (1, 1, 1):
            raise ExtractError(f"{what}: twiddle exponent `{short(arg)}` is not sign * -2j * pi * … "
                               f"(found sign×{sign}, -2j×{two_j}, pi×{pi})")
        return f'(.twiddle (.var "sign") [{", ".join(rest)}] {self.expr(den[0], sc, what)})'

    def call(self, n, sc, what):
        f = n.func
        # --- plain names -------------------------------------------------------------------
        if isinstance(f, ast.Name):
            kind, obj = sc.lookup(f.id)
            if kind == "local":
                if self.fft_mode and f.id in FFT_EXT_CALLABLES:
                    return f'(.call {q("fft." + f.id)} {self.plain_args(n, sc, what)})'
                raise ExtractError(f"{what}: call of the local name {f.id}")
            return self.call_obj(n, obj, f.id, sc, what)
        # --- module.attr(...) / custom_np.f(...) / recv.method(...) ---------------------
        if isinstance(f, ast.Attribute):
            if isinstance(f.value, ast.Name):
                if self.fft_mode and f.value.id == "custom_np":
                    if f.attr == "exp":
                        if len(n.args) != 1 or n.keywords:
                            raise ExtractError(f"{what}: unreadable `{short(n)}`")
                        return self.twiddle(n.args[0], sc, what)
                    if f.attr == "concatenate":
                        if (len(n.args) != 1 or [k.arg for k in n.keywords] != ["axis"]
                                or not (isinstance(n.keywords[0].value, ast.Constant)
                                        and n.keywords[0].value.value == 0)):
                            raise ExtractError(f"{what}: unreadable `{short(n)}`")
                        return f'(.call "np.concatenate" [{self.expr(n.args[0], sc, what)}])'
                    raise ExtractError(f"{what}: unmodelled numpy function custom_np.{f.attr}")
                kind, obj = sc.lookup(f.value.id)
                if kind == "obj" and isinstance(obj, types.ModuleType):
                    target = getattr(obj, f.attr, None)
                    if target is None:
                        raise ExtractError(f"{what}: {obj.__name__} has no {f.attr}")
                    return self.call_obj(n, target, f.attr, sc, what)
            recv = f.value
            # module.Class.method(self, …): an unbound method of a class reached through a module
            if (isinstance(recv, ast.Attribute) and isinstance(recv.value, ast.Name)
                    and sc.lookup(recv.value.id)[0] == "obj"
                    and isinstance(sc.lookup(recv.value.id)[1], types.ModuleType)
                    and isinstance(getattr(sc.lookup(recv.value.id)[1], recv.attr, None), type)):
                cls = getattr(sc.lookup(recv.value.id)[1], recv.attr)
                raw = next((k.__dict__[f.attr] for k in cls.__mro__ if f.attr in k.__dict__), None)
                if not isinstance(raw, types.FunctionType):
                    raise ExtractError(f"{what}: `{short(f)}` is not a plain method")
                return f'(.call {q(qualname_of(raw))} {self.plain_args(n, sc, what)})'
            if isinstance(recv, ast.Name) or isinstance(recv, (ast.Attribute, ast.Call, ast.UnaryOp)):
                if f.attr in self.fields:
                    # a call of an instance attribute that holds a callable
                    return (f'(.method (.attr {self.expr(recv, sc, what)} {q(f.attr)}) "__call__" '
                            f'{self.plain_args(n, sc, what)})')
                return (f'(.method {self.expr(recv, sc, what)} {q(f.attr)} '
                        f'{self.plain_args(n, sc, what, forward_ok=True)})')
        raise ExtractError(f"{what}: unreadable call `{short(n)}`")

    def call_obj(self, n, obj, shown, sc, what):
        import math
        if obj is isinstance:
            if len(n.args) != 2 or n.keywords:
                raise ExtractError(f"{what}: unreadable `{short(n)}`")
            a, c = n.args
            if isinstance(c, ast.Attribute) and c.attr == "__class__":
                return f'(.isinstOf {self.expr(a, sc, what)} {self.expr(c.value, sc, what)})'
            cs = c.elts if isinstance(c, ast.Tuple) else [c]
            names = ", ".join(q(self.class_name(x, sc, what)) for x in cs)
            return f'(.isinst {self.expr(a, sc, what)} [{names}])'
        if obj is int and len(n.args) == 1 and not n.keywords and isinstance(n.args[0], ast.Call):
            inner = n.args[0]
            if isinstance(inner.func, ast.Name):
                k2, o2 = sc.lookup(inner.func.id)
                if k2 == "obj" and o2 is math.sqrt:
                    if len(inner.args) != 1 or inner.keywords:
                        raise ExtractError(f"{what}: unreadable `{short(n)}`")
                    return f'(.call "isqrt" [{self.expr(inner.args[0], sc, what)}])'
        if obj is math.sqrt:
            raise ExtractError(f"{what}: sqrt outside int(sqrt(…))")
        if getattr(builtins, getattr(obj, "__name__", ""), None) is obj:
            name = obj.__name__
            if name not in BUILTINS:
                raise ExtractError(f"{what}: builtin {name} is outside the language")
            return f'(.call {q(name)} {self.plain_args(n, sc, what)})'
        if isinstance(obj, type) and self.known_classes.get(obj.__name__) is not obj:
            # a class outside the table: its constructor is an external name
            if any(isinstance(a, ast.Starred) for a in n.args) or n.keywords:
                raise ExtractError(f"{what}: unreadable constructor call `{short(n)}`")
            mod = importlib.import_module(obj.__module__)
            return f'(.call {q(modtag(mod) + "." + obj.__name__)} {self.plain_args(n, sc, what)})'
        if isinstance(obj, type):
            init = obj.__dict__.get("__init__") or next(
                (k.__dict__["__init__"] for k in obj.__mro__[:-1] if "__init__" in k.__dict__), None)
            if init is None:
                if n.args or n.keywords:
                    raise ExtractError(f"{what}: arguments to {obj.__name__} which has no __init__")
                return f'(.new {q(obj.__name__)} [])'
            return (f'(.new {q(obj.__name__)} '
                    f'{self.arglist(self.args_for(n, init, what, skip_first=True), sc, what)})')
        if isinstance(unwrap(obj), types.FunctionType) and qualname_of(obj) == "traits.common_traits":
            # its body (a reduce over a generator with a nested rule function) is read by
            # read_common_traits into the rule chain `commonTraits` of the table
            return f'(.commonTraits {self.plain_args(n, sc, what)})'
        if isinstance(unwrap(obj), types.FunctionType):
            return (f'(.call {q(qualname_of(obj))} '
                    f'{self.arglist(self.args_for(n, unwrap(obj), what), sc, what)})')
        raise ExtractError(f"{what}: call of {shown} = {obj!r} is outside the language")

    def expr(self, n, sc, what):
        if isinstance(n, ast.Name):
            kind, obj = sc.lookup(n.id)
            if kind == "local":
                return f"(.var {q(n.id)})"
            raise ExtractError(f"{what}: the global {n.id} used as a value")
        if isinstance(n, ast.Constant):
            v = n.value
            if v is None:
                return ".none"
            if isinstance(v, bool):
                return f"(.bool {'true' if v else 'false'})"
            if isinstance(v, int):
                return lint(v)
            raise ExtractError(f"{what}: constant {v!r} is outside the language")
        if isinstance(n, ast.BinOp):
            op = BINOPS.get(type(n.op))
            if op is None:
                raise ExtractError(f"{what}: operator in `{short(n)}` is outside the language")
            return f"(.bin .{op} {self.expr(n.left, sc, what)} {self.expr(n.right, sc, what)})"
        if isinstance(n, ast.UnaryOp):
            if isinstance(n.op, ast.USub):
                if isinstance(n.operand, ast.Constant) and type(n.operand.value) is int:
                    return lint(-n.operand.value)
                return f"(.neg {self.expr(n.operand, sc, what)})"
            if isinstance(n.op, ast.Not):
                return f"(.not {self.expr(n.operand, sc, what)})"
            raise ExtractError(f"{what}: unary operator in `{short(n)}` is outside the language")
        if isinstance(n, ast.Compare):
            if len(n.ops) != 1 or type(n.ops[0]) not in CMPOPS:
                raise ExtractError(f"{what}: comparison `{short(n)}` is outside the language")
            return (f"(.cmp .{CMPOPS[type(n.ops[0])]} {self.expr(n.left, sc, what)} "
                    f"{self.expr(n.comparators[0], sc, what)})")
        if isinstance(n, ast.BoolOp):
            ctor = ".and" if isinstance(n.op, ast.And) else ".or"
            parts = [self.expr(v, sc, what) for v in n.values]
            out = parts[-1]
            for p in reversed(parts[:-1]):
                out = f"({ctor} {p} {out})"
            return out
        if isinstance(n, (ast.Tuple, ast.List)):
            return "(.tuple [" + ", ".join(self.expr(e, sc, what) for e in n.elts) + "])"
        if isinstance(n, ast.Subscript):
            if isinstance(n.slice, ast.Slice):
                s = n.slice
                if s.upper is not None:
                    raise ExtractError(f"{what}: slice with an upper bound `{short(n)}`")
                lo = ".none" if s.lower is None else self.expr(s.lower, sc, what)
                st = lint(1) if s.step is None else self.expr(s.step, sc, what)
                return f"(.slice {self.expr(n.value, sc, what)} {lo} {st})"
            return f"(.index {self.expr(n.value, sc, what)} {self.expr(n.slice, sc, what)})"
        if isinstance(n, ast.Attribute):
            if n.attr.startswith("__"):
                raise ExtractError(f"{what}: dunder attribute `{short(n)}` used as a value")
            return f"(.attr {self.expr(n.value, sc, what)} {q(n.attr)})"
        if isinstance(n, ast.Call):
            return self.call(n, sc, what)
        if isinstance(n, (ast.ListComp, ast.GeneratorExp)):
            if len(n.generators) != 1 or n.generators[0].ifs or n.generators[0].is_async:
                raise ExtractError(f"{what}: comprehension `{short(n)}` is outside the language")
            g = n.generators[0]
            # the target is local to the comprehension
            inner = _child_scope(sc, g.target)
            return (f"(.comp {self.expr(n.elt, inner, what)} {self.pattern(g.target, what)} "
                    f"{self.expr(g.iter, sc, what)})")
        raise ExtractError(f"{what}: expression `{short(n)}` is outside the language")

    def pattern(self, t, what):
        if isinstance(t, ast.Name):
            return f"(.name {q(t.id)})"
        if isinstance(t, (ast.Tuple, ast.List)):
            return "(.tuple [" + ", ".join(self.pattern(e, what) for e in t.elts) + "])"
        raise ExtractError(f"{what}: binding target `{short(t)}` is outside the language")

    # }}}

    # {{{ statements

    def target(self, t, sc, what):
        if isinstance(t, (ast.Name, ast.Tuple, ast.List)):
            return f"(.pat {self.pattern(t, what)})"
        if isinstance(t, ast.Subscript) and isinstance(t.value, ast.Name) \
                and not isinstance(t.slice, ast.Slice):
            return f"(.index {q(t.value.id)} {self.expr(t.slice, sc, what)})"
        if isinstance(t, ast.Attribute) and isinstance(t.value, ast.Name):
            return f"(.attr {q(t.value.id)} {q(t.attr)})"
        raise ExtractError(f"{what}: assignment target `{short(t)}` is outside the language")

    def keyfun(self, s, what):
        """nested `def k(key): a, _b = key; return a` -> True"""
        a = s.args
        if (len(a.args) != 1 or a.vararg or a.kwarg or a.kwonlyargs or a.defaults or s.decorator_list):
            return False
        p = a.args[0].arg
        body = strip_doc(s.body)
        if len(body) != 2:
            return False
        asg, ret = body
        if not (isinstance(asg, ast.Assign) and len(asg.targets) == 1
                and isinstance(asg.targets[0], ast.Tuple) and len(asg.targets[0].elts) == 2
                and all(isinstance(e, ast.Name) for e in asg.targets[0].elts)
                and isinstance(asg.value, ast.Name) and asg.value.id == p):
            return False
        first = asg.targets[0].elts[0].id
        return (isinstance(ret, ast.Return) and isinstance(ret.value, ast.Name)
                and ret.value.id == first and asg.targets[0].elts[1].id != first)

    def stmts(self, body, sc, what, ind):
        out = []
        for s in body:
            r = self.stmt(s, sc, what, ind)
            if isinstance(r, list):
                out.extend(r)
            elif r is not None:
                out.append(r)
        return out

    def block(self, body, sc, what, ind):
        items = self.stmts(body, sc, what, ind + 2)
        if not items:
            return "[]"
        pad = " " * (ind + 2)
        return "[\n" + ",\n".join(pad + i for i in items) + "]"

    def stmt(self, s, sc, what, ind):
        if isinstance(s, (ast.Import, ast.ImportFrom)):
            return None
        if isinstance(s, ast.Pass):
            return ".pass"
        if isinstance(s, ast.FunctionDef):
            if self.keyfun(s, what):
                sc.keyfuns[s.name] = True
                return None
            raise ExtractError(f"{what}: nested function {s.name} is outside the language")
        if isinstance(s, ast.Assert):
            return f".assert {self.expr(s.test, sc, what)}"
        if isinstance(s, ast.Return):
            return ".ret .none" if s.value is None else f".ret {self.expr(s.value, sc, what)}"
        if isinstance(s, ast.Raise):
            e = s.exc
            if isinstance(e, ast.Call):
                e = e.func
            if isinstance(e, ast.Name):
                kind, obj = sc.lookup(e.id)
                if kind == "obj" and isinstance(obj, type) and issubclass(obj, BaseException):
                    return f".raise {q(obj.__name__)}"
            raise ExtractError(f"{what}: unreadable raise `{short(s)}`")
        if isinstance(s, ast.Assign):
            if len(s.targets) != 1:
                raise ExtractError(f"{what}: chained assignment `{short(s)}`")
            return f".assign {self.target(s.targets[0], sc, what)} {self.expr(s.value, sc, what)}"
        if isinstance(s, ast.AugAssign):
            op = BINOPS.get(type(s.op))
            if op is None or not isinstance(s.target, ast.Name):
                raise ExtractError(f"{what}: augmented assignment `{short(s)}` is outside the language")
            return f".aug {q(s.target.id)} .{op} {self.expr(s.value, sc, what)}"
        if isinstance(s, ast.Expr):
            c = s.value
            if (isinstance(c, ast.Call) and isinstance(c.func, ast.Attribute)
                    and isinstance(c.func.value, ast.Name)
                    and sc.lookup(c.func.value.id)[0] == "local"):
                x, m = c.func.value.id, c.func.attr
                if m == "append" and len(c.args) == 1 and not c.keywords:
                    return f".append {q(x)} {self.expr(c.args[0], sc, what)}"
                if m == "pop" and not c.args and not c.keywords:
                    return f".pop {q(x)}"
                if (m == "sort" and not c.args and [k.arg for k in c.keywords] == ["key"]
                        and isinstance(c.keywords[0].value, ast.Name)
                        and sc.keyfuns.get(c.keywords[0].value.id)):
                    return f".sortByFirst {q(x)}"
            raise ExtractError(f"{what}: expression statement `{short(s)}` is outside the language")
        if isinstance(s, ast.If):
            return (f".ite {self.expr(s.test, sc, what)} {self.block(s.body, sc, what, ind)} "
                    f"{self.block(s.orelse, sc, what, ind)}")
        if isinstance(s, ast.While):
            if s.orelse:
                raise ExtractError(f"{what}: while … else")
            return f".while {self.expr(s.test, sc, what)} {self.block(s.body, sc, what, ind)}"
        if isinstance(s, ast.For):
            if s.orelse:
                raise ExtractError(f"{what}: for … else")
            return (f".for {self.pattern(s.target, what)} {self.expr(s.iter, sc, what)} "
                    f"{self.block(s.body, sc, what, ind)}")
        if isinstance(s, ast.Try):
            if s.orelse or s.finalbody or not s.handlers or any(h.name for h in s.handlers):
                raise ExtractError(f"{what}: try statement `{short(s)}` is outside the language")
            kinds = []
            for h in s.handlers:
                t = h.type
                obj = None
                if isinstance(t, ast.Name):
                    kind, obj = sc.lookup(t.id)
                    if kind != "obj":
                        obj = None
                elif isinstance(t, ast.Attribute) and isinstance(t.value, ast.Name):
                    kind, m = sc.lookup(t.value.id)
                    if kind == "obj" and isinstance(m, types.ModuleType):
                        obj = getattr(m, t.attr, None)
                if not (isinstance(obj, type) and issubclass(obj, BaseException)):
                    raise ExtractError(f"{what}: except clause does not name an exception class")
                kinds.append(obj)
            if len(kinds) == 1:
                return (f".tryExcept {self.block(s.body, sc, what, ind)} {q(kinds[0].__name__)} "
                        f"{self.block(s.handlers[0].body, sc, what, ind)}")
            # several handlers: the FIRST matching clause runs, and an exception raised inside a
            # handler is not caught by a later clause.  Desugared with a selector variable:
            #     _handler = 0
            #     try: (try: BODY except K1: _handler = 1) except K2: _handler = 2
            #     if _handler == 1: H1  elif _handler == 2: H2
            # (classes are matched by name: no clause may name a base class of a later one)
            for i, a in enumerate(kinds):
                for b in kinds[i + 1:]:
                    if issubclass(b, a) or issubclass(a, b):
                        raise ExtractError(f"{what}: except clauses {a.__name__} / {b.__name__} "
                                           f"are related classes")
            sel = "_handler"
            if sc.lookup_is_local(sel):
                raise ExtractError(f"{what}: the name {sel} is used by the function")
            pad = " " * (ind + 2)
            inner = self.block(s.body, sc, what, ind)
            for i, k in enumerate(kinds):
                inner = (f"[\n{pad}.tryExcept {inner} {q(k.__name__)} "
                         f"[.assign (.pat (.name {q(sel)})) {lint(i + 1)}]]")
            chain = "[]"
            for i in reversed(range(len(kinds))):
                chain = (f"[\n{pad}.ite (.cmp .eq (.var {q(sel)}) {lint(i + 1)}) "
                         f"{self.block(s.handlers[i].body, sc, what, ind + 2)} {chain}]")
            return [f".assign (.pat (.name {q(sel)})) {lint(0)}", inner[1:-1].strip(),
                    chain[1:-1].strip()]
        raise ExtractError(f"{what}: statement `{short(s)}` is outside the language")

    # }}}


class _ChildScope:
    def __init__(self, parent, extra):
        self.parent = parent
        self.extra = extra
        self.keyfuns = parent.keyfuns
        self.what = parent.what

    def lookup_is_local(self, name):
        return name in self.extra or self.parent.lookup_is_local(name)

    def lookup(self, name):
        if name in self.extra:
            return ("local", None)
        return self.parent.lookup(name)


def _child_scope(sc, target):
    names = {n.id for n in ast.walk(target) if isinstance(n, ast.Name)}
    return _ChildScope(sc, names)


def params_of(fnast, what):
    a = fnast.args
    if a.posonlyargs:
        raise ExtractError(f"{what}: positional-only parameters")
    out = [x.arg for x in a.args]
    if a.vararg:
        out.append(a.vararg.arg)
    out += [x.arg for x in a.kwonlyargs]
    if a.kwarg:
        out.append(a.kwarg.arg)
    return out


def defaults_of(fnast, what):
    """constant defaults of the trailing parameters, as expressions of the language"""
    a = fnast.args
    if a.vararg or a.kwarg:
        if a.defaults or any(d is not None for d in a.kw_defaults):
            raise ExtractError(f"{what}: defaults next to star parameters")
        return []
    ds = list(a.defaults) + list(a.kw_defaults)
    if any(d is None for d in ds):
        raise ExtractError(f"{what}: a keyword-only parameter without a default")
    out = []
    for d in ds:
        if isinstance(d, ast.Constant) and d.value is None:
            out.append(".none")
        elif isinstance(d, ast.Constant) and isinstance(d.value, bool):
            out.append(f"(.bool {'true' if d.value else 'false'})")
        elif isinstance(d, ast.Constant) and isinstance(d.value, int):
            out.append(lint(d.value))
        else:
            raise ExtractError(f"{what}: default `{short(d)}` is not a simple constant")
    return out


# {{{ fft: parameter-processing block

FFT_PREAMBLE_SHAPES = [
    ("atMostOneWrap",
     "if wrap_intermediate is not None and wrap_intermediate_with_level is not None:\n"
     "    raise TypeError(MSG)"),
    ("legacyWrapAdapter",
     "if wrap_intermediate is not None:\n"
     "    from warnings import warn\n"
     "    warn(MSG, DeprecationWarning, stacklevel=2)\n"
     "\n"
     "    def wrap_intermediate_with_level(level, x):\n"
     "        return wrap_intermediate(x)"),
    ("defaultWrapIsSecondArgument",
     "if wrap_intermediate_with_level is None:\n"
     "\n"
     "    def wrap_intermediate_with_level(level, x):\n"
     "        return x"),
    ("importPi", "from math import pi"),
    ("defaultNumpy", "if custom_np is None:\n    import numpy as custom_np"),
    ("defaultDtype",
     "if complex_dtype is None:\n"
     "    if x.dtype.kind == 'c':\n"
     "        complex_dtype = x.dtype\n"
     "    else:\n"
     "        from warnings import warn\n"
     "        warn(MSG, DeprecationWarning, stacklevel=2)\n"
     "        complex_dtype = custom_np.complex128"),
    ("normaliseDtype", "complex_dtype = custom_np.dtype(complex_dtype)"),
]


class _MsgEraser(ast.NodeTransformer):
    """string constants (messages) are replaced by the name MSG"""

    def visit_Constant(self, n):
        if isinstance(n.value, str) and n.value not in ("c",):
            return ast.copy_location(ast.Name(id="MSG", ctx=ast.Load()), n)
        return n


def _norm_src(s):
    return ast.unparse(ast.parse(ast.unparse(_MsgEraser().visit(ast.parse(ast.unparse(s))))))


def read_fft_preamble(body, what):
    """-> (tags, index of the first statement of the core)"""
    shapes = {ast.unparse(ast.parse(src)): tag for tag, src in FFT_PREAMBLE_SHAPES}
    tags = []
    i = 0
    while i < len(body):
        s = body[i]
        if (isinstance(s, ast.Assign) and len(s.targets) == 1 and isinstance(s.targets[0], ast.Name)
                and s.targets[0].id == "n"):
            break
        src = _norm_src(s)
        tag = shapes.get(src)
        if tag is None:
            raise ExtractError(f"{what}: unknown parameter-processing statement `{short(s)}`")
        tags.append(tag)
        i += 1
    if i == len(body):
        raise ExtractError(f"{what}: no `n = len(x)` found")
    return tags, i

# }}}


# {{{ traits.common_traits

def read_common_traits(fn, what):
    """`def common_traits(*args)` with a nested two-argument rule function and
    `return reduce(rule, (traits(arg) for arg in args))` -> ordered rules"""
    f = fn_ast(fn, what)
    a = f.args
    if a.args or a.kwonlyargs or a.kwarg or a.vararg is None:
        raise ExtractError(f"{what}: signature is not (*args)")
    body = strip_doc(f.body)
    if len(body) != 2 or not isinstance(body[0], ast.FunctionDef) or not isinstance(body[1], ast.Return):
        raise ExtractError(f"{what}: body is not a nested function and a return")
    rule, ret = body
    want = f"reduce({rule.name}, (traits(arg) for arg in {a.vararg.arg}))"
    if ast.unparse(ret.value) != want:
        raise ExtractError(f"{what}: return is not `{want}`")
    if fn.__globals__.get("reduce") is not importlib.import_module("functools").reduce:
        raise ExtractError(f"{what}: reduce is not functools.reduce")
    if [x.arg for x in rule.args.args] != ["t_x", "t_y"]:
        raise ExtractError(f"{what}: the rule function does not take (t_x, t_y)")
    rules = []
    node = strip_doc(rule.body)
    if len(node) != 1 or not isinstance(node[0], ast.If):
        raise ExtractError(f"{what}: the rule function is not one if-chain")
    cur = node[0]
    while True:
        test = ast.unparse(cur.test)
        if len(cur.body) != 1 or not isinstance(cur.body[0], ast.Return):
            raise ExtractError(f"{what}: a rule branch is not a single return")
        res = ast.unparse(cur.body[0].value)
        table = {("isinstance(t_y, t_x.__class__)", "t_y"): "ySubX",
                 ("isinstance(t_x, t_y.__class__)", "t_x"): "xSubY"}
        if (test, res) not in table:
            raise ExtractError(f"{what}: unreadable rule `if {test}: return {res}`")
        rules.append(table[(test, res)])
        if len(cur.orelse) == 1 and isinstance(cur.orelse[0], ast.If):
            cur = cur.orelse[0]
            continue
        if (len(cur.orelse) == 1 and isinstance(cur.orelse[0], ast.Raise)
                and ast.unparse(cur.orelse[0]).startswith("raise NoCommonTraitsError(")):
            rules.append("raiseNoCommonTraits")
            break
        raise ExtractError(f"{what}: the rule chain does not end in raise NoCommonTraitsError")
    return rules

# }}}


def read_sym_fft(fn, what):
    """the data flow of the value `sym_fft` returns: which function is applied to what"""
    f = fn_ast(fn, what)
    rets = [s for s in f.body if isinstance(s, ast.Return)]
    if len(rets) != 1:
        raise ExtractError(f"{what}: not exactly one top-level return")
    return ast.unparse(rets[0].value).replace("\n", " ")


SYM_FFT_WRAP_SHAPE = (
    "def wrap_intermediate(x):\n"
    "    if len(x) > 1:\n"
    "        from pymbolic.primitives import CommonSubexpression\n"
    "        result = numpy.empty(len(x), dtype=object)\n"
    "        for i, x_i in enumerate(x):\n"
    "            result[i] = CommonSubexpression(x_i)\n"
    "        return result\n"
    "    else:\n"
    "        return x")

SYM_FFT_KILLER_SHAPE = (
    "class NearZeroKiller(CSECachingMapperMixin, IdentityMapper):\n"
    "    map_common_subexpression_uncached = IdentityMapper.map_common_subexpression\n"
    "\n"
    "    def map_constant(self, expr):\n"
    "        if isinstance(expr, complex):\n"
    "            r = expr.real\n"
    "            i = expr.imag\n"
    "            if abs(r) < 1e-15:\n"
    "                r = 0\n"
    "            if abs(i) < 1e-15:\n"
    "                i = 0\n"
    "            if i == 0:\n"
    "                return r\n"
    "            else:\n"
    "                return complex(r, i)\n"
    "        else:\n"
    "            return expr")


def read_sym_fft_parts(fn, what):
    """the two nested definitions of `sym_fft`, recognised by shape (like the parameter block of
    `fft`): `wrap_intermediate` wraps every entry of an array longer than one in a
    CommonSubexpression; `NearZeroKiller` is an identity mapper that rewrites COMPLEX constants
    only.  -> ordered tags"""
    f = fn_ast(fn, what)
    shapes = {ast.unparse(ast.parse(SYM_FFT_WRAP_SHAPE)): "wrapIsCseEachIfLongerThanOne",
              ast.unparse(ast.parse(SYM_FFT_KILLER_SHAPE)): "nearZeroKillerRewritesComplexConstantsOnly"}
    tags = []
    for st in strip_doc(f.body):
        if isinstance(st, (ast.FunctionDef, ast.ClassDef)):
            tag = shapes.get(ast.unparse(st))
            if tag is None:
                raise ExtractError(f"{what}: the nested definition {st.name} has an unknown shape")
            tags.append(tag)
    return tags


FUNCTIONS = [
    # (module, attribute path, kind)
    ("pymbolic.algorithm", "integer_power", "func"),
    ("pymbolic.algorithm", "extended_euclidean", "func"),
    ("pymbolic.algorithm", "gcd", "func"),
    ("pymbolic.algorithm", "lcm", "func"),
    ("pymbolic.algorithm", "find_factors", "func"),
    ("pymbolic.algorithm", "fft", "fft"),
    ("pymbolic.algorithm", "ifft", "func"),
    ("pymbolic.polynomial", "_sort_uniq", "func"),
    ("pymbolic.polynomial", "leading_coefficient", "func"),
    ("pymbolic.traits", "traits", "func"),
    ("pymbolic.primitives", "quotient", "func"),
]

CLASSES = [
    # (module, class, attributes to translate)
    ("pymbolic.polynomial", "Polynomial",
     ["__init__", "traits", "__neg__", "__add__", "__radd__", "__sub__", "__mul__", "__rmul__",
      "__pow__", "__divmod__", "__floordiv__", "__mod__", "data", "base", "unit", "degree"]),
    ("pymbolic.polynomial", "PolynomialTraits", ["norm", "get_unit"]),
    ("pymbolic.polynomial", "LexicalMonomialOrder", []),
    ("pymbolic.traits", "Traits", []),
    ("pymbolic.traits", "IntegralDomainTraits", []),
    ("pymbolic.traits", "EuclideanRingTraits", ["gcd_extended", "gcd", "lcm"]),
    ("pymbolic.traits", "FieldTraits", []),
    ("pymbolic.traits", "IntegerTraits", ["norm", "get_unit"]),
    ("pymbolic.rational", "Rational", ["__init__", "__neg__", "__bool__", "numerator", "denominator",
                                       "reciprocal", "?__add__", "?__radd__", "?__sub__", "?__rsub__",
                                       "?__mul__", "?__rmul__", "?__div__", "?__rdiv__",
                                       "?__truediv__", "?__rtruediv__", "?__pow__"]),
    ("pymbolic.mapper.evaluator", "EvaluationMapper", ["map_polynomial", "map_quotient"]),
    ("pymbolic.mapper", "IdentityMapper", ["map_polynomial"]),
]


SEMANTIC_SPECIALS = ("__bool__", "__len__", "__iadd__", "__isub__", "__imul__", "__itruediv__",
                     "__ifloordiv__", "__imod__", "__ipow__", "__getattr__", "__getattribute__",
                     "__setattr__")


def instance_fields(classes):
    """names assigned as `self.X = …` in the `__init__` of the table classes"""
    out = set()
    for cls in classes.values():
        init = cls.__dict__.get("__init__")
        if init is None:
            continue
        try:
            f = fn_ast(init, cls.__name__ + ".__init__")
        except ExtractError:
            continue
        for n in ast.walk(f):
            if (isinstance(n, ast.Attribute) and isinstance(n.ctx, ast.Store)
                    and isinstance(n.value, ast.Name) and n.value.id == "self"):
                out.add(n.attr)
    return out


def algo_table(ctx=None):
    mods = {}
    for m in sorted({m for m, *_ in FUNCTIONS} | {m for m, *_ in CLASSES}):
        mods[m] = importlib.import_module(m)
    check_repo(ctx, list(mods.values()))
    classes = {c: getattr(mods[m], c) for m, c, _ in CLASSES}
    for c, k in classes.items():
        if not isinstance(k, type):
            raise ExtractError(f"{c} is not a class")
    fields = instance_fields(classes)
    fns = []            # (qualified name, kind, params, body text)
    preamble = None

    def translate(fn, name, kind, fft=False):
        nonlocal preamble
        fn = unwrap(fn)
        if not isinstance(fn, types.FunctionType):
            raise ExtractError(f"{name}: {fn!r} is not a Python function")
        f = fn_ast(fn, name)
        for d in f.decorator_list:
            if ast.unparse(d) not in ("memoize", "staticmethod", "classmethod"):
                raise ExtractError(f"{name}: decorator {ast.unparse(d)}")
        sc = Scope(fn, f, name)
        tr = Translator(classes, fields, fft_mode=fft)
        body = strip_doc(f.body)
        if fft:
            preamble, start = read_fft_preamble(body, name)
            # `scalar_tp = complex_dtype.type` is the meaning of the external name fft.scalar_tp
            core = []
            seen_tp = False
            for s in body[start:]:
                if ast.unparse(s) == "scalar_tp = complex_dtype.type":
                    seen_tp = True
                    continue
                core.append(s)
            if not seen_tp:
                raise ExtractError(f"{name}: `scalar_tp = complex_dtype.type` not found")
            preamble = preamble + ["scalarTpIsDtypeType"]
            body = core
        text = tr.block(body, sc, name, 4)
        fns.append((name, kind, params_of(f, name), defaults_of(f, name), text))

    for m, attr, kind in FUNCTIONS:
        mod = mods[m]
        fn = getattr(mod, attr, None)
        if fn is None:
            raise ExtractError(f"{m}.{attr} does not exist")
        translate(fn, f"{modtag(mod)}.{attr}", "func", fft=(kind == "fft"))

    for m, cname, attrs in CLASSES:
        cls = classes[cname]
        for attr in attrs:
            optional = attr.startswith("?")     # translated when the class itself defines it
            attr = attr.lstrip("?")
            if optional and attr not in cls.__dict__:
                continue
            raw = None
            for k in cls.__mro__:
                if attr in k.__dict__:
                    raw = k.__dict__[attr]
                    owner = k
                    break
            if raw is None:
                raise ExtractError(f"{cname}.{attr} does not exist")
            if owner is not cls:
                continue            # inherited: reached through the MRO of the owner's row
            if isinstance(raw, staticmethod):
                translate(raw.__func__, f"{cname}.{attr}", "static")
            elif isinstance(raw, classmethod):
                # `cls` is bound like a receiver
                translate(raw.__func__, f"{cname}.{attr}", "method")
            elif isinstance(raw, property):
                if raw.fset is not None or raw.fdel is not None:
                    raise ExtractError(f"{cname}.{attr}: property with a setter")
                translate(raw.fget, f"{cname}.{attr}", "prop")
            elif isinstance(raw, types.FunctionType):
                translate(raw, f"{cname}.{attr}", "init" if attr == "__init__" else "method")
            else:
                raise ExtractError(f"{cname}.{attr} = {raw!r} is not a function")

    # special methods that would change what the statement language means for the objects of a
    # table class: truthiness (`if not other`), `x op= e` read as `x = x op e`, attribute access
    translated = {name for name, *_ in fns}
    for m, cname, _ in CLASSES:
        cls = classes[cname]
        for special in SEMANTIC_SPECIALS:
            owner = next((k for k in cls.__mro__ if k is not object and special in k.__dict__), None)
            if owner is not None and f"{owner.__name__}.{special}" not in translated:
                raise ExtractError(
                    f"{cname} has {special} (defined in {owner.__name__}) which is not in the table: "
                    f"the statement language would give {cname} objects a wrong meaning")

    class_rows = []
    for m, cname, _ in CLASSES:
        cls = classes[cname]
        if cls.__module__ != m and not (m == "pymbolic.mapper" and cls.__module__ == "pymbolic.mapper"):
            raise ExtractError(f"{cname} is defined in {cls.__module__}, not in {m}")
        mro = [k.__name__ for k in cls.__mro__ if k is not object]
        class_rows.append((cname, mro))

    tr_mod = mods["pymbolic.traits"]
    rules = read_common_traits(tr_mod.common_traits, "traits.common_traits")
    sym = read_sym_fft(mods["pymbolic.algorithm"].sym_fft, "algorithm.sym_fft")
    sym_parts = read_sym_fft_parts(mods["pymbolic.algorithm"].sym_fft, "algorithm.sym_fft")
    return dict(fns=fns, classes=class_rows, preamble=preamble, rules=rules, sym=sym,
                sym_parts=sym_parts)


def render(t):
    L = ["import PV.Model.AlgoTable",
         "/- GENERATED by extract/algorithm.py from the live source of pymbolic/algorithm.py, "
         "polynomial.py, traits.py,\n   rational.py, mapper/evaluator.py, mapper/__init__.py — do not edit. -/",
         "namespace PV.Generated", "open PV.Algo", ""]
    names = []
    for name, kind, params, defaults, body in t["fns"]:
        ident = "c19Fn_" + name.replace(".", "_")
        names.append(ident)
        L.append(f"def {ident} : C19Fn :=")
        L.append(f"  ⟨{q(name)}, .{kind}, [{', '.join(q(p) for p in params)}], [{', '.join(defaults)}], {body}⟩")
        L.append("")
    L.append("def c19Table : C19Table := {")
    L.append("  fns := [" + ",\n    ".join(names) + "],")
    L.append("  classes := [")
    L.append(",\n".join(f"    ⟨{q(c)}, [{', '.join(q(k) for k in mro)}]⟩" for c, mro in t["classes"]))
    L.append("  ],")
    L.append("  commonTraits := [" + ", ".join(q(x) for x in t["rules"]) + "] }")
    L.append("")
    L.append("/-- the parameter-processing statements of `fft`, by recognised shape, in order -/")
    L.append("def c19FftPreamble : List String := [" + ", ".join(q(x) for x in t["preamble"]) + "]")
    L.append("")
    L.append("/-- the expression `sym_fft` returns -/")
    L.append(f"def c19SymFftFlow : String := {q(t['sym'])}")
    L.append("")
    L.append("/-- the nested definitions of `sym_fft`, by recognised shape, in order -/")
    L.append("def c19SymFftParts : List String := [" + ", ".join(q(x) for x in t["sym_parts"]) + "]")
    L.append("")
    L.append("end PV.Generated")
    return "\n".join(L) + "\n"


def extract_algorithm(ctx=None):
    t = algo_table(ctx)
    write_if_changed(os.path.join(LEAN, "PV", "Generated", "Algo.lean"), render(t))
    return t


if __name__ == "__main__":
    print(render(algo_table({"repo": os.environ.get("REPO", "/repo")})))
