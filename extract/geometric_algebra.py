"""T-gen for C18: regenerate lean/PV/Generated/GATable.lean from the LIVE source of
pymbolic/geometric_algebra/__init__.py of the tree under test.

What is read (with `inspect` + `ast`; record types and their meaning in
lean/PV/Model/GATable.lean):

  * every module-level function and every method listed in `ORDER` below, statement by statement,
    in the small Python subset `C18Expr` / `C18Stmt`: the bit-twiddling helpers
    (`permutation_sign`, `bit_count`, `canonical_reordering_sign`), `_shared_metric_coeff`, both
    weight functions of the six `_GAProduct` subclasses, `Space.bits_and_sign`,
    `Space.blade_bits_to_str`, `_cast_or_ni`, and of `MultiVector`: `__init__`, `__neg__`,
    `__add__/__radd__/__sub__/__rsub__`, `_generic_product`, the ten product dunders,
    `scalar_product`, `__pow__`, `__truediv__/__rtruediv__`, `inv`, `rev`, `invol`, `dual`,
    `__inv__`, `norm_squared`, `I`, `__hash__`, `__bool__`, `__eq__`, `__ne__`, `project`,
    `get_pure_grade`, `as_scalar`, `odd`, `even`;
  * every class of the module: bases, and for every name its body binds whether it is a translated
    method (plain / static / property, from the decorators), an alias of another name of the same
    body (`orthogonal_blade_product_weight = generic_blade_product_weight`), or something else;
  * the module-level imports;
  * every OTHER definition of the module (numpy code, string formatting, generators, float
    tolerances) as normalised source text (`ast.unparse`), so that an edit there changes the table
    too (`pinned`).

The order of the function list is `ORDER` (callers first): the interpreter resolves a call in the
tail of the list behind the running function.  The reader checks every call it can see
syntactically against that order; operator dispatch is checked by the proofs (a call that does not
resolve makes the interpretation `stuck`, and the theorems say it never is).

What is recorded is what the source SAYS.  A statement or expression shape this reader does not
know is an `ExtractError` (reported by the check as a broken obligation) — never a default.
"""
from __future__ import annotations

import ast
import inspect
import os

from harness.leanio import LEAN

from .classes import ExtractError
from .prec import write_if_changed

#: translated functions, callers first
ORDER = [
    "MultiVector.__rtruediv__", "MultiVector.__truediv__", "MultiVector.__pow__",
    "MultiVector.__inv__", "MultiVector.dual", "MultiVector.inv", "MultiVector.norm_squared",
    "MultiVector.scalar_product", "MultiVector.__rsub__", "MultiVector.__sub__",
    "MultiVector.__radd__", "MultiVector.__add__", "MultiVector.__neg__",
    "MultiVector.__mul__", "MultiVector.__rmul__", "MultiVector.__xor__", "MultiVector.__rxor__",
    "MultiVector.__or__", "MultiVector.__ror__", "MultiVector.__lshift__",
    "MultiVector.__rlshift__", "MultiVector.__rshift__", "MultiVector.__rrshift__",
    "MultiVector._generic_product", "MultiVector.rev", "MultiVector.invol", "MultiVector.I",
    "MultiVector.__hash__", "MultiVector.__ne__", "MultiVector.__eq__", "MultiVector.__bool__",
    "MultiVector.project", "MultiVector.get_pure_grade", "MultiVector.as_scalar",
    "MultiVector.odd", "MultiVector.even", "_cast_or_ni", "MultiVector.__init__",
    "Space.bits_and_sign", "Space.blade_bits_to_str",
    "_OuterProduct.generic_blade_product_weight",
    "_GeometricProduct.generic_blade_product_weight",
    "_GeometricProduct.orthogonal_blade_product_weight",
    "_InnerProduct.generic_blade_product_weight",
    "_InnerProduct.orthogonal_blade_product_weight",
    "_LeftContractionProduct.generic_blade_product_weight",
    "_LeftContractionProduct.orthogonal_blade_product_weight",
    "_RightContractionProduct.generic_blade_product_weight",
    "_RightContractionProduct.orthogonal_blade_product_weight",
    "_ScalarProduct.generic_blade_product_weight",
    "_ScalarProduct.orthogonal_blade_product_weight",
    "_shared_metric_coeff", "canonical_reordering_sign", "bit_count", "permutation_sign",
]

KNOWN_DECORATORS = ("property", "staticmethod", "memoize_method", "memoize")

BINOPS = {ast.Add: "add", ast.Sub: "sub", ast.Mult: "mul", ast.Div: "truediv",
          ast.FloorDiv: "floordiv", ast.Mod: "mod", ast.Pow: "pow", ast.BitAnd: "band",
          ast.BitOr: "bor", ast.BitXor: "bxor", ast.LShift: "shl", ast.RShift: "shr"}
CMPOPS = {ast.Eq: "eq", ast.NotEq: "ne", ast.Lt: "lt", ast.LtE: "le", ast.Gt: "gt", ast.GtE: "ge",
          ast.Is: "is", ast.IsNot: "isNot", ast.In: "isIn", ast.NotIn: "notIn"}
UNOPS = {ast.USub: "neg", ast.UAdd: "pos", ast.Not: "not"}


def bad(what, node, why):
    try:
        text = ast.unparse(node)
    except Exception:  # noqa: BLE001
        text = repr(node)
    raise ExtractError(f"{what}: {why}: `{text[:120]}`")


# {{{ expressions

def names_of_target(t, what):
    """`x` / `x, y` of a `for` / comprehension"""
    if isinstance(t, ast.Name):
        return [t.id]
    if isinstance(t, ast.Tuple) and t.elts and all(isinstance(e, ast.Name) for e in t.elts):
        return [e.id for e in t.elts]
    bad(what, t, "unreadable loop target")


def one_generator(node, what):
    if len(node.generators) != 1:
        bad(what, node, "comprehension with several `for` clauses")
    g = node.generators[0]
    if g.is_async:
        bad(what, node, "async comprehension")
    return g


def read_expr(n, what):
    r = lambda x: read_expr(x, what)  # noqa: E731
    if isinstance(n, ast.Name):
        return ("name", n.id)
    if isinstance(n, ast.Constant):
        v = n.value
        if v is None:
            return ("none",)
        if isinstance(v, bool):
            bad(what, n, "boolean literal")
        if isinstance(v, int) and v >= 0:
            return ("nat", v)
        if isinstance(v, str):
            return ("str", v)
        bad(what, n, "unreadable constant")
    if isinstance(n, ast.BinOp):
        if type(n.op) not in BINOPS:
            bad(what, n, "unknown binary operator")
        return ("bin", BINOPS[type(n.op)], r(n.left), r(n.right))
    if isinstance(n, ast.UnaryOp):
        if type(n.op) not in UNOPS:
            bad(what, n, "unknown unary operator")
        return ("un", UNOPS[type(n.op)], r(n.operand))
    if isinstance(n, ast.BoolOp):
        kind = "and" if isinstance(n.op, ast.And) else "or"
        vals = [r(v) for v in n.values]
        out = vals[-1]
        for v in reversed(vals[:-1]):
            out = (kind, v, out)
        return out
    if isinstance(n, ast.Compare):
        if len(n.ops) != 1:
            bad(what, n, "comparison chain")
        if type(n.ops[0]) not in CMPOPS:
            bad(what, n, "unknown comparison")
        return ("cmp", CMPOPS[type(n.ops[0])], r(n.left), r(n.comparators[0]))
    if isinstance(n, ast.IfExp):
        return ("ifExp", r(n.test), r(n.body), r(n.orelse))
    if isinstance(n, ast.Attribute):
        return ("attr", r(n.value), n.attr)
    if isinstance(n, ast.Subscript):
        s = n.slice
        if isinstance(s, ast.Slice) or (isinstance(s, ast.Tuple)
                                         and any(isinstance(e, ast.Slice) for e in s.elts)):
            bad(what, n, "slice")
        idx = [r(e) for e in s.elts] if isinstance(s, ast.Tuple) else [r(s)]
        return ("index", r(n.value), idx)
    if isinstance(n, ast.Call):
        if any(isinstance(a, ast.Starred) for a in n.args) or any(k.arg is None for k in n.keywords):
            bad(what, n, "argument splice")
        args = [r(a) for a in n.args]
        kwn = [k.arg for k in n.keywords]
        kwv = [r(k.value) for k in n.keywords]
        if isinstance(n.func, ast.Attribute):
            return ("callMethod", r(n.func.value), n.func.attr, args, kwn, kwv)
        return ("call", r(n.func), args, kwn, kwv)
    if isinstance(n, ast.Dict):
        if any(k is None for k in n.keys):
            bad(what, n, "dict splice")
        return ("dict", [r(k) for k in n.keys], [r(v) for v in n.values])
    if isinstance(n, ast.List):
        return ("list", [r(e) for e in n.elts])
    if isinstance(n, ast.Tuple):
        return ("tuple", [r(e) for e in n.elts])
    if isinstance(n, ast.DictComp):
        g = one_generator(n, what)
        if g.ifs:
            bad(what, n, "filtered dict comprehension")
        return ("dictComp", r(n.key), r(n.value), names_of_target(g.target, what), r(g.iter))
    if isinstance(n, (ast.ListComp, ast.GeneratorExp, ast.SetComp)):
        g = one_generator(n, what)
        kind = {ast.ListComp: "list", ast.GeneratorExp: "gen", ast.SetComp: "set"}[type(n)]
        return ("gen", kind, r(n.elt), names_of_target(g.target, what), r(g.iter),
                [r(c) for c in g.ifs])
    bad(what, n, "unreadable expression")

# }}}


# {{{ statements

def read_target(t, what):
    if isinstance(t, ast.Name):
        return ("name", t.id)
    if isinstance(t, ast.Subscript) and isinstance(t.value, ast.Name) \
            and not isinstance(t.slice, (ast.Slice, ast.Tuple)):
        return ("index", t.value.id, read_expr(t.slice, what))
    if isinstance(t, ast.Attribute) and isinstance(t.value, ast.Name):
        return ("attr", t.value.id, t.attr)
    if isinstance(t, ast.Tuple) and t.elts and all(isinstance(e, ast.Name) for e in t.elts):
        return ("names", [e.id for e in t.elts])
    bad(what, t, "unreadable assignment target")


def read_stmt(s, what):
    if isinstance(s, ast.Assign):
        if len(s.targets) == 1 and isinstance(s.targets[0], ast.Tuple):
            return [("assign", [read_target(t, what) for t in s.targets[0].elts], True,
                     read_expr(s.value, what))]
        return [("assign", [read_target(t, what) for t in s.targets], False,
                 read_expr(s.value, what))]
    if isinstance(s, ast.AugAssign):
        if type(s.op) not in BINOPS:
            bad(what, s, "unknown augmented operator")
        return [("aug", read_target(s.target, what), BINOPS[type(s.op)], read_expr(s.value, what))]
    if isinstance(s, ast.If):
        return [("ifThen", read_expr(s.test, what), read_stmts(s.body, what),
                 read_stmts(s.orelse, what))]
    if isinstance(s, ast.While):
        if s.orelse:
            bad(what, s, "while … else")
        return [("while", read_expr(s.test, what), read_stmts(s.body, what))]
    if isinstance(s, ast.For):
        if s.orelse:
            bad(what, s, "for … else")
        return [("forIn", names_of_target(s.target, what), read_expr(s.iter, what),
                 read_stmts(s.body, what))]
    if isinstance(s, ast.Return):
        return [("ret", ("none",) if s.value is None else read_expr(s.value, what))]
    if isinstance(s, ast.Raise):
        e = s.exc
        if s.cause is not None or e is None:
            bad(what, s, "raise … from / bare raise")
        if isinstance(e, ast.Call) and isinstance(e.func, ast.Name):
            return [("raise", e.func.id)]
        if isinstance(e, ast.Name):
            return [("raise", e.id)]
        bad(what, s, "unreadable raise")
    if isinstance(s, ast.Delete):
        if len(s.targets) == 1:
            t = read_target(s.targets[0], what)
            if t[0] == "index":
                return [("del", t[1], t[2])]
        bad(what, s, "unreadable del")
    if isinstance(s, ast.Pass):
        return [("pass",)]
    if isinstance(s, ast.Assert):
        return [("assert", ast.unparse(s))]
    if isinstance(s, ast.ImportFrom):
        if s.level != 0 or s.module is None:
            bad(what, s, "relative import")
        return [("importFrom", s.module, a.name, a.asname or a.name) for a in s.names]
    if isinstance(s, ast.Expr) and isinstance(s.value, ast.Constant) \
            and isinstance(s.value.value, str):
        return []        # a docstring / string statement: no effect
    bad(what, s, "unreadable statement")


def read_stmts(ss, what):
    out = []
    for s in ss:
        out += read_stmt(s, what)
    return out


def local_names(stmts, params):
    """names the body binds (Python: the function's local variables), in order of first binding"""
    out = []

    def add(n):
        if n not in params and n not in out:
            out.append(n)

    def target(t):
        if t[0] == "name":
            add(t[1])
        elif t[0] == "names":
            for n in t[1]:
                add(n)

    def go(ss):
        for s in ss:
            k = s[0]
            if k == "assign":
                for t in s[1]:
                    target(t)
            elif k == "aug":
                target(s[1])
            elif k == "ifThen":
                go(s[2])
                go(s[3])
            elif k == "while":
                go(s[2])
            elif k == "forIn":
                for n in s[1]:
                    add(n)
                go(s[3])
            elif k == "importFrom":
                add(s[3])
    go(stmts)
    return out


def read_function(fn: ast.FunctionDef, qual):
    a = fn.args
    if a.posonlyargs or a.kwonlyargs or a.vararg or a.kwarg or a.kw_defaults:
        bad(qual, fn.args, "unreadable signature")
    params = [x.arg for x in a.args]
    nd = len(a.defaults)
    defaults = [(p, read_expr(d, qual)) for p, d in zip(params[len(params) - nd:], a.defaults)]
    decos = []
    for d in fn.decorator_list:
        if not isinstance(d, ast.Name) or d.id not in KNOWN_DECORATORS:
            bad(qual, d, "unknown decorator")
        decos.append(d.id)
    if fn.returns is not None and False:
        pass
    for n in ast.walk(fn):
        if isinstance(n, (ast.Global, ast.Nonlocal, ast.NamedExpr, ast.Lambda, ast.FunctionDef,
                          ast.ClassDef)) and n is not fn:
            bad(qual, n, "scope-changing construct")
    body = read_stmts(fn.body, qual)
    return dict(qual=qual, name=fn.name, params=params, defaults=defaults, decorators=decos,
                locals=local_names(body, params), body=body)

# }}}


# {{{ the module

def method_kind(decos, qual):
    if "staticmethod" in decos:
        if "property" in decos:
            raise ExtractError(f"{qual}: both staticmethod and property")
        return "static"
    if "property" in decos:
        return "property"
    return "plain"


def read_module(src):
    tree = ast.parse(src)
    fns, classes, imports, pinned = {}, [], [], []
    for node in tree.body:
        if isinstance(node, ast.Import):
            for al in node.names:
                imports.append((al.asname or al.name, al.name))
        elif isinstance(node, ast.ImportFrom):
            if node.level != 0 or node.module is None:
                bad("module", node, "relative import")
            for al in node.names:
                imports.append((al.asname or al.name, f"{node.module}.{al.name}"))
        elif isinstance(node, ast.FunctionDef):
            if node.name in ORDER:
                fns[node.name] = read_function(node, node.name)
            else:
                pinned.append((node.name, ast.unparse(node)))
        elif isinstance(node, ast.ClassDef):
            if node.keywords or node.decorator_list:
                bad("module", node, "class keywords / decorators")
            bases = []
            for b in node.bases:
                if not isinstance(b, ast.Name):
                    bad(node.name, b, "unreadable base class")
                bases.append(b.id)
            attrs = []
            for item in node.body:
                if isinstance(item, ast.FunctionDef):
                    qual = f"{node.name}.{item.name}"
                    if qual in ORDER:
                        f = read_function(item, qual)
                        fns[qual] = f
                        attrs.append((item.name, ("method", qual, method_kind(f["decorators"], qual))))
                    else:
                        pinned.append((qual, ast.unparse(item)))
                        attrs.append((item.name, ("other", "def")))
                elif isinstance(item, ast.Assign) and len(item.targets) == 1 \
                        and isinstance(item.targets[0], ast.Name):
                    nm = item.targets[0].id
                    if isinstance(item.value, ast.Name):
                        attrs.append((nm, ("alias", item.value.id)))
                    else:
                        attrs.append((nm, ("other", ast.unparse(item.value))))
                elif isinstance(item, ast.Expr) and isinstance(item.value, ast.Constant) \
                        and isinstance(item.value.value, str):
                    continue
                elif isinstance(item, ast.Pass):
                    continue
                else:
                    bad(node.name, item, "unreadable class-body statement")
            # a later binding of the same name in a class body replaces the earlier one
            seen, dedup = set(), []
            for nm, a in reversed(attrs):
                if nm not in seen:
                    seen.add(nm)
                    dedup.append((nm, a))
            classes.append(dict(name=node.name, bases=bases, attrs=list(reversed(dedup))))
        elif isinstance(node, ast.Assign) and len(node.targets) == 1 \
                and isinstance(node.targets[0], ast.Name) \
                and node.targets[0].id in ("__doc__", "__copyright__", "__license__") \
                and isinstance(node.value, ast.Constant) and isinstance(node.value.value, str):
            continue         # documentation strings
        elif isinstance(node, ast.Expr) and isinstance(node.value, ast.Constant) \
                and isinstance(node.value.value, str):
            continue
        else:
            bad("module", node, "unreadable module-level statement")
    missing = [q for q in ORDER if q not in fns]
    if missing:
        raise ExtractError(f"functions of the table order not found in the source: {missing}")
    names = [f for f in fns]
    if len(set(names)) != len(names):
        raise ExtractError("duplicate definitions")
    ordered = [fns[q] for q in ORDER]
    check_order(ordered, classes)
    return dict(fns=ordered, classes=classes, imports=imports, pinned=pinned)


def walk_exprs(x):
    """all tuples of the translated tree"""
    if isinstance(x, tuple):
        yield x
        for y in x:
            yield from walk_exprs(y)
    elif isinstance(x, list):
        for y in x:
            yield from walk_exprs(y)


def check_order(fns, classes):
    """every call visible syntactically resolves BEHIND the calling function"""
    pos = {f["qual"]: i for i, f in enumerate(fns)}
    methods = {}            # attribute name -> quals
    for c in classes:
        for nm, a in c["attrs"]:
            if a[0] == "method":
                methods.setdefault(nm, []).append(a[1])
    cls_names = {c["name"] for c in classes}
    for i, f in enumerate(fns):
        local = set(f["params"])
        for node in walk_exprs(f["body"]):
            if node and node[0] == "assign":
                for t in node[1]:
                    if t[0] == "name":
                        local.add(t[1])
        targets = set()
        for node in walk_exprs(f["body"]):
            if not node:
                continue
            if node[0] == "name" and node[1] not in local:
                if node[1] in pos:
                    targets.add(node[1])
                if node[1] in cls_names and f"{node[1]}.__init__" in pos:
                    targets.add(f"{node[1]}.__init__")
            elif node[0] == "callMethod" and node[2] in methods:
                targets.update(methods[node[2]])
            elif node[0] == "attr" and node[2] in methods:
                targets.update(methods[node[2]])
        for t in sorted(targets):
            if pos[t] <= i and not (t == f["qual"] and False):
                raise ExtractError(f"{f['qual']} refers to {t}, which is not behind it in the "
                                   f"table order (recursion or a new dependency)")


def tables(ctx=None):
    import pymbolic.geometric_algebra as ga
    repo = (ctx or {}).get("repo")
    if repo is not None:
        root = os.path.realpath(repo) + os.sep
        if not os.path.realpath(ga.__file__).startswith(root):
            raise ExtractError(f"{ga.__name__} was imported from {ga.__file__}, "
                               f"not from the tree under test {repo}")
    try:
        with open(inspect.getsourcefile(ga)) as f:
            src = f.read()
    except (OSError, TypeError) as e:
        raise ExtractError(f"pymbolic.geometric_algebra: no source ({e})")
    t = read_module(src)
    # the live classes agree with what was read (the file on disk IS what is imported)
    for c in t["classes"]:
        live = getattr(ga, c["name"], None)
        if not inspect.isclass(live):
            raise ExtractError(f"class {c['name']} of the source is not a class of the live module")
        if [b.__name__ for b in live.__bases__ if b is not object] != c["bases"]:
            raise ExtractError(f"class {c['name']}: live bases {live.__bases__} differ from the source")
        for nm, a in c["attrs"]:
            if nm not in live.__dict__:
                raise ExtractError(f"{c['name']}.{nm} of the source is not in the live class body")
        for nm, a in c["attrs"]:
            if a[0] == "alias":
                tgt = a[1]
                if tgt not in live.__dict__ or live.__dict__[tgt] is not live.__dict__[nm]:
                    raise ExtractError(f"{c['name']}.{nm}: the live class does not bind it to "
                                       f"what {tgt} is bound to")
    for f in t["fns"]:
        obj = ga
        for part in f["qual"].split("."):
            obj = obj.__dict__.get(part) if inspect.isclass(obj) else getattr(obj, part, None)
        if obj is None:
            raise ExtractError(f"{f['qual']} of the source is not in the live module")
    return t

# }}}


# {{{ Lean output

def q(s):
    out = ['"']
    for ch in s:
        if ch == "\\":
            out.append("\\\\")
        elif ch == '"':
            out.append('\\"')
        elif ch == "\n":
            out.append("\\n")
        elif ch == "\t":
            out.append("\\t")
        elif ch == "\r":
            out.append("\\r")
        elif ord(ch) < 32 or ord(ch) == 127:
            out.append("\\x%02x" % ord(ch))
        else:
            out.append(ch)
    out.append('"')
    return "".join(out)


def lstrs(xs):
    return "[" + ", ".join(q(x) for x in xs) + "]"


def lexprs(es):
    return "[" + ", ".join(lexpr(e) for e in es) + "]"


def lexpr(e):
    k = e[0]
    if k == "name":
        return f"(.name {q(e[1])})"
    if k == "nat":
        return f"(.nat {e[1]})"
    if k == "str":
        return f"(.str {q(e[1])})"
    if k == "none":
        return ".none"
    if k == "bin":
        return f"(.bin .{e[1]} {lexpr(e[2])} {lexpr(e[3])})"
    if k == "un":
        return f"(.un .{e[1]} {lexpr(e[2])})"
    if k == "cmp":
        return f"(.cmp .{e[1]} {lexpr(e[2])} {lexpr(e[3])})"
    if k in ("and", "or"):
        return f"(.{k} {lexpr(e[1])} {lexpr(e[2])})"
    if k == "ifExp":
        return f"(.ifExp {lexpr(e[1])} {lexpr(e[2])} {lexpr(e[3])})"
    if k == "attr":
        return f"(.attr {lexpr(e[1])} {q(e[2])})"
    if k == "index":
        return f"(.index {lexpr(e[1])} {lexprs(e[2])})"
    if k == "call":
        return f"(.call {lexpr(e[1])} {lexprs(e[2])} {lstrs(e[3])} {lexprs(e[4])})"
    if k == "callMethod":
        return f"(.callMethod {lexpr(e[1])} {q(e[2])} {lexprs(e[3])} {lstrs(e[4])} {lexprs(e[5])})"
    if k == "dict":
        return f"(.dict {lexprs(e[1])} {lexprs(e[2])})"
    if k in ("list", "tuple"):
        return f"(.{k} {lexprs(e[1])})"
    if k == "dictComp":
        return f"(.dictComp {lexpr(e[1])} {lexpr(e[2])} {lstrs(e[3])} {lexpr(e[4])})"
    if k == "gen":
        return f"(.gen {q(e[1])} {lexpr(e[2])} {lstrs(e[3])} {lexpr(e[4])} {lexprs(e[5])})"
    raise ExtractError(f"unknown expression {e!r}")


def ltarget(t):
    if t[0] == "name":
        return f".name {q(t[1])}"
    if t[0] == "index":
        return f".index {q(t[1])} {lexpr(t[2])}"
    if t[0] == "names":
        return f".names {lstrs(t[1])}"
    return f".attr {q(t[1])} {q(t[2])}"


def lstmt(s, ind):
    pad = " " * ind
    k = s[0]
    if k == "assign":
        ts = "[" + ", ".join(ltarget(t) for t in s[1]) + "]"
        return f"{pad}.assign {ts} {'true' if s[2] else 'false'} {lexpr(s[3])}"
    if k == "aug":
        return f"{pad}.aug ({ltarget(s[1])}) .{s[2]} {lexpr(s[3])}"
    if k == "ifThen":
        return f"{pad}.ifThen {lexpr(s[1])}\n{lstmts(s[2], ind + 2)}\n{lstmts(s[3], ind + 2)}"
    if k == "while":
        return f"{pad}.while {lexpr(s[1])}\n{lstmts(s[2], ind + 2)}"
    if k == "forIn":
        return f"{pad}.forIn {lstrs(s[1])} {lexpr(s[2])}\n{lstmts(s[3], ind + 2)}"
    if k == "ret":
        return f"{pad}.ret {lexpr(s[1])}"
    if k == "raise":
        return f"{pad}.raise {q(s[1])}"
    if k == "del":
        return f"{pad}.del {q(s[1])} {lexpr(s[2])}"
    if k == "pass":
        return f"{pad}.pass"
    if k == "assert":
        return f"{pad}.assert {q(s[1])}"
    if k == "importFrom":
        return f"{pad}.importFrom {q(s[1])} {q(s[2])} {q(s[3])}"
    raise ExtractError(f"unknown statement {s!r}")


def lstmts(ss, ind):
    pad = " " * ind
    if not ss:
        return f"{pad}[]"
    return f"{pad}[\n" + ",\n".join(lstmt(s, ind + 2) for s in ss) + f"\n{pad}]"


def fn_ident(qual):
    return "c18Fn_" + qual.replace(".", "_")


def lfn(f):
    dflt = "[" + ", ".join(f"({q(p)}, {lexpr(d)})" for p, d in f["defaults"]) + "]"
    return (f"def {fn_ident(f['qual'])} : C18Fn :=\n"
            f"  {{ qual := {q(f['qual'])}, name := {q(f['name'])}, params := {lstrs(f['params'])},\n"
            f"    defaults := {dflt}, locals := {lstrs(f['locals'])},\n"
            f"    decorators := {lstrs(f['decorators'])},\n"
            f"    body :=\n{lstmts(f['body'], 4)} }}\n")


def lattr(a):
    if a[0] == "method":
        return f".method {q(a[1])} {q(a[2])}"
    if a[0] == "alias":
        return f".alias {q(a[1])}"
    return f".other {q(a[1])}"


def lclass(c):
    attrs = ",\n".join(f"      ({q(n)}, {lattr(a)})" for n, a in c["attrs"])
    return (f"  {{ name := {q(c['name'])}, bases := {lstrs(c['bases'])},\n"
            f"    attrs := [\n{attrs}] }}")


def render(t):
    out = ["import PV.Model.GATable",
           "/- GENERATED by extract/geometric_algebra.py from the live source of",
           "   pymbolic/geometric_algebra/__init__.py — do not edit. -/",
           "namespace PV.Generated", "open PV PV.GA", ""]
    for f in t["fns"]:
        out.append(lfn(f))
    out.append("/-- the translated functions, callers first -/\n"
               "def c18GAFns : List C18Fn := [\n  "
               + ",\n  ".join(fn_ident(f["qual"]) for f in t["fns"]) + "]\n")
    out.append("def c18GAClasses : List C18Class := [\n" + ",\n".join(lclass(c) for c in t["classes"])
               + "]\n")
    out.append("/-- definitions that are not translated: normalised source text -/\n"
               "def c18GAPinned : List (String × String) := [\n"
               + ",\n".join(f"  ({q(n)}, {q(s)})" for n, s in t["pinned"]) + "]\n")
    out.append("def c18GAModule : C18Module :=\n"
               "  { fns := c18GAFns,\n"
               f"    fnNames := {lstrs([f['qual'] for f in t['fns']])},\n"
               "    classes := c18GAClasses,\n"
               "    imports := [" + ", ".join(f"({q(a)}, {q(b)})" for a, b in t["imports"]) + "],\n"
               "    pinned := c18GAPinned }\n")
    out.append("end PV.Generated\n")
    return "\n".join(out)


def extract_geometric_algebra(ctx=None):
    t = tables(ctx)
    write_if_changed(os.path.join(LEAN, "PV", "Generated", "GATable.lean"), render(t))
    return t

# }}}


if __name__ == "__main__":
    tt = extract_geometric_algebra({"repo": os.environ.get("REPO", "/repo")})
    print(len(tt["fns"]), "functions,", len(tt["classes"]), "classes,", len(tt["pinned"]), "pinned")
