"""T-gen for C16: regenerate lean/PV/Generated/Unifier.lean from the LIVE source of
pymbolic/mapper/unifier.py in the tree under test (`ctx["repo"]`).

EVERY function of the module is translated statement by statement into the small language of
lean/PV/Model/UnifyTable.lean (`C16E` expressions, `C16S` statements, `C16Fn` functions):

  * `unify_map`, `unify_many`;
  * `UnificationRecord.__init__ / unify / __repr__`;
  * `UnifierBase.__init__ / treat_mismatch / unification_record_from_equation / map_* / __call__`;
  * `UnidirectionalUnifier.treat_mismatch / map_commut_assoc` (with the nested generator functions
    `match_children`, `match_plain_var_candidates`, `subsets`, `partitions`, each a function of its
    own under its qualified name) `/ map_sum / map_product`;
  * whatever else a class body of the module defines (a new class or method is translated or the
    run fails).

Besides the bodies the table carries: every class with its MRO (without `object`), every attribute
a class body binds and the function it is bound to (`map_floor_div = map_quotient` is an alias; the
`map_*` attributes and the dispatch entry points of the classes OUTSIDE the module that are on an
MRO are listed with their owner), what `UnidirectionalUnifier.rec` and `.__init__` are, and what
every free name of the functions is (`Variable` the class of pymbolic.primitives, `len` the built-in,
`combinations` of itertools, `generate_permutations` of pytools, `flattened_sum` …).

Principles: read the source with `inspect` + `ast`; resolve names like Python does (local, enclosing
function, module, built-in); any shape this reader does not know is an `ExtractError` (reported by
the check as a broken obligation) — never a default.  Because the table language has VALUES where
Python has mutable objects, the reader also checks that no list / dict / set is mutated while an
alias of it may be alive (`check_mutation`), and that a nested function only reads variables of the
enclosing function that are final when the nested functions are defined.
"""
from __future__ import annotations

import ast
import builtins
import importlib
import inspect
import os

from harness.leanio import LEAN

from .classes import ExtractError
from .prec import write_if_changed

MODULE = "pymbolic.mapper.unifier"

CMP = {ast.Eq: "eq", ast.NotEq: "ne", ast.GtE: "ge", ast.In: "in_", ast.NotIn: "notIn",
       ast.Is: "is_", ast.IsNot: "isNot"}
BUILTINS = {"len": "len", "isinstance": "isinstance", "type": "type_", "range": "range", "set": "set",
            "enumerate": "enumerate", "zip": "zip", "list": "list"}
# library objects the table language has a primitive for: qualified name -> constructor
LIBRARY = {"itertools.combinations": ("builtin", "combinations"),
           "pytools.generate_permutations": ("builtin", "permutations"),
           "pymbolic.primitives.flattened_sum": ("factory", "sum"),
           "pymbolic.primitives.flattened_product": ("factory", "prod")}
CLASSES = {"pymbolic.primitives.Variable": "Variable", "builtins.tuple": "tuple",
           "builtins.list": "list"}
# functions that are not translated, and why (nothing in the table language can call them)
UNTRANSLATED = {"UnificationRecord.__repr__": "text form of a record (f-string); never called by the unifier"}
FRESH_CALLS = {"set", "list"}
PURE_BUILTINS = {"len", "isinstance", "type", "range", "set", "enumerate", "zip", "list"}


def lean_str(s):
    if not isinstance(s, str) or any(c in s for c in '"\\\n'):
        raise ExtractError(f"cannot write {s!r} as a Lean string literal")
    return '"' + s + '"'


def lean_list(xs):
    return "[" + ", ".join(xs) + "]"


def qual_of(obj):
    m = getattr(obj, "__module__", None)
    q = getattr(obj, "__qualname__", None)
    if not isinstance(m, str) or not isinstance(q, str):
        raise ExtractError(f"object without module / qualified name: {obj!r}")
    if m.startswith("pytools"):
        m = "pytools"           # pytools re-exports from its __init__
    return f"{m}.{q}"


class Scope:
    """names visible in one function: parameters + locals, the enclosing function's, nested defs,
    function-level imports, then module globals and built-ins"""

    def __init__(self, reader, qualname, fn: ast.FunctionDef, parent=None):
        self.reader = reader
        self.qualname = qualname
        self.fn = fn
        self.parent = parent
        a = fn.args
        if a.posonlyargs or a.kwonlyargs or a.vararg or a.kwarg or a.kw_defaults:
            raise ExtractError(f"{qualname}: signature ({ast.unparse(a)}) has parameters this reader "
                               "does not translate (positional-only / keyword-only / * / **)")
        self.params = [x.arg for x in a.args]
        self.defaults = [None] * (len(a.args) - len(a.defaults)) + list(a.defaults)
        self.locals = []
        self.nested = {}          # name -> qualified name
        self.imports = {}         # name -> resolved object
        self.collect(fn.body)

    def add_local(self, n):
        if n not in self.params and n not in self.locals:
            self.locals.append(n)

    def collect_target(self, t):
        if isinstance(t, ast.Name):
            self.add_local(t.id)
        elif isinstance(t, (ast.Tuple, ast.List)):
            for e in t.elts:
                self.collect_target(e)
        elif isinstance(t, (ast.Attribute, ast.Subscript)):
            pass
        else:
            raise ExtractError(f"{self.qualname}: unreadable assignment target `{ast.unparse(t)}`")

    def collect(self, stmts):
        for s in stmts:
            if isinstance(s, ast.Assign):
                for t in s.targets:
                    self.collect_target(t)
            elif isinstance(s, (ast.AugAssign, ast.AnnAssign)):
                raise ExtractError(f"{self.qualname}: unreadable statement `{ast.unparse(s)[:80]}`")
            elif isinstance(s, ast.For):
                self.collect_target(s.target)
                self.collect(s.body)
                self.collect(s.orelse)
            elif isinstance(s, ast.If):
                self.collect(s.body)
                self.collect(s.orelse)
            elif isinstance(s, ast.FunctionDef):
                if s.name in self.nested or s.name in self.params or s.name in self.locals:
                    raise ExtractError(f"{self.qualname}: the name {s.name} is bound twice")
                self.nested[s.name] = f"{self.qualname}.{s.name}"
            elif isinstance(s, ast.ImportFrom):
                if s.level != 0 or s.module is None:
                    raise ExtractError(f"{self.qualname}: relative import")
                mod = importlib.import_module(s.module)
                for al in s.names:
                    if al.asname is not None or al.name == "*":
                        raise ExtractError(f"{self.qualname}: unreadable import `{ast.unparse(s)}`")
                    if not hasattr(mod, al.name):
                        raise ExtractError(f"{self.qualname}: {s.module} has no {al.name}")
                    self.imports[al.name] = getattr(mod, al.name)
            elif isinstance(s, (ast.While, ast.With, ast.Try, ast.ClassDef, ast.Import, ast.Global,
                                ast.Nonlocal, ast.Delete, ast.Match if hasattr(ast, "Match") else ast.While)):
                raise ExtractError(f"{self.qualname}: unreadable statement `{ast.unparse(s)[:80]}`")
        for n in list(self.nested) + list(self.imports):
            if n in self.locals or n in self.params:
                raise ExtractError(f"{self.qualname}: the name {n} is bound as a variable and as a "
                                   "function / import")

    # resolution ------------------------------------------------------------------------------
    def is_var(self, n):
        s = self
        while s is not None:
            if n in s.params or n in s.locals:
                return True
            if n in s.nested or n in s.imports:
                return False
            s = s.parent
        return False

    def nested_fn(self, n):
        s = self
        while s is not None:
            if n in s.params or n in s.locals or n in s.imports:
                return None
            if n in s.nested:
                return s.nested[n]
            s = s.parent
        return None

    def global_obj(self, n):
        """the object a name that is no variable / nested function denotes -> (kind, object)"""
        s = self
        while s is not None:
            if n in s.imports:
                return s.imports[n]
            s = s.parent
        g = self.reader.module.__dict__
        if n in g:
            return g[n]
        if hasattr(builtins, n):
            return getattr(builtins, n)
        raise ExtractError(f"{self.qualname}: unknown name {n}")


class Reader:
    def __init__(self, module):
        self.module = module
        self.fns = []            # (qualname, params, locals, isGen, body)
        self.globals = {}        # name -> description
        self.module_fns = {}     # module-level function / class names -> qualified
        self.untranslated = []

    # {{{ expressions

    def note_global(self, n, obj):
        desc = qual_of(obj) if (inspect.isfunction(obj) or inspect.isclass(obj)
                                or inspect.isbuiltin(obj)) else None
        if desc is None:
            raise ExtractError(f"free name {n} is bound to {obj!r}: not a function / class")
        old = self.globals.setdefault(n, desc)
        if old != desc:
            raise ExtractError(f"the name {n} denotes {old} and {desc} in different functions")
        return desc

    def name_kind(self, sc: Scope, n):
        """-> ('var',) | ('nested', qual) | ('builtin', b) | ('class', c) | ('factory', o) |
        ('modfn', name)"""
        if sc.is_var(n):
            return ("var",)
        q = sc.nested_fn(n)
        if q is not None:
            return ("nested", q)
        obj = sc.global_obj(n)
        desc = self.note_global(n, obj)
        if desc.startswith("builtins.") and obj is getattr(builtins, n, None):
            if n in BUILTINS:
                return ("builtin", BUILTINS[n])
            if desc in CLASSES:
                return ("class", CLASSES[desc])
            if n == "map":
                return ("map",)
            raise ExtractError(f"{sc.qualname}: the built-in {n} has no meaning in the table language")
        if desc in CLASSES:
            return ("class", CLASSES[desc])
        if desc in LIBRARY:
            return LIBRARY[desc]
        if getattr(obj, "__module__", None) == self.module.__name__ and n in self.module_fns:
            return ("modfn", n)
        raise ExtractError(f"{sc.qualname}: the name {n} ({desc}) has no meaning in the table language")

    def args(self, sc, call: ast.Call):
        if call.keywords or any(isinstance(a, ast.Starred) for a in call.args):
            raise ExtractError(f"{sc.qualname}: unreadable call `{ast.unparse(call)}`")
        return lean_list([self.expr(sc, a) for a in call.args])

    def expr(self, sc: Scope, n) -> str:
        what = sc.qualname
        if isinstance(n, ast.Constant):
            if n.value is None:
                return ".pyNone"
            if isinstance(n.value, bool):
                return f"(.bool {'true' if n.value else 'false'})"
            if isinstance(n.value, int):
                return f"(.int {n.value})" if n.value >= 0 else f"(.int ({n.value}))"
            raise ExtractError(f"{what}: unreadable constant `{ast.unparse(n)}`")
        if isinstance(n, ast.Name):
            if not isinstance(n.ctx, ast.Load):
                raise ExtractError(f"{what}: unreadable name use `{ast.unparse(n)}`")
            k = self.name_kind(sc, n.id)
            if k[0] == "var":
                return f"(.name {lean_str(n.id)})"
            if k[0] == "class":
                return f"(.clsRef {lean_str(k[1])})"
            if k[0] == "factory":
                return f"(.factoryRef .{k[1]})"
            if k[0] == "builtin" and f"builtins.{n.id}" in CLASSES:
                return f"(.clsRef {lean_str(CLASSES['builtins.' + n.id])})"
            raise ExtractError(f"{what}: the function {n.id} is used as a value")
        if isinstance(n, ast.List):
            if not n.elts:
                return ".nil"
            if len(n.elts) == 2 and isinstance(n.elts[1], ast.Starred) \
                    and not isinstance(n.elts[0], ast.Starred):
                return f"(.listStar {self.expr(sc, n.elts[0])} {self.expr(sc, n.elts[1].value)})"
            if any(isinstance(e, ast.Starred) for e in n.elts):
                raise ExtractError(f"{what}: unreadable list display `{ast.unparse(n)}`")
            return f"(.list {lean_list([self.expr(sc, e) for e in n.elts])})"
        if isinstance(n, ast.Dict):
            if n.keys:
                raise ExtractError(f"{what}: unreadable dict display `{ast.unparse(n)}`")
            return ".emptyDict"
        if isinstance(n, ast.Set):
            if any(isinstance(e, ast.Starred) for e in n.elts):
                raise ExtractError(f"{what}: unreadable set display `{ast.unparse(n)}`")
            return f"(.setLit {lean_list([self.expr(sc, e) for e in n.elts])})"
        if isinstance(n, ast.Tuple):
            if any(isinstance(e, ast.Starred) for e in n.elts):
                raise ExtractError(f"{what}: unreadable tuple `{ast.unparse(n)}`")
            return f"(.tuple {lean_list([self.expr(sc, e) for e in n.elts])})"
        if isinstance(n, ast.Attribute):
            return f"(.attr {self.expr(sc, n.value)} {lean_str(n.attr)})"
        if isinstance(n, ast.Call):
            f = n.func
            if isinstance(f, ast.Name):
                k = self.name_kind(sc, f.id)
                if k[0] == "builtin":
                    return f"(.builtin .{k[1]} {self.args(sc, n)})"
                if k[0] == "map":
                    if (len(n.args) == 2 and not n.keywords and isinstance(n.args[0], ast.Name)
                            and self.name_kind(sc, n.args[0].id) == ("builtin", "set")):
                        return f"(.mapSet {self.expr(sc, n.args[1])})"
                    raise ExtractError(f"{what}: unreadable call `{ast.unparse(n)}`")
                if k[0] == "modfn":
                    return f"(.fnCall {lean_str(k[1])} {self.args(sc, n)})"
                if k[0] == "nested":
                    return f"(.localCall {lean_str(k[1])} {self.args(sc, n)})"
                if k[0] == "var":
                    return f"(.varCall {lean_str(f.id)} {self.args(sc, n)})"
                raise ExtractError(f"{what}: unreadable call `{ast.unparse(n)}`")
            if isinstance(f, ast.Attribute):
                if isinstance(f.value, ast.Name) and f.value.id == "self" and sc.is_var("self"):
                    return f"(.selfCall {lean_str(f.attr)} {self.args(sc, n)})"
                return f"(.meth {self.expr(sc, f.value)} {lean_str(f.attr)} {self.args(sc, n)})"
            raise ExtractError(f"{what}: unreadable call `{ast.unparse(n)}`")
        if isinstance(n, ast.Compare):
            ops = []
            for o in n.ops:
                if type(o) not in CMP:
                    raise ExtractError(f"{what}: unreadable comparison `{ast.unparse(n)}`")
                ops.append(CMP[type(o)])
            xs = [self.expr(sc, n.left)] + [self.expr(sc, c) for c in n.comparators]
            if len(ops) == 1:
                return f"(.cmp .{ops[0]} {xs[0]} {xs[1]})"
            if len(ops) == 2:
                return f"(.cmp3 .{ops[0]} .{ops[1]} {xs[0]} {xs[1]} {xs[2]})"
            raise ExtractError(f"{what}: unreadable comparison `{ast.unparse(n)}`")
        if isinstance(n, ast.BoolOp):
            c = ".and_" if isinstance(n.op, ast.And) else ".or_"
            xs = [self.expr(sc, v) for v in n.values]
            out = xs[-1]
            for x in reversed(xs[:-1]):
                out = f"({c} {x} {out})"
            return out
        if isinstance(n, ast.UnaryOp) and isinstance(n.op, ast.Not):
            return f"(.not_ {self.expr(sc, n.operand)})"
        if isinstance(n, ast.BinOp) and isinstance(n.op, (ast.Add, ast.Sub)):
            op = ".add" if isinstance(n.op, ast.Add) else ".sub"
            return f"(.arith {op} {self.expr(sc, n.left)} {self.expr(sc, n.right)})"
        if isinstance(n, ast.Subscript) and isinstance(n.ctx, ast.Load) \
                and not isinstance(n.slice, (ast.Slice, ast.Tuple)):
            return f"(.index {self.expr(sc, n.value)} {self.expr(sc, n.slice)})"
        if isinstance(n, ast.GeneratorExp):
            if len(n.generators) != 1:
                raise ExtractError(f"{what}: unreadable generator `{ast.unparse(n)}`")
            g = n.generators[0]
            if g.ifs or g.is_async or not isinstance(g.target, ast.Name):
                raise ExtractError(f"{what}: unreadable generator `{ast.unparse(n)}`")
            v = g.target.id
            if sc.is_var(v) or sc.nested_fn(v) is not None:
                raise ExtractError(f"{what}: the generator variable {v} shadows a name")
            it = self.expr(sc, g.iter)
            inner = _GenScope(sc, v)
            return f"(.gen {self.expr(inner, n.elt)} {lean_str(v)} {it})"
        raise ExtractError(f"{what}: unreadable expression `{ast.unparse(n)[:100]}`")

    # }}}

    # {{{ statements

    def stmts(self, sc, ss, top=False):
        out = []
        for i, s in enumerate(ss):
            if (top and i == 0 and isinstance(s, ast.Expr) and isinstance(s.value, ast.Constant)
                    and isinstance(s.value.value, str)):
                continue          # docstring
            out.append(self.stmt(sc, s))
        return lean_list(out)

    def local_name(self, sc, n, s):
        if not (isinstance(n, ast.Name) and n.id in sc.locals + sc.params):
            raise ExtractError(f"{sc.qualname}: `{ast.unparse(s)[:80]}` does not act on a local "
                               "variable of the function")
        return lean_str(n.id)

    def stmt(self, sc: Scope, s) -> str:
        what = sc.qualname
        if isinstance(s, ast.Assign) and len(s.targets) == 1:
            t = s.targets[0]
            if isinstance(t, ast.Name):
                return f"(.assign {lean_str(t.id)} {self.expr(sc, s.value)})"
            if isinstance(t, ast.Tuple) and len(t.elts) == 1 and isinstance(t.elts[0], ast.Name):
                return f"(.unpack1 {lean_str(t.elts[0].id)} {self.expr(sc, s.value)})"
            if (isinstance(t, ast.Attribute) and isinstance(t.value, ast.Name)
                    and t.value.id == "self" and "self" in sc.params):
                return f"(.setAttr {lean_str(t.attr)} {self.expr(sc, s.value)})"
            if isinstance(t, ast.Subscript) and not isinstance(t.slice, (ast.Slice, ast.Tuple)):
                return (f"(.setItem {self.local_name(sc, t.value, s)} {self.expr(sc, t.slice)} "
                        f"{self.expr(sc, s.value)})")
        if isinstance(s, ast.Expr):
            v = s.value
            if isinstance(v, ast.Yield):
                if v.value is None:
                    raise ExtractError(f"{what}: bare yield")
                return f"(.yield_ {self.expr(sc, v.value)})"
            if isinstance(v, ast.YieldFrom):
                return f"(.yieldFrom {self.expr(sc, v.value)})"
            if (isinstance(v, ast.Call) and isinstance(v.func, ast.Attribute)
                    and v.func.attr in ("append", "extend", "update") and len(v.args) == 1
                    and not v.keywords and not isinstance(v.args[0], ast.Starred)):
                return (f"(.{v.func.attr} {self.local_name(sc, v.func.value, s)} "
                        f"{self.expr(sc, v.args[0])})")
        if isinstance(s, ast.If):
            return (f"(.ifThen {self.expr(sc, s.test)} {self.stmts(sc, s.body)} "
                    f"{self.stmts(sc, s.orelse)})")
        if isinstance(s, ast.For):
            t = s.target
            if isinstance(t, ast.Name):
                ts = [t.id]
            elif isinstance(t, ast.Tuple) and all(isinstance(e, ast.Name) for e in t.elts) \
                    and len(t.elts) == 2:
                ts = [e.id for e in t.elts]
            else:
                raise ExtractError(f"{what}: unreadable loop target `{ast.unparse(t)}`")
            return (f"(.forIn {lean_list([lean_str(x) for x in ts])} {self.expr(sc, s.iter)} "
                    f"{self.stmts(sc, s.body)} {self.stmts(sc, s.orelse)})")
        if isinstance(s, ast.Return):
            if s.value is None:
                return "(.ret none)"
            return f"(.ret (some {self.expr(sc, s.value)}))"
        if isinstance(s, ast.Break):
            return ".brk"
        if isinstance(s, ast.Continue):
            return ".cont"
        if isinstance(s, ast.Raise) and s.cause is None and s.exc is not None:
            e = s.exc
            if isinstance(e, ast.Call) and not e.args and not e.keywords:
                e = e.func
            if isinstance(e, ast.Name):
                obj = sc.global_obj(e.id)
                if not (inspect.isclass(obj) and issubclass(obj, BaseException)):
                    raise ExtractError(f"{what}: `{ast.unparse(s)}` does not raise an exception class")
                return f"(.raise_ {lean_str(obj.__name__)})"
        if isinstance(s, ast.FunctionDef):
            q = sc.nested[s.name]
            if s.decorator_list:
                raise ExtractError(f"{q}: decorated")
            self.function(q, s, parent=sc)
            return f"(.def_ {lean_str(q)})"
        if isinstance(s, ast.ImportFrom):
            return f"(.import_ {lean_list([lean_str(a.name) for a in s.names])})"
        raise ExtractError(f"{what}: unreadable statement `{ast.unparse(s)[:100]}`")

    # }}}

    def function(self, qualname, fn: ast.FunctionDef, parent=None):
        sc = Scope(self, qualname, fn, parent)
        is_gen = any(isinstance(x, (ast.Yield, ast.YieldFrom)) for x in own_nodes(fn))
        slot = len(self.fns)
        self.fns.append(None)        # keep source order: the enclosing function first
        body = self.stmts(sc, fn.body, top=True)
        params = []
        for p, d in zip(sc.params, sc.defaults):
            if d is None:
                params.append(f"({lean_str(p)}, none)")
            else:
                if not isinstance(d, ast.Constant):
                    raise ExtractError(f"{qualname}: default of {p} is not a constant")
                params.append(f"({lean_str(p)}, some {self.expr(sc, d)})")
        check_mutation(sc)
        check_closure(sc)
        self.fns[slot] = (f"  ⟨{lean_str(qualname)}, {lean_list(params)}, "
                          f"{lean_list([lean_str(x) for x in sc.locals])}, "
                          f"{'true' if is_gen else 'false'},\n    {body}⟩")
        return sc


class _GenScope:
    """scope of a generator expression: one more variable"""

    def __init__(self, parent, var):
        self.parent_scope = parent
        self.var = var
        self.qualname = parent.qualname
        self.reader = parent.reader
        self.params = parent.params
        self.locals = parent.locals

    def is_var(self, n):
        return n == self.var or self.parent_scope.is_var(n)

    def nested_fn(self, n):
        return None if n == self.var else self.parent_scope.nested_fn(n)

    def global_obj(self, n):
        return self.parent_scope.global_obj(n)


def own_nodes(fn):
    """nodes of a function body without those of nested functions"""
    todo = list(fn.body)
    while todo:
        n = todo.pop()
        yield n
        for c in ast.iter_child_nodes(n):
            if not isinstance(c, (ast.FunctionDef, ast.Lambda, ast.ClassDef)):
                todo.append(c)


# {{{ value semantics is only right without live aliases of mutated objects

def _is_fresh(e):
    if isinstance(e, (ast.List, ast.Dict, ast.Set)):
        return True
    if isinstance(e, ast.Call):
        if isinstance(e.func, ast.Name) and e.func.id in FRESH_CALLS:
            return True
        if isinstance(e.func, ast.Attribute) and e.func.attr == "copy" and not e.args:
            return True
    return False


def _escaping_names(e, out):
    """names whose OBJECT may become reachable from somewhere else by evaluating / using `e` as a
    value (conservative): every name except under reading operations"""
    if isinstance(e, ast.Name):
        out.add(e.id)
    elif isinstance(e, ast.Call):
        f = e.func
        pure = isinstance(f, ast.Name) and f.id in PURE_BUILTINS
        if isinstance(f, ast.Attribute):
            # receiver of a method call is read; `d.items()`, `d.copy()`, `r.unify(x)`
            _reads(f.value, out)
        for a in e.args:
            if pure:
                _reads(a, out)
            else:
                _escaping_names(a.value if isinstance(a, ast.Starred) else a, out)
    elif isinstance(e, (ast.Tuple, ast.List, ast.Set)):
        for x in e.elts:
            _escaping_names(x.value if isinstance(x, ast.Starred) else x, out)
    elif isinstance(e, ast.Dict):
        for x in list(e.keys) + list(e.values):
            if x is not None:
                _escaping_names(x, out)
    elif isinstance(e, ast.GeneratorExp):
        _escaping_names(e.elt, out)
        for g in e.generators:
            _reads(g.iter, out)
    elif isinstance(e, (ast.Attribute, ast.Subscript, ast.Compare, ast.BoolOp, ast.UnaryOp, ast.BinOp,
                        ast.Constant)):
        _reads(e, out)
    elif isinstance(e, (ast.Yield, ast.YieldFrom)):
        if e.value is not None:
            _escaping_names(e.value, out)
    else:
        raise ExtractError(f"alias check: unreadable expression `{ast.unparse(e)[:80]}`")


def _reads(e, out):
    """a reading use: only calls inside can let something escape"""
    for n in ast.walk(e):
        if isinstance(n, ast.Call):
            _escaping_names(n, out)


def check_mutation(sc: Scope):
    what = sc.qualname

    def run(stmts, fresh):
        fresh = set(fresh)
        for s in stmts:
            if isinstance(s, ast.Assign):
                esc = set()
                _escaping_names(s.value, esc)
                t = s.targets[0]
                if isinstance(t, ast.Subscript):
                    if not isinstance(t.value, ast.Name) or t.value.id not in fresh:
                        raise ExtractError(f"{what}: `{ast.unparse(s)}` mutates an object that may "
                                           "be shared")
                    _escaping_names(t.slice, esc)
                fresh -= esc
                for t in s.targets:
                    for nm in ast.walk(t):
                        if isinstance(nm, ast.Name) and isinstance(nm.ctx, ast.Store):
                            fresh.discard(nm.id)
                if isinstance(t, ast.Name) and _is_fresh(s.value):
                    fresh.add(t.id)
            elif isinstance(s, ast.Expr):
                v = s.value
                if (isinstance(v, ast.Call) and isinstance(v.func, ast.Attribute)
                        and v.func.attr in ("append", "extend", "update")):
                    tgt = v.func.value
                    if not isinstance(tgt, ast.Name) or tgt.id not in fresh:
                        raise ExtractError(f"{what}: `{ast.unparse(s)}` mutates an object that may "
                                           "be shared")
                    esc = set()
                    if v.func.attr == "append":
                        _escaping_names(v.args[0], esc)
                    else:
                        _reads(v.args[0], esc)
                    if tgt.id in esc:
                        raise ExtractError(f"{what}: `{ast.unparse(s)}` puts an object into itself")
                    fresh -= esc
                else:
                    esc = set()
                    _escaping_names(v, esc)
                    fresh -= esc
            elif isinstance(s, ast.If):
                esc = set()
                _reads(s.test, esc)
                fresh -= esc
                a = run(s.body, fresh)
                b = run(s.orelse, fresh)
                fresh = a & b
            elif isinstance(s, ast.For):
                esc = set()
                _reads(s.iter, esc)
                fresh -= esc
                for nm in ast.walk(s.target):
                    if isinstance(nm, ast.Name):
                        fresh.discard(nm.id)
                once = run(s.body, fresh)
                twice = run(s.body, fresh & once)       # the state a later iteration starts in
                fresh = fresh & once & twice
                fresh = run(s.orelse, fresh)
            elif isinstance(s, ast.Return):
                if s.value is not None:
                    esc = set()
                    _escaping_names(s.value, esc)
                    fresh -= esc
            elif isinstance(s, (ast.Break, ast.Continue, ast.Raise, ast.ImportFrom)):
                pass
            elif isinstance(s, ast.FunctionDef):
                # a nested function may read (not mutate: checked for it separately) anything
                for n in free_names(s):
                    fresh.discard(n)
            else:
                raise ExtractError(f"{what}: alias check: unreadable statement `{ast.unparse(s)[:80]}`")
        return fresh

    run(sc.fn.body, set())


def free_names(fn: ast.FunctionDef):
    """names a function (with the functions nested in it) reads but does not bind itself"""
    own = {a.arg for a in fn.args.args}
    loads = set()
    for n in own_nodes(fn):
        if isinstance(n, ast.Name):
            if isinstance(n.ctx, ast.Store):
                own.add(n.id)
            else:
                loads.add(n.id)
        elif isinstance(n, ast.ImportFrom):
            own.update(a.name for a in n.names)
    for s in own_nodes(fn):
        pass
    inner = set()
    for n in ast.walk(fn):
        if isinstance(n, ast.FunctionDef) and n is not fn and n in _direct_defs(fn):
            own.add(n.name)
            inner |= free_names(n)
    return (loads | inner) - own


def _direct_defs(fn):
    out = []
    todo = list(fn.body)
    while todo:
        n = todo.pop()
        if isinstance(n, ast.FunctionDef):
            out.append(n)
            continue
        for c in ast.iter_child_nodes(n):
            todo.append(c)
    return out


def check_closure(sc: Scope):
    """a nested function reads variables of the enclosing function; they must be final when the
    first nested function is defined (no later assignment / mutation in the enclosing function),
    and a function nested deeper must not read variables of the function in between (the table
    language gives every nested function the variables of the OUTERMOST function)"""
    if not sc.nested:
        if sc.parent is not None and sc.parent.parent is not None:
            mid = sc.parent
            for n in own_nodes(sc.fn):
                if isinstance(n, ast.Name) and n.id not in sc.params and n.id not in sc.locals \
                        and (n.id in mid.params or n.id in mid.locals):
                    raise ExtractError(f"{sc.qualname}: reads the variable {n.id} of {mid.qualname}")
        return
    body = sc.fn.body
    first = next(i for i, s in enumerate(body) if isinstance(s, ast.FunctionDef))
    read = set()
    for s in body:
        if isinstance(s, ast.FunctionDef):
            for n in free_names(s):
                if n in sc.params or n in sc.locals:
                    read.add(n)
    for s in body[first:]:
        if isinstance(s, ast.FunctionDef):
            # a nested function must not rebind variables of the enclosing one (no nonlocal) — it
            # would simply create a local; mutation of them is rejected by check_mutation of it
            continue
        for n in ast.walk(s):
            if isinstance(n, ast.Name) and isinstance(n.ctx, ast.Store) and n.id in read:
                raise ExtractError(f"{sc.qualname}: {n.id} is assigned after the nested functions "
                                   "that read it are defined")
            if (isinstance(n, ast.Call) and isinstance(n.func, ast.Attribute)
                    and n.func.attr in ("append", "extend", "update", "add", "pop", "remove", "clear",
                                        "insert", "sort", "setdefault")
                    and isinstance(n.func.value, ast.Name) and n.func.value.id in read):
                raise ExtractError(f"{sc.qualname}: {n.func.value.id} is mutated after the nested "
                                   "functions that read it are defined")
    if sc.parent is not None:
        for q in sc.nested.values():
            pass

# }}}


def read_module(module):
    try:
        src = inspect.getsource(module)
    except (OSError, TypeError) as e:
        raise ExtractError(f"{module.__name__}: no source ({e})")
    tree = ast.parse(src)
    rd = Reader(module)
    classes = []          # (name, ClassDef)
    for s in tree.body:
        if isinstance(s, ast.FunctionDef):
            rd.module_fns[s.name] = s.name
        elif isinstance(s, ast.ClassDef):
            rd.module_fns[s.name] = s.name
    binds = []            # (cls, attr, impl)
    for i, s in enumerate(tree.body):
        if isinstance(s, ast.Expr) and isinstance(s.value, ast.Constant) and isinstance(s.value.value, str):
            continue
        if isinstance(s, ast.ImportFrom):
            if s.module == "__future__":
                continue
            mod = importlib.import_module(s.module)
            for al in s.names:
                if al.asname is not None or al.name == "*":
                    raise ExtractError(f"unreadable import `{ast.unparse(s)}`")
                if getattr(module, al.name, None) is not getattr(mod, al.name, object()):
                    raise ExtractError(f"the module-level name {al.name} is not {s.module}.{al.name}")
            continue
        if isinstance(s, ast.Assign) and len(s.targets) == 1 and isinstance(s.targets[0], ast.Name) \
                and s.targets[0].id.startswith("__") and isinstance(s.value, ast.Constant):
            continue              # __copyright__, __license__
        if isinstance(s, ast.FunctionDef):
            if s.decorator_list:
                raise ExtractError(f"{s.name}: decorated")
            if not inspect.isfunction(getattr(module, s.name, None)):
                raise ExtractError(f"{s.name}: the module attribute is not this function")
            rd.function(s.name, s)
            continue
        if isinstance(s, ast.ClassDef):
            if s.decorator_list or s.keywords:
                raise ExtractError(f"class {s.name}: decorated / keyword arguments")
            cls = getattr(module, s.name, None)
            if not inspect.isclass(cls) or cls.__module__ != module.__name__:
                raise ExtractError(f"class {s.name}: the module attribute is not this class")
            classes.append((s.name, cls))
            bound = {}
            for j, b in enumerate(s.body):
                if isinstance(b, ast.Expr) and isinstance(b.value, ast.Constant) \
                        and isinstance(b.value.value, str):
                    continue
                if isinstance(b, ast.FunctionDef):
                    if b.decorator_list:
                        raise ExtractError(f"{s.name}.{b.name}: decorated")
                    q = f"{s.name}.{b.name}"
                    if q in UNTRANSLATED:
                        rd.untranslated.append((q, UNTRANSLATED[q]))
                    else:
                        rd.function(q, b)
                    bound[b.name] = q
                    continue
                if (isinstance(b, ast.Assign) and len(b.targets) == 1
                        and isinstance(b.targets[0], ast.Name) and isinstance(b.value, ast.Name)
                        and b.value.id in bound):
                    bound[b.targets[0].id] = bound[b.value.id]
                    continue
                raise ExtractError(f"class {s.name}: unreadable statement `{ast.unparse(b)[:80]}`")
            # what the live class really has
            for attr, impl in bound.items():
                obj = cls.__dict__.get(attr)
                if not inspect.isfunction(obj) or obj.__qualname__ != impl:
                    raise ExtractError(f"{s.name}.{attr}: the class attribute is "
                                       f"{getattr(obj, '__qualname__', obj)!r}, the source says {impl}")
                binds.append((s.name, attr, impl))
            extra = [k for k, v in cls.__dict__.items()
                     if k not in bound and (inspect.isfunction(v) or k.startswith("map_"))]
            if extra:
                raise ExtractError(f"class {s.name}: attributes {extra} are not in the class body")
            continue
        raise ExtractError(f"module level: unreadable statement `{ast.unparse(s)[:80]}`")
    return rd, classes, binds


DISPATCH_ATTRS = ("__call__", "rec", "rec_fallback", "map_foreign", "handle_unsupported_expression",
                  "__init__")


def extract_unifier(ctx=None):
    import pymbolic.mapper.unifier as module

    if ctx and ctx.get("repo"):
        root = os.path.realpath(ctx["repo"]) + os.sep
        f = os.path.realpath(module.__file__)
        if not f.startswith(root):
            raise ExtractError(f"{module.__name__} was imported from {f}, not from {root}")
    rd, classes, binds = read_module(module)

    # classes: the module's own and everything on their MROs
    own = {n for n, _ in classes}
    class_rows = []
    seen = set()
    outside = []
    for n, cls in classes:
        mro = [k for k in cls.__mro__ if k is not object]
        names = []
        for k in mro:
            if k.__module__ == module.__name__:
                if k.__name__ not in own:
                    raise ExtractError(f"{n}: base {k.__name__} is not a class of the module body")
            elif k not in outside:
                outside.append(k)
            names.append(k.__name__)
        if len(set(names)) != len(names):
            raise ExtractError(f"{n}: two classes of the MRO share a name: {names}")
        class_rows.append((n, names))
        seen.add(n)
    for k in outside:
        if k.__name__ in seen:
            raise ExtractError(f"class name {k.__name__} is used twice")
        seen.add(k.__name__)
        names = [c.__name__ for c in k.__mro__ if c is not object]
        class_rows.append((k.__name__, names))
        for c in k.__mro__:
            if c is not object and c.__module__ != module.__name__ and c not in outside:
                outside.append(c)
        for attr, v in k.__dict__.items():
            if attr.startswith("map_") or attr in DISPATCH_ATTRS:
                if not inspect.isfunction(v):
                    raise ExtractError(f"{k.__name__}.{attr} is not a plain function")
                binds.append((k.__name__, attr, v.__qualname__))

    def resolved(cls, attr):
        v = getattr(cls, attr, None)
        if not inspect.isfunction(v):
            raise ExtractError(f"{cls.__name__}.{attr} is not a plain function")
        return v.__qualname__

    mapper = getattr(module, "UnidirectionalUnifier", None)
    if not inspect.isclass(mapper):
        raise ExtractError("the module has no class UnidirectionalUnifier")
    rec_impl = resolved(mapper, "rec")
    init_impl = resolved(mapper, "__init__")

    # the table's own resolution must agree with Python's
    def table_resolve(cls_name, attr):
        for c in dict(class_rows)[cls_name]:
            for (k, a, impl) in binds:
                if k == c and a == attr:
                    return impl
        return None
    for n, cls in classes:
        for attr in dir(cls):
            if attr.startswith("map_") or attr in DISPATCH_ATTRS:
                v = getattr(cls, attr)
                want = v.__qualname__ if inspect.isfunction(v) else None
                if want is not None and table_resolve(n, attr) != want:
                    raise ExtractError(f"{n}.{attr}: Python resolves it to {want}, the table to "
                                       f"{table_resolve(n, attr)}")

    glob = sorted(rd.globals.items())
    text = ("import PV.Model.UnifyTable\n"
            "/- GENERATED by extract/unifier.py from the live source of pymbolic/mapper/unifier.py —\n"
            "   do not edit. -/\n"
            "namespace PV.Generated\nopen PV.Unify\n\n"
            "def c16UnifierFns : List C16Fn := [\n" + ",\n".join(rd.fns) + "]\n\n"
            "def c16Unifier : C16Table :=\n"
            "  { fns := c16UnifierFns,\n"
            "    classes := " + lean_list(
                [f"⟨{lean_str(n)}, {lean_list([lean_str(m) for m in mro])}⟩" for n, mro in class_rows])
            + ",\n    binds := [\n      " + ",\n      ".join(
                f"⟨{lean_str(c)}, {lean_str(a)}, {lean_str(i)}⟩" for c, a, i in binds) + "],\n"
            f"    recImpl := {lean_str(rec_impl)},\n"
            f"    initImpl := {lean_str(init_impl)},\n"
            "    globals := " + lean_list([f"({lean_str(k)}, {lean_str(v)})" for k, v in glob]) + ",\n"
            "    untranslated := " + lean_list(
                [f"({lean_str(k)}, {lean_str(v)})" for k, v in rd.untranslated]) + " }\n\n"
            "end PV.Generated\n")
    write_if_changed(os.path.join(LEAN, "PV", "Generated", "Unifier.lean"), text)
    return rd, class_rows, binds
