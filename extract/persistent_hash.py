"""T-gen for C17: regenerate lean/PV/Generated/PersistentHash.lean from the LIVE source of
`pymbolic.mapper.persistent_hash.PersistentHashWalkMapper` (working tree under ctx["repo"]).

`PersistentHashWalkMapper` is a `WalkMapper` whose overrides feed pieces of every visited node to
`self.key_hash.update(…)`.  Everything the class body defines is read with `inspect` + `ast` and
reduced to a `C17Table` (lean/PV/Model/PersistentHashTable.lean):

  * `__init__`       must store the hash object as `self.key_hash` (a `warn(…)` call is skipped);
  * `visit`          the ordered feeds and the constant it returns (`True`: children are walked);
  * `post_visit`     (inherited from `WalkMapper` today: must be a no-op) its feeds;
  * every `map_*` override: whether the body sits under `if self.visit(expr):`, the numpy-scalar
                     normalisation preamble of `map_constant`, and the ordered steps
                       feed  `self.key_hash.update(<piece>.encode("utf8"))`
                       rec   `self.rec(expr.F)` / `for c in expr.F: self.rec(c)`
    a piece is `type(expr).__name__` | `expr.F` | `repr(expr)` | `repr(expr.F)` | `str(expr.F)`;
  * anything else defined in the class body (`rec`, `__call__`, `map_foreign`, …) is an error:
    the traversal itself must stay `WalkMapper`'s (its rows are lean/PV/Generated/Traversal.lean);
  * `Expression.update_persistent_hash` (pymbolic/primitives.py): absent today (pytools'
    `KeyBuilder` keys expression dataclasses itself); if it is defined it must be the two-liner
    that runs this mapper on `self`.

What is recorded is what the source SAYS; an unknown statement / expression shape is an
`ExtractError` (reported by the check as a broken obligation) — never a default.
"""
from __future__ import annotations

import ast
import inspect
import os

from harness.leanio import LEAN

from .classes import ExtractError
from .evaluator import check_repo
from .prec import write_if_changed
from .traversal import _body, _fn_ast, _name, _self_call, _site_direct, _site_loop, lb, q

ENCODINGS = ("utf8", "utf-8")


# {{{ pieces and steps

def _piece(n, what):
    """`<piece>.encode("utf8")` -> piece"""
    if not (isinstance(n, ast.Call) and isinstance(n.func, ast.Attribute) and n.func.attr == "encode"
            and len(n.args) == 1 and not n.keywords and isinstance(n.args[0], ast.Constant)
            and n.args[0].value in ENCODINGS):
        raise ExtractError(f"{what}: fed value is not <piece>.encode('utf8'): {ast.unparse(n)[:70]}")
    v = n.func.value
    src = ast.unparse(v)
    if src == "type(expr).__name__" or src == "expr.__class__.__name__":
        return ("className",)
    if isinstance(v, ast.Attribute) and _name(v.value, "expr") and not v.attr.startswith("__"):
        return ("field", v.attr)
    if (isinstance(v, ast.Call) and isinstance(v.func, ast.Name) and v.func.id in ("repr", "str")
            and len(v.args) == 1 and not v.keywords):
        a = v.args[0]
        if _name(a, "expr"):
            return ("reprSelf",) if v.func.id == "repr" else ("strSelf",)
        if isinstance(a, ast.Attribute) and _name(a.value, "expr") and not a.attr.startswith("__"):
            return ("reprField" if v.func.id == "repr" else "strField", a.attr)
    raise ExtractError(f"{what}: unreadable piece `{src[:70]}`")


def _feed(s, what):
    """`self.key_hash.update(X)` statement -> piece, else None"""
    if not (isinstance(s, ast.Expr) and isinstance(s.value, ast.Call)):
        return None
    c = s.value
    if ast.unparse(c.func) != "self.key_hash.update":
        return None
    if len(c.args) != 1 or c.keywords:
        raise ExtractError(f"{what}: key_hash.update takes one argument: {ast.unparse(c)[:70]}")
    return _piece(c.args[0], what)


NUMPY_PREAMBLE = ("if 'numpy' in sys.modules:\n"
                  "    import numpy as np\n"
                  "    if isinstance(expr, np.generic):\n"
                  "        expr = expr.item()")


def _steps(stmts, what):
    out = []
    for s in stmts:
        p = _feed(s, what)
        if p is not None:
            out.append(("feed", p))
            continue
        r = None
        if isinstance(s, ast.Expr):
            r = _site_direct(s.value, what)
        if r is None:
            r = _site_loop(s, what)
        if r is None:
            raise ExtractError(f"{what}: unreadable statement `{ast.unparse(s).splitlines()[0][:70]}`")
        if r["fwd"]:
            raise ExtractError(f"{what}: a handler without *args forwards *args")
        out.append(("rec", r))
    return out


def _check_sig(fn, names, what):
    a = fn.args
    if ([x.arg for x in a.args] != names or a.vararg or a.kwarg or a.kwonlyargs or a.posonlyargs
            or a.defaults):
        raise ExtractError(f"{what}: signature is not ({', '.join(names)})")


def _no_stray_calls(fn, what, allowed_visit):
    """`self.visit` / `self.post_visit` / `self.key_hash` only where the readers look"""
    n_visit = sum(1 for n in ast.walk(fn) if _self_call(n, "visit"))
    if n_visit != allowed_visit:
        raise ExtractError(f"{what}: self.visit called at an unexpected place")
    if any(_self_call(n, "post_visit") for n in ast.walk(fn)):
        raise ExtractError(f"{what}: self.post_visit called by an override")


def read_init(fn, what):
    _check_sig(fn, ["self", "key_hash"], what)
    stores = False
    for s in _body(fn):
        src = ast.unparse(s)
        if src == "self.key_hash = key_hash":
            stores = True
        elif isinstance(s, ast.Expr) and isinstance(s.value, ast.Call) and _name(s.value.func, "warn"):
            continue
        else:
            raise ExtractError(f"{what}: unreadable statement `{src[:70]}`")
    return stores


def read_visit(fn, what):
    """feeds, then `return <bool constant>` (no return: None, i.e. falsy)"""
    _check_sig(fn, ["self", "expr"], what)
    body = _body(fn)
    ret = False
    if body and isinstance(body[-1], ast.Return):
        v = body[-1].value
        if v is None or (isinstance(v, ast.Constant) and v.value is None):
            ret = False
        elif isinstance(v, ast.Constant) and isinstance(v.value, bool):
            ret = v.value
        else:
            raise ExtractError(f"{what}: does not return a constant: {ast.unparse(body[-1])[:70]}")
        body = body[:-1]
    feeds = []
    for s in body:
        if isinstance(s, ast.Pass):
            continue
        p = _feed(s, what)
        if p is None:
            raise ExtractError(f"{what}: unreadable statement `{ast.unparse(s).splitlines()[0][:70]}`")
        feeds.append(p)
    if any(isinstance(n, ast.Return) for s in body for n in ast.walk(s)):
        raise ExtractError(f"{what}: return at an unexpected place")
    return feeds, ret


def read_post_visit(fn, what, inherited):
    """feeds only; the inherited `WalkMapper.post_visit(self, expr, *args, **kwargs)` must be empty"""
    body = [s for s in _body(fn) if not isinstance(s, ast.Pass)]
    if inherited:
        if body:
            raise ExtractError(f"{what}: the inherited post_visit is not a no-op")
        return []
    _check_sig(fn, ["self", "expr"], what)
    feeds = []
    for s in body:
        p = _feed(s, what)
        if p is None:
            raise ExtractError(f"{what}: unreadable statement `{ast.unparse(s).splitlines()[0][:70]}`")
        feeds.append(p)
    return feeds


def read_override(fn, what):
    _check_sig(fn, ["self", "expr"], what)
    body = [s for s in _body(fn) if not isinstance(s, ast.Pass)]
    numpy_item = False
    if body and isinstance(body[0], ast.If) and ast.unparse(body[0]) == NUMPY_PREAMBLE:
        numpy_item = True
        body = body[1:]
    guarded = False
    if (len(body) == 1 and isinstance(body[0], ast.If) and not body[0].orelse
            and _self_call(body[0].test, "visit")):
        call = body[0].test
        if not (len(call.args) == 1 and _name(call.args[0], "expr") and not call.keywords):
            raise ExtractError(f"{what}: visit is not applied to expr alone")
        guarded = True
        body = [s for s in body[0].body if not isinstance(s, ast.Pass)]
    _no_stray_calls(fn, what, 1 if guarded else 0)
    steps = _steps(body, what)
    if numpy_item and any(k == "rec" for k, _ in steps):
        raise ExtractError(f"{what}: recursion after rebinding expr")
    return dict(guarded=guarded, numpyItem=numpy_item, steps=steps)


def read_update_persistent_hash(what):
    import pymbolic.primitives as prim
    fn = prim.Expression.__dict__.get("update_persistent_hash")
    inherited = [c.__name__ for c in prim.Expression.__mro__[1:]
                 if "update_persistent_hash" in c.__dict__]
    if inherited:
        raise ExtractError(f"{what}: inherited from {inherited[0]}")
    if fn is None:
        return "absent"
    node = _fn_ast(fn, what)
    _check_sig(node, ["self", "key_hash", "key_builder"], what)
    body = [ast.unparse(s) for s in _body(node)]
    if body == ["PersistentHashWalkMapper(key_hash)(self)"]:
        return "viaWalkMapper"
    raise ExtractError(f"{what}: unreadable body `{'; '.join(body)[:90]}`")

# }}}


def table(ctx=None):
    import pymbolic.mapper as pm
    import pymbolic.mapper.persistent_hash as ph
    import pymbolic.primitives as prim
    check_repo(ctx, [pm, ph, prim])
    cls = ph.PersistentHashWalkMapper
    if cls.__bases__ != (pm.WalkMapper,):
        raise ExtractError(f"PersistentHashWalkMapper bases are {[b.__name__ for b in cls.__bases__]}, "
                           "not (WalkMapper,)")
    t = dict(base="WalkMapper", storesKeyHash=False, visit=None, postVisit=None, overrides=[])
    for name, obj in cls.__dict__.items():
        what = f"PersistentHashWalkMapper.{name}"
        if name in ("__module__", "__doc__", "__qualname__", "__firstlineno__",
                    "__static_attributes__", "__annotations__", "__dict__", "__weakref__"):
            continue
        if not inspect.isfunction(obj):
            raise ExtractError(f"{what}: not a plain function ({type(obj).__name__})")
        node = _fn_ast(obj, what)
        if name == "__init__":
            t["storesKeyHash"] = read_init(node, what)
        elif name == "visit":
            t["visit"] = read_visit(node, what)
        elif name == "post_visit":
            t["postVisit"] = read_post_visit(node, what, inherited=False)
        elif name.startswith("map_") and name != "map_foreign":
            if obj.__name__ != name:
                raise ExtractError(f"{what}: alias of {obj.__name__}")
            t["overrides"].append(dict(name=name, **read_override(node, what)))
        else:
            raise ExtractError(f"{what}: the class body defines something this reader does not know")
    if t["visit"] is None:
        # not overridden: WalkMapper.visit feeds nothing (and returns True; C04 reads it)
        raise ExtractError("PersistentHashWalkMapper.visit is not overridden: nothing names the nodes")
    if t["postVisit"] is None:
        t["postVisit"] = read_post_visit(_fn_ast(pm.WalkMapper.post_visit, "WalkMapper.post_visit"),
                                         "WalkMapper.post_visit", inherited=True)
    t["overrides"].sort(key=lambda h: h["name"])
    t["exprUpdate"] = read_update_persistent_hash("Expression.update_persistent_hash")
    return t


# {{{ Lean output

def lean_piece(p):
    if len(p) == 1:
        return f".{p[0]}"
    return f".{p[0]} {q(p[1])}"


def lean_pieces(ps):
    return "[" + ", ".join(lean_piece(p) for p in ps) + "]"


def lean_step(s):
    k, v = s
    if k == "feed":
        return f".feed ({lean_piece(v)})"
    return f".recur ⟨{q(v['field'])}, .{v['iter']}, {lb(v['fwd'])}⟩"


def render(t):
    out = ["import PV.Model.PersistentHashTable",
           "/- GENERATED by extract/persistent_hash.py from the live source of",
           "   pymbolic/mapper/persistent_hash.py (and Expression.update_persistent_hash of",
           "   pymbolic/primitives.py) — do not edit. -/",
           "namespace PV.Generated", ""]
    rows = ",\n".join(
        f"    ⟨{q(h['name'])}, {lb(h['guarded'])}, {lb(h['numpyItem'])},\n      ["
        + ", ".join(lean_step(s) for s in h["steps"]) + "]⟩" for h in t["overrides"])
    out.append("/-- what the body of `PersistentHashWalkMapper` defines -/\n"
               "def c17HashTable : C17Table where\n"
               f"  base := {q(t['base'])}\n"
               f"  storesKeyHash := {lb(t['storesKeyHash'])}\n"
               f"  visitFeeds := {lean_pieces(t['visit'][0])}\n"
               f"  visitReturns := {lb(t['visit'][1])}\n"
               f"  postVisitFeeds := {lean_pieces(t['postVisit'])}\n"
               f"  overrides := [\n{rows}\n  ]\n"
               f"  exprUpdate := .{t['exprUpdate']}\n")
    out.append("end PV.Generated\n")
    return "\n".join(out)


def extract_persistent_hash(ctx=None):
    t = table(ctx)
    write_if_changed(os.path.join(LEAN, "PV", "Generated", "PersistentHash.lean"), render(t))
    return t

# }}}


if __name__ == "__main__":
    import json
    print(json.dumps(extract_persistent_hash(), indent=1, default=str))
