"""T-gen for C20: regenerate lean/PV/Generated/Imperative.lean from the LIVE source of
pymbolic/imperative/{transform,analysis,utils,statement}.py in the tree under test.

What is read (with `inspect` + `ast`; the table language is lean/PV/Model/ImpTable.lean):

  * the BODIES of `fuse_statement_streams_with_unique_ids`, `disambiguate_identifiers`,
    `disambiguate_and_fuse` (transform.py), `get_all_used_identifiers` (analysis.py) and
    `get_dot_dependency_graph` (utils.py, all of it: the statement loop that builds the dependency
    dict, the fixed-point closure, the transitive reduction, the lines that are emitted),
    statement by statement in the small Python of `C20Stmt` / `C20Expr`, with the parameters and
    their defaults;
  * the statement classes `Statement`, `ConditionalStatement`, `Assignment`,
    `ConditionalAssignment`, `Nop` (statement.py): `cls.__mro__` and, for every class, the bodies of
    the methods its class body defines among `get_written_variables`, `get_read_variables`,
    `map_expressions`, `get_dependency_mapper` (with the keyword arguments the dependency mapper is
    built with), and which foreign class provides `copy` (`pytools.RecordWithoutPickling.copy`);
  * names: a name a function binds is a local (Python's own rule); every other name is looked up in
    the function's globals / builtins and recorded as the qualified name of the OBJECT found there
    (so `var` is recorded as `pymbolic.primitives.Variable`); function-level `from … import …`
    statements are executed and the qualified name of what they yield is recorded.

Containers are values in the table language.  The reader therefore insists that every name that is
updated in place (`append`, `extend`, `|=`, `x[k] = v`, `x.setdefault(k, set()).add(v)`,
`x[k].add(v)`, `x[k].remove(v)`) is a local that the function only ever binds to a freshly built
container and never hands on under a second name.

A shape this reader does not know is an `ExtractError` (reported by the check as a broken
obligation) — never a default.
"""
from __future__ import annotations

import ast
import builtins
import importlib
import inspect
import os
import re
import sys
import textwrap

from harness.leanio import LEAN

from .classes import ExtractError
from .prec import write_if_changed

FUNCTIONS = [
    ("pymbolic.imperative.transform", "fuse_statement_streams_with_unique_ids"),
    ("pymbolic.imperative.transform", "disambiguate_identifiers"),
    ("pymbolic.imperative.transform", "disambiguate_and_fuse"),
    ("pymbolic.imperative.analysis", "get_all_used_identifiers"),
    ("pymbolic.imperative.utils", "get_dot_dependency_graph"),
]
CLASSES = ["Statement", "ConditionalStatement", "Assignment", "ConditionalAssignment", "Nop"]
METHODS = ["get_written_variables", "get_read_variables", "map_expressions",
           "get_dependency_mapper", "copy"]
MUTATORS = ("append", "extend", "augOr", "setItem", "setdefaultAdd", "itemAdd", "itemRemove")


# {{{ names

def qual_of(obj, what):
    """qualified name of a module-level object; checked to name that very object"""
    mod = getattr(obj, "__module__", None)
    qn = getattr(obj, "__qualname__", None)
    if not isinstance(mod, str) or not isinstance(qn, str) or "<locals>" in qn:
        raise ExtractError(f"{what}: {obj!r} has no module-level qualified name")
    m = sys.modules.get(mod)
    cur = m
    for part in qn.split("."):
        cur = getattr(cur, part, None)
    if cur is not obj and mod != "_warnings":
        raise ExtractError(f"{what}: {mod}.{qn} does not name {obj!r}")
    return f"{mod}.{qn}"


class Scope:
    """the names one function binds (its locals) and the scopes around it"""

    def __init__(self, fn_globals, params, body, outer=None, cls=None):
        self.globals = fn_globals
        self.params = list(params)
        self.outer = outer
        self.cls = cls
        self.locals = list(params)
        for n in bound_names(body):
            if n not in self.locals:
                self.locals.append(n)

    def is_local(self, name):
        s = self
        while s is not None:
            if name in s.locals:
                return True
            s = s.outer
        return False

    def own(self, name):
        return name in self.locals

    def resolve_global(self, name, what):
        if name in self.globals:
            return qual_of(self.globals[name], what)
        if hasattr(builtins, name):
            return qual_of(getattr(builtins, name), what)
        raise ExtractError(f"{what}: name `{name}` is neither local nor global")

    def global_obj(self, name):
        if name in self.globals:
            return self.globals[name]
        return getattr(builtins, name, None)


def bound_names(stmts):
    """names a statement list binds in its own scope (not inside nested functions or
    comprehensions), in order of first binding"""
    out = []

    def add(n):
        if n not in out:
            out.append(n)

    def target(t):
        if isinstance(t, ast.Name):
            add(t.id)
        elif isinstance(t, (ast.Tuple, ast.List)):
            for e in t.elts:
                target(e)
        elif isinstance(t, (ast.Subscript, ast.Attribute)):
            pass
        else:
            raise ExtractError(f"unreadable assignment target `{ast.unparse(t)}`")

    def visit(ss):
        for s in ss:
            if isinstance(s, ast.Assign):
                for t in s.targets:
                    target(t)
            elif isinstance(s, (ast.AugAssign, ast.AnnAssign)):
                target(s.target)
            elif isinstance(s, (ast.For,)):
                target(s.target)
                visit(s.body)
                visit(s.orelse)
            elif isinstance(s, (ast.While, ast.If)):
                visit(s.body)
                visit(s.orelse)
            elif isinstance(s, ast.FunctionDef):
                add(s.name)
            elif isinstance(s, (ast.Import, ast.ImportFrom)):
                for a in s.names:
                    add((a.asname or a.name).split(".")[0])
            elif isinstance(s, (ast.With, ast.Try, ast.ClassDef, ast.AsyncFor, ast.AsyncWith,
                                ast.AsyncFunctionDef, ast.Global, ast.Nonlocal, ast.Match,
                                ast.Delete)):
                raise ExtractError(f"statement kind {type(s).__name__} is outside the table language")
            for e in ast.walk(s) if not isinstance(s, ast.FunctionDef) else ():
                if isinstance(e, ast.NamedExpr):
                    raise ExtractError("assignment expression (:=) is outside the table language")
    visit(stmts)
    return out

# }}}


# {{{ expressions

def lit_of(n, what):
    if isinstance(n, ast.Constant):
        v = n.value
        if v is None:
            return ("none",)
        if isinstance(v, bool):
            return ("bool", v)
        if isinstance(v, str):
            return ("str", v)
        if isinstance(v, int) and v >= 0:
            return ("nat", v)
    raise ExtractError(f"{what}: unreadable constant `{ast.unparse(n)}`")


def read_args(call, sc, what):
    args = []
    for a in call.args:
        if isinstance(a, ast.Starred):
            raise ExtractError(f"{what}: *args in `{ast.unparse(call)}`")
        args.append(tr_expr(a, sc, what))
    names, vals = [], []
    for k in call.keywords:
        if k.arg is None:
            raise ExtractError(f"{what}: **kwargs in `{ast.unparse(call)}`")
        names.append(k.arg)
        vals.append(tr_expr(k.value, sc, what))
    return args, names, vals


def one_generator(n, sc, what):
    if len(n.generators) != 1:
        raise ExtractError(f"{what}: nested comprehension `{ast.unparse(n)}`")
    g = n.generators[0]
    if g.ifs or g.is_async or not isinstance(g.target, ast.Name):
        raise ExtractError(f"{what}: unreadable comprehension `{ast.unparse(n)}`")
    x = g.target.id
    it = tr_expr(g.iter, sc, what)
    inner = Scope(sc.globals, [x], [], outer=sc, cls=sc.cls)
    return tr_expr(n.elt, inner, what), x, it


def is_builtin(n, sc, name):
    return (isinstance(n, ast.Name) and n.id == name and not sc.is_local(name)
            and sc.global_obj(name) is getattr(builtins, name))


def split_placeholders(s, marker, what):
    parts = s.split(marker)
    for p in parts:
        if ("%" in p) if marker == "%s" else ("{" in p or "}" in p):
            raise ExtractError(f"{what}: format string {s!r} has more than plain {marker} fields")
    return parts


def tr_expr(n, sc, what):
    if isinstance(n, ast.Name):
        if not isinstance(n.ctx, ast.Load):
            raise ExtractError(f"{what}: `{n.id}` is not read here")
        if sc.is_local(n.id):
            return ("var", n.id)
        return ("glob", sc.resolve_global(n.id, what))
    if isinstance(n, ast.Constant):
        return ("lit", lit_of(n, what))
    if isinstance(n, ast.Attribute):
        return ("attr", tr_expr(n.value, sc, what), n.attr)
    if isinstance(n, ast.Call):
        f = n.func
        if is_builtin(f, sc, "isinstance") and len(n.args) == 2 and not n.keywords:
            return ("isInstance", tr_expr(n.args[0], sc, what), tr_expr(n.args[1], sc, what))
        if is_builtin(f, sc, "frozenset") and not n.keywords:
            if not n.args:
                return ("frozensetOf", [])
            if len(n.args) == 1 and isinstance(n.args[0], ast.GeneratorExp):
                return ("frozensetGen",) + one_generator(n.args[0], sc, what)
            if len(n.args) == 1 and isinstance(n.args[0], ast.List):
                return ("frozensetOf", [tr_expr(e, sc, what) for e in n.args[0].elts])
            raise ExtractError(f"{what}: unreadable `{ast.unparse(n)}`")
        if is_builtin(f, sc, "set") and not n.args and not n.keywords:
            return ("emptySet",)
        if is_builtin(f, sc, "super"):
            raise ExtractError(f"{what}: `super()` outside a method call")
        if isinstance(f, ast.Attribute):
            if (isinstance(f.value, ast.Call) and is_builtin(f.value.func, sc, "super")
                    and not f.value.args and not f.value.keywords):
                if sc.cls is None:
                    raise ExtractError(f"{what}: `super()` outside a class")
                a, kn, kv = read_args(n, sc, what)
                return ("superMeth", f.attr, a, kn, kv)
            if isinstance(f.value, ast.Constant) and isinstance(f.value.value, str):
                if f.attr == "join" and len(n.args) == 1 and not n.keywords:
                    return ("joinStr", f.value.value, tr_expr(n.args[0], sc, what))
                if f.attr == "format" and not n.keywords:
                    lits = split_placeholders(f.value.value, "{}", what)
                    if len(lits) != len(n.args) + 1:
                        raise ExtractError(f"{what}: `{ast.unparse(n)}`: field count")
                    return ("fstr", lits, [tr_expr(a, sc, what) for a in n.args])
                raise ExtractError(f"{what}: unreadable string method `{ast.unparse(n)}`")
            a, kn, kv = read_args(n, sc, what)
            return ("meth", tr_expr(f.value, sc, what), f.attr, a, kn, kv)
        a, kn, kv = read_args(n, sc, what)
        return ("call", tr_expr(f, sc, what), a, kn, kv)
    if isinstance(n, ast.Subscript):
        if isinstance(n.slice, ast.Slice):
            raise ExtractError(f"{what}: slice `{ast.unparse(n)}`")
        return ("index", tr_expr(n.value, sc, what), tr_expr(n.slice, sc, what))
    if isinstance(n, ast.BinOp):
        if isinstance(n.op, ast.BitOr):
            return ("bitOr", tr_expr(n.left, sc, what), tr_expr(n.right, sc, what))
        if isinstance(n.op, ast.BitAnd):
            return ("bitAnd", tr_expr(n.left, sc, what), tr_expr(n.right, sc, what))
        if (isinstance(n.op, ast.Mod) and isinstance(n.left, ast.Constant)
                and isinstance(n.left.value, str) and not isinstance(n.right, ast.Tuple)):
            lits = split_placeholders(n.left.value, "%s", what)
            if len(lits) != 2:
                raise ExtractError(f"{what}: `{ast.unparse(n)}`: not exactly one %s")
            return ("fstr", lits, [tr_expr(n.right, sc, what)])
        raise ExtractError(f"{what}: unreadable operator in `{ast.unparse(n)}`")
    if isinstance(n, ast.Compare):
        if len(n.ops) != 1:
            raise ExtractError(f"{what}: chained comparison `{ast.unparse(n)}`")
        op, r = n.ops[0], n.comparators[0]
        if isinstance(op, (ast.Is, ast.IsNot)):
            if not (isinstance(r, ast.Constant) and r.value is None):
                raise ExtractError(f"{what}: `is` against something other than None: "
                                   f"`{ast.unparse(n)}`")
            return ("isNone" if isinstance(op, ast.Is) else "isNotNone",
                    tr_expr(n.left, sc, what))
        if isinstance(op, (ast.In, ast.NotIn)):
            return ("isIn" if isinstance(op, ast.In) else "notIn",
                    tr_expr(n.left, sc, what), tr_expr(r, sc, what))
        raise ExtractError(f"{what}: unreadable comparison `{ast.unparse(n)}`")
    if isinstance(n, ast.BoolOp):
        if not isinstance(n.op, ast.And):
            raise ExtractError(f"{what}: `or` in `{ast.unparse(n)}`")
        vals = [tr_expr(v, sc, what) for v in n.values]
        acc = vals[-1]
        for v in reversed(vals[:-1]):
            acc = ("boolAnd", v, acc)
        return acc
    if isinstance(n, ast.UnaryOp) and isinstance(n.op, ast.Not):
        return ("notOp", tr_expr(n.operand, sc, what))
    if isinstance(n, ast.IfExp):
        return ("ifExp", tr_expr(n.test, sc, what), tr_expr(n.body, sc, what),
                tr_expr(n.orelse, sc, what))
    if isinstance(n, ast.Tuple):
        return ("tuple", [tr_expr(e, sc, what) for e in n.elts])
    if isinstance(n, ast.List) and not n.elts:
        return ("emptyList",)
    if isinstance(n, ast.Dict) and not n.keys:
        return ("emptyDict",)
    if isinstance(n, ast.SetComp):
        return ("setComp",) + one_generator(n, sc, what)
    if isinstance(n, ast.ListComp):
        return ("listComp",) + one_generator(n, sc, what)
    if isinstance(n, ast.JoinedStr):
        lits, vals, cur = [], [], ""
        for v in n.values:
            if isinstance(v, ast.Constant) and isinstance(v.value, str):
                cur += v.value
            elif (isinstance(v, ast.FormattedValue) and v.conversion == -1
                  and v.format_spec is None):
                lits.append(cur)
                cur = ""
                vals.append(tr_expr(v.value, sc, what))
            else:
                raise ExtractError(f"{what}: unreadable f-string part in `{ast.unparse(n)}`")
        lits.append(cur)
        return ("fstr", lits, vals)
    raise ExtractError(f"{what}: unreadable expression `{ast.unparse(n)}` ({type(n).__name__})")

# }}}


# {{{ statements

def _local_name(n, sc):
    return n.id if isinstance(n, ast.Name) and sc.own(n.id) else None


def tr_call_stmt(call, sc, what):
    """the in-place updates of a local container; None when the call is none of them"""
    f = call.func
    if not isinstance(f, ast.Attribute) or call.keywords:
        return None
    x = _local_name(f.value, sc)
    if x is not None and f.attr in ("append", "extend") and len(call.args) == 1:
        return (f.attr, x, tr_expr(call.args[0], sc, what))
    if f.attr in ("add", "remove") and len(call.args) == 1:
        v = f.value
        if isinstance(v, ast.Subscript) and _local_name(v.value, sc) is not None:
            return ("itemAdd" if f.attr == "add" else "itemRemove", v.value.id,
                    tr_expr(v.slice, sc, what), tr_expr(call.args[0], sc, what))
        if (f.attr == "add" and isinstance(v, ast.Call) and isinstance(v.func, ast.Attribute)
                and v.func.attr == "setdefault" and _local_name(v.func.value, sc) is not None
                and len(v.args) == 2 and not v.keywords
                and isinstance(v.args[1], ast.Call) and is_builtin(v.args[1].func, sc, "set")
                and not v.args[1].args and not v.args[1].keywords):
            return ("setdefaultAdd", v.func.value.id, tr_expr(v.args[0], sc, what),
                    tr_expr(call.args[0], sc, what))
    if x is not None and f.attr in ("add", "remove", "discard", "update", "pop", "clear",
                                    "insert", "setdefault", "sort", "reverse", "popitem"):
        raise ExtractError(f"{what}: in-place update `{ast.unparse(call)}` has no table form")
    return None


def resolve_import(node, alias, fn_module, what):
    pkg = fn_module.rpartition(".")[0]
    try:
        mod = importlib.import_module("." * node.level + (node.module or ""),
                                      package=pkg if node.level else None)
        obj = getattr(mod, alias.name)
    except (ImportError, AttributeError) as e:
        raise ExtractError(f"{what}: `{ast.unparse(node)}` does not resolve ({e})")
    return qual_of(obj, what)


def tr_body(stmts, sc, what, fn_module, skip_doc=True):
    out = []
    stmts = list(stmts)
    if (skip_doc and stmts and isinstance(stmts[0], ast.Expr)
            and isinstance(stmts[0].value, ast.Constant) and isinstance(stmts[0].value.value, str)):
        stmts = stmts[1:]
    for s in stmts:
        out.extend(tr_stmt(s, sc, what, fn_module))
    return out


def tr_stmt(s, sc, what, fn_module):
    w = f"{what}, line {getattr(s, 'lineno', '?')}"
    if isinstance(s, ast.Assign):
        if len(s.targets) != 1:
            raise ExtractError(f"{w}: chained assignment `{ast.unparse(s)}`")
        t = s.targets[0]
        if isinstance(t, ast.Name):
            return [("assign", t.id, tr_expr(s.value, sc, w))]
        if isinstance(t, ast.Tuple) and all(isinstance(e, ast.Name) for e in t.elts):
            return [("assignTuple", [e.id for e in t.elts], tr_expr(s.value, sc, w))]
        if isinstance(t, ast.Subscript) and _local_name(t.value, sc) is not None \
                and not isinstance(t.slice, ast.Slice):
            return [("setItem", t.value.id, tr_expr(t.slice, sc, w), tr_expr(s.value, sc, w))]
        raise ExtractError(f"{w}: unreadable assignment `{ast.unparse(s)}`")
    if isinstance(s, ast.AugAssign):
        if isinstance(s.op, ast.BitOr) and _local_name(s.target, sc) is not None:
            return [("augOr", s.target.id, tr_expr(s.value, sc, w))]
        raise ExtractError(f"{w}: unreadable augmented assignment `{ast.unparse(s)}`")
    if isinstance(s, ast.Expr):
        if isinstance(s.value, ast.Call):
            upd = tr_call_stmt(s.value, sc, w)
            if upd is not None:
                return [upd]
        return [("exprStmt", tr_expr(s.value, sc, w))]
    if isinstance(s, ast.If):
        return [("ifThen", tr_expr(s.test, sc, w), tr_body(s.body, sc, what, fn_module, False),
                 tr_body(s.orelse, sc, what, fn_module, False))]
    if isinstance(s, ast.For):
        if s.orelse:
            raise ExtractError(f"{w}: for … else")
        if isinstance(s.target, ast.Name):
            return [("forIn", s.target.id, tr_expr(s.iter, sc, w),
                     tr_body(s.body, sc, what, fn_module, False))]
        it = s.iter
        if (isinstance(s.target, ast.Tuple) and isinstance(it, ast.Call)
                and isinstance(it.func, ast.Attribute) and it.func.attr == "items"
                and not it.args and not it.keywords and _local_name(it.func.value, sc) is not None):
            return [("forItems", it.func.value.id, ast.unparse(s))]
        raise ExtractError(f"{w}: unreadable loop header `for {ast.unparse(s.target)} in "
                           f"{ast.unparse(s.iter)}`")
    if isinstance(s, ast.While):
        if s.orelse or not (isinstance(s.test, ast.Constant) and s.test.value is True):
            raise ExtractError(f"{w}: only `while True:` has a table form")
        return [("whileTrue", tr_body(s.body, sc, what, fn_module, False))]
    if isinstance(s, ast.Break):
        return [("break_",)]
    if isinstance(s, ast.Pass):
        return []
    if isinstance(s, ast.Return):
        if s.value is None:
            return [("ret", ("lit", ("none",)))]
        return [("ret", tr_expr(s.value, sc, w))]
    if isinstance(s, ast.Raise):
        e = s.exc
        if isinstance(e, ast.Call):
            e = e.func
        if s.cause is None and isinstance(e, ast.Name) and not sc.is_local(e.id):
            obj = sc.global_obj(e.id)
            if isinstance(obj, type) and issubclass(obj, BaseException) \
                    and obj is getattr(builtins, e.id, None):
                return [("raise_", e.id)]
        raise ExtractError(f"{w}: unreadable `{ast.unparse(s)}`")
    if isinstance(s, ast.Assert):
        if s.msg is not None and not isinstance(s.msg, ast.Constant):
            raise ExtractError(f"{w}: assert with a computed message")
        return [("assert_", tr_expr(s.test, sc, w))]
    if isinstance(s, ast.FunctionDef):
        a = s.args
        if (a.vararg or a.kwarg or a.kwonlyargs or a.posonlyargs or a.defaults or a.kw_defaults
                or s.decorator_list):
            raise ExtractError(f"{w}: nested function `{s.name}` with a non-plain signature")
        params = [x.arg for x in a.args]
        inner = Scope(sc.globals, params, s.body, outer=sc, cls=sc.cls)
        for st in ast.walk(s):
            if isinstance(st, (ast.Yield, ast.YieldFrom, ast.Await)):
                raise ExtractError(f"{w}: nested generator function `{s.name}`")
        return [("defLocal", s.name, params, tr_body(s.body, inner, what + "." + s.name, fn_module))]
    if isinstance(s, ast.ImportFrom):
        return [("importFrom", a.asname or a.name, resolve_import(s, a, fn_module, w))
                for a in s.names]
    raise ExtractError(f"{w}: statement `{ast.unparse(s).splitlines()[0]}` "
                       f"({type(s).__name__}) is outside the table language")

# }}}


# {{{ ownership of containers that are updated in place

FRESH = ("emptyList", "emptyDict", "emptySet", "listComp", "setComp")


def is_fresh(e):
    if e[0] in FRESH:
        return True
    return e[0] == "call" and e[1] == ("glob", "builtins.list")


def walk_stmts(stmts):
    for s in stmts:
        yield s
        if s[0] == "ifThen":
            yield from walk_stmts(s[2])
            yield from walk_stmts(s[3])
        elif s[0] == "forIn":
            yield from walk_stmts(s[3])
        elif s[0] == "whileTrue":
            yield from walk_stmts(s[1])


def sub_exprs(e):
    """all sub-expressions of a translated expression"""
    yield e
    for c in e[1:]:
        if isinstance(c, tuple) and c and isinstance(c[0], str) and c[0] in EXPR_TAGS:
            yield from sub_exprs(c)
        elif isinstance(c, list):
            for d in c:
                if isinstance(d, tuple) and d and isinstance(d[0], str) and d[0] in EXPR_TAGS:
                    yield from sub_exprs(d)


EXPR_TAGS = {"var", "glob", "lit", "attr", "call", "meth", "superMeth", "index", "bitOr", "bitAnd",
             "isNone", "isNotNone", "isInstance", "isIn", "notIn", "boolAnd", "notOp", "ifExp",
             "tuple", "emptyList", "emptyDict", "emptySet", "frozensetOf", "setComp", "listComp",
             "frozensetGen", "fstr", "joinStr"}


def stmt_exprs(s):
    for c in s[1:]:
        if isinstance(c, tuple) and c and c[0] in EXPR_TAGS:
            yield c


def settled(body, s, x):
    """`s` is a top-level statement of `body` and no statement from `s` on updates `x` in place
    (so a callee that keeps the container sees what a snapshot shows)"""
    for i, t in enumerate(body):
        if t is s:
            return not any(u[0] in MUTATORS and u[1] == x for u in walk_stmts(body[i:]))
    return False


def check_ownership(body, params, what):
    """every name updated in place is a non-parameter local that is only ever bound by
    `X = <fresh container>` and is never handed on under a second name"""
    all_stmts = list(walk_stmts(body))
    mutated = {s[1] for s in all_stmts if s[0] in MUTATORS}
    for x in sorted(mutated):
        if x in params:
            raise ExtractError(f"{what}: parameter `{x}` is updated in place")
        for s in all_stmts:
            if s[0] == "assign" and s[1] == x and not is_fresh(s[2]):
                raise ExtractError(f"{what}: `{x}` is updated in place but bound to something "
                                   f"that is not a freshly built container")
            if (s[0] == "assignTuple" and x in s[1]) or (s[0] == "forIn" and s[1] == x) \
                    or (s[0] in ("defLocal", "importFrom") and s[1] == x):
                raise ExtractError(f"{what}: `{x}` is updated in place and also bound by "
                                   f"a {s[0]} statement")
            # handing the container on: `y = x`, `f(x)`, `[…, x, …]`
            for top in stmt_exprs(s):
                if s[0] in ("assign", "setItem", "append") and top == ("var", x):
                    raise ExtractError(f"{what}: container `{x}` gets a second name")
                for e in sub_exprs(top):
                    if e[0] in ("call", "meth", "superMeth"):
                        args = e[2] if e[0] != "meth" else e[3]
                        kwv = e[4] if e[0] != "meth" else e[5]
                        if e[0] == "superMeth":
                            args, kwv = e[2], e[4]
                        if ("var", x) in list(args) + list(kwv) and not settled(body, s, x):
                            raise ExtractError(f"{what}: container `{x}` is passed to a call "
                                               f"and updated afterwards")
            if s[0] == "defLocal":
                inner = list(walk_stmts(s[3]))
                if any(t[0] in MUTATORS and t[1] == x for t in inner):
                    raise ExtractError(f"{what}: `{x}` is updated inside a nested function")
    for s in all_stmts:
        if s[0] == "defLocal":
            check_ownership(s[3], s[2], what + "." + s[1])

# }}}


# {{{ functions, methods, classes

def fn_ast(fn, what):
    try:
        src = textwrap.dedent(inspect.getsource(fn))
    except (OSError, TypeError) as e:
        raise ExtractError(f"{what}: no source ({e})")
    mod = ast.parse(src)
    if len(mod.body) != 1 or not isinstance(mod.body[0], ast.FunctionDef):
        raise ExtractError(f"{what}: source is not a single function definition")
    node = mod.body[0]
    if node.decorator_list:
        raise ExtractError(f"{what}: decorated")
    for st in ast.walk(node):
        if isinstance(st, (ast.Yield, ast.YieldFrom, ast.Await)):
            raise ExtractError(f"{what}: generator function")
    return node


def read_params(node, fn, what):
    a = node.args
    if a.vararg or a.kwarg or a.kwonlyargs or a.posonlyargs or a.kw_defaults:
        raise ExtractError(f"{what}: signature `({ast.unparse(a)})` is not plain")
    names = [x.arg for x in a.args]
    n_no_default = len(names) - len(a.defaults)
    live_defaults = fn.__defaults__ or ()
    if len(live_defaults) != len(a.defaults):
        raise ExtractError(f"{what}: defaults of the live function differ from its source")
    params = []
    for i, name in enumerate(names):
        if i < n_no_default:
            params.append((name, None))
            continue
        d = a.defaults[i - n_no_default]
        live = live_defaults[i - n_no_default]
        if isinstance(d, ast.Constant):
            lit = lit_of(d, what)
            if lit[0] != "none" and lit[1] != live or lit[0] == "none" and live is not None:
                raise ExtractError(f"{what}: default of `{name}` is not what the source says")
            params.append((name, lit))
        elif isinstance(d, ast.Name):
            params.append((name, ("ref", qual_of(live, f"{what}: default of `{name}`"))))
        else:
            raise ExtractError(f"{what}: unreadable default `{ast.unparse(d)}`")
    return params


def read_function(fn, qual, cls=None):
    node = fn_ast(fn, qual)
    params = read_params(node, fn, qual)
    sc = Scope(fn.__globals__, [p[0] for p in params], node.body, cls=cls)
    body = tr_body(node.body, sc, qual, fn.__module__)
    check_ownership(body, [p[0] for p in params], qual)
    return {"name": qual, "params": params, "body": body}


def check_repo(ctx, modules):
    if not ctx or not ctx.get("repo"):
        return
    root = os.path.realpath(ctx["repo"]) + os.sep
    for m in modules:
        f = os.path.realpath(m.__file__)
        if not f.startswith(root):
            raise ExtractError(f"{m.__name__} was imported from {f}, not from the repository "
                               f"under check ({root}); set PYTHONPATH to the working tree")


def cls_qual(c):
    return f"{c.__module__}.{c.__qualname__}"


def imperative_table(ctx=None):
    import pymbolic.imperative.analysis as an
    import pymbolic.imperative.statement as st
    import pymbolic.imperative.transform as tr
    import pymbolic.imperative.utils as ut
    check_repo(ctx, [an, st, tr, ut])
    funcs = []
    for mod, name in FUNCTIONS:
        m = sys.modules[mod]
        fn = getattr(m, name, None)
        if not inspect.isfunction(fn) or fn.__module__ != mod:
            raise ExtractError(f"{mod}.{name} is not a function defined in {mod}")
        funcs.append(read_function(fn, f"{mod}.{name}"))

    classes = []
    foreign = {}
    for cname in CLASSES:
        c = getattr(st, cname, None)
        if not isinstance(c, type) or c.__module__ != st.__name__:
            raise ExtractError(f"{st.__name__}.{cname} is not a class defined there")
        mro = [k for k in c.__mro__ if k is not object]
        methods = []
        for m in METHODS:
            if m in c.__dict__:
                f = c.__dict__[m]
                if not inspect.isfunction(f):
                    raise ExtractError(f"{cname}.{m} is not a plain function")
                r = read_function(f, f"{cls_qual(c)}.{m}", cls=cls_qual(c))
                if not r["params"] or r["params"][0] != ("self", None):
                    raise ExtractError(f"{cname}.{m}: first parameter is not `self`")
                methods.append((m, ("code", r["params"][1:], r["body"])))
        classes.append({"name": cls_qual(c), "mro": [cls_qual(k) for k in mro],
                        "methods": methods})
        # where the methods come from that no class under this property defines
        for m in METHODS:
            owner = next((k for k in mro if m in k.__dict__), None)
            if owner is None:
                raise ExtractError(f"{cname} has no attribute {m}")
            if owner.__module__ != st.__name__:
                foreign.setdefault(cls_qual(owner), {})[m] = qual_of(owner.__dict__[m],
                                                                     f"{cname}.{m}")
    for owner, ms in sorted(foreign.items()):
        k = next(k for c in CLASSES for k in getattr(st, c).__mro__ if cls_qual(k) == owner)
        classes.append({"name": owner, "mro": [cls_qual(x) for x in k.__mro__ if x is not object],
                        "methods": [(m, ("prim", q)) for m, q in sorted(ms.items())]})
    return {"funcs": funcs, "classes": classes,
            "assignCls": cls_qual(st.Assignment),
            "condAssignCls": cls_qual(st.ConditionalAssignment),
            "nopCls": cls_qual(st.Nop)}

# }}}


# {{{ Lean text

def q(s):
    out = ['"']
    for ch in s:
        if ch == "\\":
            out.append("\\\\")
        elif ch == '"':
            out.append('\\"')
        elif ch == "\n":
            out.append("\\n")
        elif ch == "\t":
            out.append("\\t")
        elif 32 <= ord(ch) < 127:
            out.append(ch)
        else:
            out.append("\\u{%x}" % ord(ch))
    out.append('"')
    return "".join(out)


def l_strs(xs):
    return "[" + ", ".join(q(x) for x in xs) + "]"


def l_lit(l):
    if l[0] == "none":
        return ".none"
    if l[0] == "bool":
        return f"(.bool {'true' if l[1] else 'false'})"
    if l[0] == "str":
        return f"(.str {q(l[1])})"
    if l[0] == "nat":
        return f"(.nat {l[1]})"
    if l[0] == "ref":
        return f"(.ref {q(l[1])})"
    raise ExtractError(f"literal {l!r}")


def l_exprs(es):
    return "[" + ", ".join(l_expr(e) for e in es) + "]"


def l_expr(e):
    k = e[0]
    if k in ("var", "glob"):
        return f"(.{k} {q(e[1])})"
    if k == "lit":
        return f"(.lit {l_lit(e[1])})"
    if k == "attr":
        return f"(.attr {l_expr(e[1])} {q(e[2])})"
    if k == "call":
        return f"(.call {l_expr(e[1])} {l_exprs(e[2])} {l_strs(e[3])} {l_exprs(e[4])})"
    if k == "meth":
        return (f"(.meth {l_expr(e[1])} {q(e[2])} {l_exprs(e[3])} {l_strs(e[4])} "
                f"{l_exprs(e[5])})")
    if k == "superMeth":
        return f"(.superMeth {q(e[1])} {l_exprs(e[2])} {l_strs(e[3])} {l_exprs(e[4])})"
    if k in ("index", "bitOr", "bitAnd", "isInstance", "isIn", "notIn", "boolAnd"):
        return f"(.{k} {l_expr(e[1])} {l_expr(e[2])})"
    if k in ("isNone", "isNotNone", "notOp"):
        return f"(.{k} {l_expr(e[1])})"
    if k == "ifExp":
        return f"(.ifExp {l_expr(e[1])} {l_expr(e[2])} {l_expr(e[3])})"
    if k in ("tuple", "frozensetOf"):
        return f"(.{k} {l_exprs(e[1])})"
    if k in ("emptyList", "emptyDict", "emptySet"):
        return f".{k}"
    if k in ("setComp", "listComp", "frozensetGen"):
        return f"(.{k} {l_expr(e[1])} {q(e[2])} {l_expr(e[3])})"
    if k == "fstr":
        return f"(.fstr {l_strs(e[1])} {l_exprs(e[2])})"
    if k == "joinStr":
        return f"(.joinStr {q(e[1])} {l_expr(e[2])})"
    raise ExtractError(f"expression tag {k!r}")


def l_stmts(ss, ind):
    if not ss:
        return "[]"
    pad = " " * ind
    return "[\n" + ",\n".join(pad + "  " + l_stmt(s, ind + 2) for s in ss) + "]"


def l_stmt(s, ind):
    k = s[0]
    if k in ("assign", "augOr", "append", "extend"):
        return f".{k} {q(s[1])} {l_expr(s[2])}"
    if k == "assignTuple":
        return f".assignTuple {l_strs(s[1])} {l_expr(s[2])}"
    if k in ("setItem", "setdefaultAdd", "itemAdd", "itemRemove"):
        return f".{k} {q(s[1])} {l_expr(s[2])} {l_expr(s[3])}"
    if k in ("exprStmt", "ret", "assert_"):
        return f".{k} {l_expr(s[1])}"
    if k == "ifThen":
        return f".ifThen {l_expr(s[1])} {l_stmts(s[2], ind)} {l_stmts(s[3], ind)}"
    if k == "forIn":
        return f".forIn {q(s[1])} {l_expr(s[2])} {l_stmts(s[3], ind)}"
    if k == "forItems":
        return f".forItems {q(s[1])} {q(s[2])}"
    if k == "whileTrue":
        return f".whileTrue {l_stmts(s[1], ind)}"
    if k == "break_":
        return ".break_"
    if k == "raise_":
        return f".raise_ {q(s[1])}"
    if k == "defLocal":
        return f".defLocal {q(s[1])} {l_strs(s[2])} {l_stmts(s[3], ind)}"
    if k == "importFrom":
        return f".importFrom {q(s[1])} {q(s[2])}"
    raise ExtractError(f"statement tag {k!r}")


def l_params(ps):
    return "[" + ", ".join(
        "⟨%s, %s⟩" % (q(n), "none" if d is None else f"some {l_lit(d)}") for n, d in ps) + "]"


DEF_RE = re.compile(r"[^A-Za-z0-9]+")


def def_name(qual):
    parts = qual.split(".")
    return "c20Fn_" + DEF_RE.sub("_", parts[-1])


def to_lean(t):
    out = ["import PV.Model.ImpTable",
           "/- GENERATED by extract/imperative.py from the live source of pymbolic/imperative in "
           "/repo — do not edit. -/",
           "namespace PV.Generated",
           "open PV.Imp", ""]
    fn_defs = []
    for f in t["funcs"]:
        d = def_name(f["name"])
        fn_defs.append(d)
        out.append(f"def {d} : C20Func :=\n  {{ name := {q(f['name'])},\n"
                   f"    params := {l_params(f['params'])},\n"
                   f"    body := {l_stmts(f['body'], 4)} }}\n")
    cl_defs = []
    for c in t["classes"]:
        d = "c20Cls_" + DEF_RE.sub("_", c["name"].split(".")[-1])
        cl_defs.append(d)
        ms = []
        for m, b in c["methods"]:
            if b[0] == "prim":
                ms.append(f"      ({q(m)}, .prim {q(b[1])})")
            else:
                ms.append(f"      ({q(m)}, .code {l_params(b[1])} {l_stmts(b[2], 8)})")
        out.append(f"def {d} : C20Class :=\n  {{ name := {q(c['name'])},\n"
                   f"    mro := {l_strs(c['mro'])},\n"
                   "    methods := [" + (("\n" + ",\n".join(ms)) if ms else "") + "] }\n")
    out.append("def c20Table : C20Table :=\n"
               f"  {{ funcs := [{', '.join(fn_defs)}],\n"
               f"    classes := [{', '.join(cl_defs)}],\n"
               f"    assignCls := {q(t['assignCls'])},\n"
               f"    condAssignCls := {q(t['condAssignCls'])},\n"
               f"    nopCls := {q(t['nopCls'])} }}\n")
    out.append("end PV.Generated\n")
    return "\n".join(out)


def extract_imperative(ctx=None):
    t = imperative_table(ctx)
    write_if_changed(os.path.join(LEAN, "PV", "Generated", "Imperative.lean"), to_lean(t))
    return t

# }}}


if __name__ == "__main__":
    t = extract_imperative({"repo": os.environ.get("REPO", "/repo")})
    print(to_lean(t))
