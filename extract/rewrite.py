"""T-gen for C11: regenerate lean/PV/Generated/Rewrite.lean from the LIVE source text of the
rewriting mappers in the working tree of the repository (`ctx["repo"]`).

What is read (with `inspect` + `ast`, never executed):

* the five mapper classes `FlattenMapper`, `ConstantFoldingMapper`,
  `CommutativeConstantFoldingMapper`, `TermCollector`, `DistributeMapper`: their MRO and, for EVERY
  function-valued attribute Python's attribute look-up finds on the class, whether it is the very
  function object `IdentityMapper` has under that name (then nothing is recorded: the handler is the
  C04 row), the function object `IdentityMapper.<row>` bound under another name
  (`map_common_subexpression_uncached = IdentityMapper.map_common_subexpression`), the caching
  protocol `CSECachingMapperMixin.map_common_subexpression` (C05), or a function of the modules under
  this property — whose body is then translated STATEMENT BY STATEMENT into the table language of
  lean/PV/Model/RewriteTable.lean (`C11Tm` / `C11Stmt` / `C11Fn`): assignments, `if`, `while`,
  `for` / `break`, `return`, `raise`, `assert`, `d[k] = v`, `d[k] += v`, `xs.append(v)`, `q.pop(0)`,
  `try: return … except E: …`, nested `def`s, comprehensions, calls, attribute access, operators,
  comparisons, displays, subscripts;
* every global name is resolved to the OBJECT it is bound to where it is used (function-local
  imports first, then the module globals, then builtins) and written as the `C11Glob` of that object
  (so `pymbolic.flattened_product`, `flattened_product` after a local import and an alias all come
  out the same, and a shadowed or re-bound name comes out different or fails);
* the module-level entry points `flatten` and `distribute` with the defaults of their parameters,
  and which function `pymbolic.flatten` / `pymbolic.expand` / `pymbolic.distribute` are.

Anything this reader does not recognise — a statement form, an expression form, a name bound to an
object it has no `C11Glob` for, a nested function that closes over a local of its parent, in-place
mutation of a variable that may alias another — is an ExtractError (reported by the check as a broken
obligation).  Nothing is guessed, nothing defaults.

Two normalisations are made, both order-preserving: `X = f(Q.pop(0))` becomes
`T = Q.pop(0); X = f(T)` with a fresh local `T` (named "Q.pop(0)"), and `is_zero(E - 1)` becomes the
single term `isOneSub E` (the "is one" test of pymbolic.primitives, see C03).
"""
from __future__ import annotations

import ast
import builtins
import functools
import importlib
import inspect
import linecache
import operator
import os
import textwrap

from harness.leanio import LEAN

from .prec import write_if_changed


class ExtractError(Exception):
    pass


MODULES = ("pymbolic.mapper.flattener", "pymbolic.mapper.constant_folder",
           "pymbolic.mapper.collector", "pymbolic.mapper.distributor")


def short(node):
    try:
        return ast.unparse(node)[:90]
    except Exception:
        return ast.dump(node)[:90]


def function_ast(fn):
    fn = inspect.unwrap(fn)
    if not inspect.isfunction(fn):
        raise ExtractError(f"{fn!r} is not a plain Python function")
    linecache.checkcache()
    try:
        src = textwrap.dedent(inspect.getsource(fn))
    except (OSError, TypeError) as e:
        raise ExtractError(f"no source for {fn.__qualname__}: {e}") from None
    mod = ast.parse(src)
    if len(mod.body) != 1 or not isinstance(mod.body[0], ast.FunctionDef):
        raise ExtractError(f"source of {fn.__qualname__} is not one function definition")
    if mod.body[0].decorator_list:
        raise ExtractError(f"{fn.__qualname__} is decorated")
    return mod.body[0], fn


class Unbound:
    pass


def glob_table():
    """Python object -> C11Glob constructor"""
    import pymbolic
    import pymbolic.mapper as pm
    import pymbolic.primitives as prim
    from pymbolic.mapper.collector import TermCollector
    from pymbolic.mapper.constant_folder import (
        CommutativeConstantFoldingMapper,
        ConstantFoldingMapper,
    )
    from pymbolic.mapper.dependency import DependencyMapper
    from pymbolic.mapper.distributor import DistributeMapper
    from pymbolic.mapper.flattener import FlattenMapper
    pairs = [
        (prim.flattened_sum, "flattenedSum"), (prim.flattened_product, "flattenedProduct"),
        (prim.is_zero, "isZero"),
        (prim.Sum, "clsSum"), (prim.Product, "clsProduct"), (prim.Power, "clsPower"),
        (prim.AlgebraicLeaf, "clsAlgebraicLeaf"), (int, "clsInt"),
        (DependencyMapper, "depMapper"), (pymbolic.evaluate, "evaluate"),
        (operator.add, "opAdd"), (operator.mul, "opMul"), (functools.reduce, "reduce"),
        (pm.IdentityMapper, "identityMapper"), (FlattenMapper, "flattenMapper"),
        (ConstantFoldingMapper, "plainFolder"), (CommutativeConstantFoldingMapper, "commFolder"),
        (TermCollector, "termCollector"), (DistributeMapper, "distributeMapper"),
        (list, "pyList"), (tuple, "pyTuple"), (len, "pyLen"), (bool, "pyBool"),
        (isinstance, "pyIsinstance"), (frozenset, "pyFrozenset"), (set, "pySet"), (type, "pyType"),
        (ValueError, "valueError"), (RuntimeError, "runtimeError"),
    ]
    import pymbolic.mapper.evaluator as ev
    if pymbolic.evaluate is not ev.evaluate:
        raise ExtractError("pymbolic.evaluate is not pymbolic.mapper.evaluator.evaluate")
    return pairs


def glob_of(obj, pairs):
    for o, name in pairs:
        if o is obj:
            return name
    return None


BINOPS = {ast.Add: "add", ast.Sub: "sub", ast.Mult: "mul", ast.Pow: "pow"}
CMPOPS = {ast.Eq: "eq", ast.NotEq: "ne", ast.Lt: "lt", ast.LtE: "le", ast.Gt: "gt", ast.GtE: "ge",
          ast.In: "isIn", ast.NotIn: "notIn", ast.Is: "is", ast.IsNot: "isNot"}


def assigned_names(stmts):
    """names bound by assignment / for / def in a statement list (not descending into nested
    functions, not counting comprehension targets), in order of first occurrence"""
    out = []

    def add(n):
        if n not in out:
            out.append(n)

    def target(t):
        if isinstance(t, ast.Name):
            add(t.id)
        elif isinstance(t, (ast.Tuple, ast.List)):
            for e in t.elts:
                target(e)
        # subscripts / attributes bind no local

    def walk(ss):
        for s in ss:
            if isinstance(s, ast.Assign):
                pop = pop_front_of(s.value)
                if pop is not None:
                    add(pop[0] + ".pop(0)")
                for t in s.targets:
                    target(t)
            elif isinstance(s, ast.AugAssign):
                target(s.target)
            elif isinstance(s, ast.AnnAssign):
                target(s.target)
            elif isinstance(s, ast.For):
                target(s.target)
                walk(s.body)
                walk(s.orelse)
            elif isinstance(s, ast.While):
                walk(s.body)
                walk(s.orelse)
            elif isinstance(s, ast.If):
                walk(s.body)
                walk(s.orelse)
            elif isinstance(s, ast.Try):
                walk(s.body)
                for h in s.handlers:
                    if h.name:
                        add(h.name)
                    walk(h.body)
                walk(s.orelse)
                walk(s.finalbody)
            elif isinstance(s, ast.With):
                for it in s.items:
                    if it.optional_vars is not None:
                        target(it.optional_vars)
                walk(s.body)
            elif isinstance(s, ast.FunctionDef):
                add(s.name)
            elif isinstance(s, ast.ClassDef):
                add(s.name)
    walk(stmts)
    return out


def imported_names(stmts):
    """names bound by import statements anywhere in a function body (not nested functions)"""
    out = set()
    for s in stmts:
        for n in ast.walk(s) if not isinstance(s, ast.FunctionDef) else []:
            if isinstance(n, ast.FunctionDef):
                continue
            if isinstance(n, (ast.Import, ast.ImportFrom)):
                for al in n.names:
                    out.add(al.asname or al.name.split(".")[0])
    return out


def is_pop0(n):
    """`Q.pop(0)` -> Q"""
    if (isinstance(n, ast.Call) and isinstance(n.func, ast.Attribute) and n.func.attr == "pop"
            and isinstance(n.func.value, ast.Name) and len(n.args) == 1 and not n.keywords
            and isinstance(n.args[0], ast.Constant) and n.args[0].value == 0
            and type(n.args[0].value) is int):
        return n.func.value.id
    return None


def pop_front_of(value):
    """value is `Q.pop(0)` or `f(Q.pop(0))` with `Q.pop(0)` the only argument -> (Q, wrapped?)"""
    q = is_pop0(value)
    if q is not None:
        return (q, False)
    if (isinstance(value, ast.Call) and len(value.args) == 1 and not value.keywords):
        q = is_pop0(value.args[0])
        if q is not None:
            return (q, True)
    return None


class FnReader:
    """Translates ONE function (method, module-level function or nested def) into the table
    language."""

    def __init__(self, tree, fn, pairs, inst_attrs, cls_attr, self_name, parent=None):
        self.tree = tree
        self.fn = fn
        self.pairs = pairs
        self.inst_attrs = inst_attrs      # instance attributes set by __init__ of the class
        self.cls_attr = cls_attr          # name -> is an attribute of the (concrete) class
        self.parent = parent
        a = tree.args
        if a.posonlyargs or a.kwonlyargs or a.vararg or a.kwarg:
            self.fail("signature with *args / **kwargs / keyword-only parameters")
        names = [x.arg for x in a.args]
        if parent is None and self_name is not None:
            if not names or names[0] != self_name:
                self.fail(f"first parameter is not {self_name!r}")
            names = names[1:]
        self.self_name = self_name
        self.params = names
        nd = len(a.defaults)
        self.default_nodes = list(zip(names[len(names) - nd:], a.defaults)) if nd else []
        self.body_stmts = list(tree.body)
        self.locals = [n for n in assigned_names(self.body_stmts) if n not in self.params]
        self.imports: dict[str, object] = {}
        clash = imported_names(self.body_stmts) & (set(self.locals) | set(self.params))
        if clash:
            self.fail(f"names both imported and assigned: {sorted(clash)}")
        self.defs = []
        self.mutated = set()
        self.assigned_from = {}

    def where(self):
        return self.fn.__qualname__ + (f".<locals>.{self.tree.name}" if self.parent else "")

    def fail(self, what, node=None):
        at = f" at `{short(node)}`" if node is not None else ""
        raise ExtractError(f"{self.where()}: {what}{at}")

    # -- names ---------------------------------------------------------------------------------
    def is_local(self, name, scope):
        return name in scope or name in self.params or name in self.locals

    def lookup(self, name):
        """the Python object a non-local name is bound to"""
        if name in self.imports:
            return self.imports[name]
        if self.parent is not None and name in self.parent.imports:
            return self.parent.imports[name]
        g = self.fn.__globals__
        if name in g:
            return g[name]
        if hasattr(builtins, name):
            return getattr(builtins, name)
        self.fail(f"unbound name {name!r}")

    def obj_of(self, node, scope):
        """Python object denoted by a Name / dotted name through modules and classes, or Unbound"""
        if isinstance(node, ast.Name):
            if self.is_local(node.id, scope) or node.id == self.self_name:
                return Unbound
            if self.parent is not None and (node.id in self.parent.params
                                            or node.id in self.parent.locals):
                return Unbound
            return self.lookup(node.id)
        if isinstance(node, ast.Attribute):
            base = self.obj_of(node.value, scope)
            if base is Unbound or not inspect.ismodule(base):
                return Unbound
            if not hasattr(base, node.attr):
                self.fail(f"module {base.__name__} has no attribute {node.attr}", node)
            return getattr(base, node.attr)
        return Unbound

    def do_import(self, st):
        if isinstance(st, ast.Import):
            for al in st.names:
                mod = importlib.import_module(al.name)
                if al.asname:
                    self.imports[al.asname] = mod
                else:
                    top = al.name.split(".")[0]
                    self.imports[top] = importlib.import_module(top)
        else:
            if st.level:
                self.fail("relative import inside a function", st)
            mod = importlib.import_module(st.module)
            for al in st.names:
                if not hasattr(mod, al.name):
                    self.fail(f"cannot import {al.name} from {st.module}", st)
                self.imports[al.asname or al.name] = getattr(mod, al.name)

    def is_self(self, n):
        return isinstance(n, ast.Name) and n.id == self.self_name and self.self_name is not None

    # -- terms ---------------------------------------------------------------------------------
    def args(self, nodes, scope):
        out = []
        for a in nodes:
            if isinstance(a, ast.Starred):
                out.append(("star", self.tm(a.value, scope)))
            else:
                out.append(self.tm(a, scope))
        return out

    def plain_args(self, n, scope):
        if n.keywords:
            self.fail("keyword arguments", n)
        if any(isinstance(a, ast.Starred) for a in n.args):
            self.fail("starred argument", n)
        return [self.tm(a, scope) for a in n.args]

    def tm(self, n, scope):
        if isinstance(n, ast.Name):
            if self.is_self(n):
                self.fail("`self` used as a value", n)
            if self.is_local(n.id, scope):
                return ("var", n.id)
            if self.parent is not None and (n.id in self.parent.params or n.id in self.parent.locals):
                # a nested function may refer to itself (recursion) but to no other local of its parent
                if n.id == self.tree.name:
                    return ("var", n.id)
                self.fail(f"nested function closes over the local {n.id!r} of its parent", n)
            obj = self.lookup(n.id)
            g = glob_of(obj, self.pairs)
            if g is None:
                self.fail(f"name {n.id!r} is bound to an object outside the table language: {obj!r}", n)
            return ("glob", g)
        if isinstance(n, ast.Constant):
            v = n.value
            if v is None:
                return ("pyNone",)
            if v is True or v is False:
                return ("pyBool", v)
            if type(v) is int:
                return ("int", v)
            self.fail("literal other than None / bool / int", n)
        if isinstance(n, ast.UnaryOp):
            if isinstance(n.op, ast.Not):
                return ("not", self.tm(n.operand, scope))
            if (isinstance(n.op, ast.USub) and isinstance(n.operand, ast.Constant)
                    and type(n.operand.value) is int):
                return ("int", -n.operand.value)
            self.fail("unary operator outside the table language", n)
        if isinstance(n, ast.BoolOp):
            if isinstance(n.op, ast.And) and len(n.values) == 2:
                return ("and", self.tm(n.values[0], scope), self.tm(n.values[1], scope))
            self.fail("boolean operator other than a two-operand `and`", n)
        if isinstance(n, ast.BinOp):
            op = BINOPS.get(type(n.op))
            if op is None:
                self.fail("binary operator outside the table language", n)
            return ("bin", op, self.tm(n.left, scope), self.tm(n.right, scope))
        if isinstance(n, ast.Compare):
            if len(n.ops) != 1:
                self.fail("chained comparison", n)
            op = CMPOPS.get(type(n.ops[0]))
            if op is None:
                self.fail("comparison operator outside the table language", n)
            return ("cmp", op, self.tm(n.left, scope), self.tm(n.comparators[0], scope))
        if isinstance(n, (ast.Tuple, ast.List)):
            if not isinstance(n.ctx, ast.Load):
                self.fail("display in a store context", n)
            return ("seq", self.args(n.elts, scope))
        if isinstance(n, ast.Dict):
            if n.keys:
                self.fail("non-empty dict display", n)
            return ("emptyDict",)
        if isinstance(n, (ast.ListComp, ast.GeneratorExp)):
            return self.comp(n, scope)
        if isinstance(n, ast.Lambda):
            a = n.args
            if (len(a.args) == 1 and not a.defaults and not a.vararg and not a.kwarg
                    and not a.kwonlyargs and not a.posonlyargs
                    and isinstance(n.body, ast.Name) and n.body.id == a.args[0].arg):
                return ("lambdaId",)
            self.fail("lambda other than the identity", n)
        if isinstance(n, ast.Attribute):
            if self.is_self(n.value):
                if n.attr in self.inst_attrs:
                    return ("selfAttr", n.attr)
                self.fail(f"self.{n.attr} used as a value but no constructor sets it", n)
            obj = self.obj_of(n, scope)
            if obj is not Unbound:
                g = glob_of(obj, self.pairs)
                if g is None:
                    self.fail(f"`{short(n)}` is an object outside the table language: {obj!r}", n)
                return ("glob", g)
            return ("attr", self.tm(n.value, scope), n.attr)
        if isinstance(n, ast.Subscript):
            base = self.tm(n.value, scope)
            s = n.slice
            if isinstance(s, ast.Slice):
                if s.lower is not None and s.upper is None and s.step is None:
                    return ("sliceFrom", base, self.tm(s.lower, scope))
                self.fail("slice other than `[i:]`", n)
            return ("index", base, self.tm(s, scope))
        if isinstance(n, ast.Call):
            return self.call(n, scope)
        self.fail("expression outside the table language", n)

    def comp(self, n, scope):
        if len(n.generators) != 1:
            self.fail("comprehension with more than one `for`", n)
        g = n.generators[0]
        if g.ifs or g.is_async:
            self.fail("filtered / async comprehension", n)
        if isinstance(g.target, ast.Name):
            targets = [g.target.id]
        elif isinstance(g.target, ast.Tuple) and all(isinstance(e, ast.Name) for e in g.target.elts):
            targets = [e.id for e in g.target.elts]
        else:
            self.fail("comprehension target is not a name / tuple of names", g.target)
        it = self.tm(g.iter, scope)      # evaluated in the enclosing scope
        return ("comp", self.tm(n.elt, scope | set(targets)), targets, it)

    def call(self, n, scope):
        func = n.func
        if is_pop0(n) is not None:
            self.fail("`.pop(0)` somewhere else than `X = Q.pop(0)` / `X = f(Q.pop(0))`", n)
        if isinstance(func, ast.Attribute) and self.is_self(func.value):
            if func.attr in self.inst_attrs:
                if n.keywords:
                    self.fail("keyword arguments", n)
                return ("call", ("selfAttr", func.attr), self.args(n.args, scope))
            if func.attr != "rec" and not self.cls_attr(func.attr):
                self.fail(f"self.{func.attr}(…): neither a method of the class nor an instance "
                          "attribute set by a constructor", n)
            return ("selfCall", func.attr, self.plain_args(n, scope))
        # CLS.M(self, args)
        if isinstance(func, ast.Attribute):
            base = self.obj_of(func.value, scope)
            if base is not Unbound and inspect.isclass(base):
                g = glob_of(base, self.pairs)
                if g is None:
                    self.fail(f"call through a class outside the table language: {base!r}", n)
                if not n.args or not self.is_self(n.args[0]) or n.keywords:
                    self.fail("call through a class that does not pass `self` first", n)
                rest = ast.Call(func=func, args=n.args[1:], keywords=[])
                return ("superCall", g, func.attr, self.plain_args(rest, scope))
        obj = self.obj_of(func, scope)
        if obj is not Unbound:
            g = glob_of(obj, self.pairs)
            if g is None:
                self.fail(f"call of an object outside the table language: {obj!r}", n)
            if n.keywords:
                self.fail("keyword arguments", n)
            if g == "isZero" and len(n.args) == 1:
                a = n.args[0]
                if (isinstance(a, ast.BinOp) and isinstance(a.op, ast.Sub)
                        and isinstance(a.right, ast.Constant) and a.right.value == 1
                        and type(a.right.value) is int):
                    return ("isOneSub", self.tm(a.left, scope))
            return ("call", ("glob", g), self.args(n.args, scope))
        # T.m(args) on a container value
        if isinstance(func, ast.Attribute) and func.attr in ("get", "items", "values", "keys"):
            return ("method", self.tm(func.value, scope), func.attr, self.plain_args(n, scope))
        if isinstance(func, ast.Attribute):
            self.fail("method call outside the table language", n)
        # a local callable (nested function, parameter) or the result of a call
        if n.keywords:
            self.fail("keyword arguments", n)
        return ("call", self.tm(func, scope), self.args(n.args, scope))

    # -- statements ----------------------------------------------------------------------------
    def skip(self, st):
        if isinstance(st, (ast.Import, ast.ImportFrom)):
            self.do_import(st)
            return True
        if isinstance(st, ast.Expr) and isinstance(st.value, ast.Constant) \
                and isinstance(st.value.value, str):
            return True
        if isinstance(st, ast.Pass):
            return True
        return False

    def fresh(self, v):
        """does the expression build a new container?"""
        if isinstance(v, (ast.List, ast.Dict, ast.ListComp)):
            return True
        if isinstance(v, ast.BinOp) and isinstance(v.op, ast.Add):
            return True
        if isinstance(v, ast.Call) and isinstance(v.func, ast.Name) \
                and v.func.id in ("list", "dict", "set") \
                and self.obj_of(v.func, set()) in (list, dict, set):
            return True
        return False

    def note_assign(self, name, value):
        self.assigned_from.setdefault(name, []).append(value)

    def stmts(self, ss):
        out = []
        for s in ss:
            if self.skip(s):
                continue
            out.extend(self.stmt(s))
        return out

    def stmt(self, s):
        scope = set()
        if isinstance(s, ast.Assign):
            if len(s.targets) != 1:
                self.fail("chained assignment", s)
            t = s.targets[0]
            if isinstance(t, ast.Name):
                if t.id == self.self_name:
                    self.fail("rebinds self", s)
                pop = pop_front_of(s.value)
                if pop is not None:
                    q, wrapped = pop
                    if not self.is_local(q, scope):
                        self.fail("pop(0) on something that is not a local", s)
                    self.mutated.add(q)
                    if not wrapped:
                        return [("popFront", t.id, q)]
                    tmp = q + ".pop(0)"
                    inner = ast.Call(func=s.value.func, args=[ast.Name(id=tmp, ctx=ast.Load())],
                                     keywords=[])
                    self.note_assign(t.id, s.value)
                    return [("popFront", tmp, q), ("assign", t.id, self.tm(inner, scope))]
                self.note_assign(t.id, s.value)
                return [("assign", t.id, self.tm(s.value, scope))]
            if isinstance(t, ast.Tuple) and len(t.elts) == 2 \
                    and all(isinstance(e, ast.Name) for e in t.elts):
                for e in t.elts:
                    self.note_assign(e.id, None)
                return [("assign2", t.elts[0].id, t.elts[1].id, self.tm(s.value, scope))]
            if isinstance(t, ast.Subscript) and isinstance(t.value, ast.Name) \
                    and self.is_local(t.value.id, scope) and not isinstance(t.slice, ast.Slice):
                self.mutated.add(t.value.id)
                return [("setItem", t.value.id, self.tm(t.slice, scope), self.tm(s.value, scope))]
            if isinstance(t, ast.Attribute) and self.is_self(t.value):
                if self.tree.name != "__init__":
                    self.fail("assignment to an instance attribute outside __init__", s)
                return [("setSelf", t.attr, self.tm(s.value, scope))]
            self.fail("assignment target outside the table language", s)
        if isinstance(s, ast.AugAssign):
            t = s.target
            op = BINOPS.get(type(s.op))
            if op is None:
                self.fail("augmented operator outside the table language", s)
            if isinstance(t, ast.Subscript) and isinstance(t.value, ast.Name) \
                    and self.is_local(t.value.id, scope) and not isinstance(t.slice, ast.Slice):
                self.mutated.add(t.value.id)
                return [("augItem", t.value.id, self.tm(t.slice, scope), op, self.tm(s.value, scope))]
            self.fail("augmented assignment to something that is not D[K]", s)
        if isinstance(s, ast.Expr):
            v = s.value
            if (isinstance(v, ast.Call) and isinstance(v.func, ast.Attribute)
                    and v.func.attr == "append" and isinstance(v.func.value, ast.Name)
                    and self.is_local(v.func.value.id, scope) and len(v.args) == 1
                    and not v.keywords and not isinstance(v.args[0], ast.Starred)):
                self.mutated.add(v.func.value.id)
                return [("append", v.func.value.id, self.tm(v.args[0], scope))]
            self.fail("expression statement other than X.append(V)", s)
        if isinstance(s, ast.FunctionDef):
            if self.parent is not None:
                self.fail("nested function inside a nested function", s)
            if s.decorator_list:
                self.fail("decorated nested function", s)
            rd = FnReader(s, self.fn, self.pairs, self.inst_attrs, self.cls_attr, self.self_name,
                          parent=self)
            d = rd.read_def()
            if any(x["name"] == d["name"] for x in self.defs):
                self.fail("two nested functions of the same name", s)
            self.defs.append(d)
            return [("defFn", s.name)]
        if isinstance(s, ast.If):
            return [("ifThen", self.tm(s.test, scope), self.stmts(s.body), self.stmts(s.orelse))]
        if isinstance(s, ast.While):
            if s.orelse:
                self.fail("while … else", s)
            return [("while", self.tm(s.test, scope), self.stmts(s.body))]
        if isinstance(s, ast.For):
            if s.orelse:
                self.fail("for … else", s)
            if isinstance(s.target, ast.Name):
                targets = [s.target.id]
            elif isinstance(s.target, ast.Tuple) and len(s.target.elts) == 2 \
                    and all(isinstance(e, ast.Name) for e in s.target.elts):
                targets = [e.id for e in s.target.elts]
            else:
                self.fail("for target is not a name / pair of names", s.target)
            for x in targets:
                self.note_assign(x, None)
            return [("for", targets, self.tm(s.iter, scope), self.stmts(s.body))]
        if isinstance(s, ast.Break):
            return [("brk",)]
        if isinstance(s, ast.Return):
            if s.value is None:
                return [("ret", ("pyNone",))]
            return [("ret", self.tm(s.value, scope))]
        if isinstance(s, ast.Raise):
            if s.cause is not None or s.exc is None:
                self.fail("raise … from / bare raise", s)
            e = s.exc.func if isinstance(s.exc, ast.Call) else s.exc
            obj = self.obj_of(e, scope)
            g = glob_of(obj, self.pairs) if obj is not Unbound else None
            if g not in ("valueError", "runtimeError"):
                self.fail("raise of an exception outside the table language", s)
            return [("raise", g)]
        if isinstance(s, ast.Assert):
            return [("assertS", self.tm(s.test, scope))]
        if isinstance(s, ast.Try):
            if (len(s.body) == 1 and isinstance(s.body[0], ast.Return) and s.body[0].value is not None
                    and len(s.handlers) == 1 and not s.orelse and not s.finalbody
                    and s.handlers[0].name is None and s.handlers[0].type is not None):
                obj = self.obj_of(s.handlers[0].type, scope)
                g = glob_of(obj, self.pairs) if obj is not Unbound else None
                if g not in ("valueError", "runtimeError"):
                    self.fail("except clause for a class outside the table language", s)
                return [("tryRet", self.tm(s.body[0].value, scope), g, self.stmts(s.handlers[0].body))]
            self.fail("try statement other than `try: return T / except E: …`", s)
        self.fail("statement outside the table language", s)

    def check_mutation(self):
        """a variable mutated in place must hold a container built in this function"""
        for name in sorted(self.mutated):
            if name in self.params:
                self.fail(f"the parameter {name!r} is mutated in place")
            for v in self.assigned_from.get(name, []):
                if v is None or not self.fresh(v):
                    self.fail(f"{name!r} is mutated in place but may alias another object",
                              v if v is not None else None)

    def read_def(self):
        body = self.stmts(self.body_stmts)
        self.check_mutation()
        src_names = {x.id for x in ast.walk(self.tree) if isinstance(x, ast.Name)}
        return dict(name=self.tree.name, params=self.params, locals=self.locals,
                    recursive=self.tree.name in src_names, body=body)

    def default_tm(self, n):
        if isinstance(n, ast.Constant) and (n.value is None or n.value is True or n.value is False
                                            or type(n.value) is int):
            return self.tm(n, set())
        self.fail("default value other than None / bool / int", n)

    def read_fn(self):
        body = self.stmts(self.body_stmts)
        self.check_mutation()
        return dict(name=self.tree.name,
                    definedIn=f"{self.fn.__module__}.{self.fn.__qualname__}",
                    params=self.params,
                    defaults=[(p, self.default_tm(d)) for p, d in self.default_nodes],
                    locals=self.locals, defs=self.defs, body=body)


def check_repo(ctx, modules):
    if not ctx or not ctx.get("repo"):
        return
    root = os.path.realpath(ctx["repo"]) + os.sep
    for m in modules:
        f = os.path.realpath(m.__file__)
        if not f.startswith(root):
            raise ExtractError(f"{m.__name__} was imported from {f}, not from the repository "
                               f"under check ({root}); set PYTHONPATH to the working tree")


def init_attrs(cls):
    """instance attributes the constructor of `cls` sets (`self.A = …`), [] without own __init__"""
    init = cls.__dict__.get("__init__")
    for k in cls.__mro__[1:]:
        if init is None and "__init__" in k.__dict__ and inspect.isfunction(k.__dict__["__init__"]):
            init = k.__dict__["__init__"]
    if init is None or not inspect.isfunction(init):
        return []
    tree, _ = function_ast(init)
    self_name = tree.args.args[0].arg
    out = []
    for n in ast.walk(tree):
        if isinstance(n, ast.Assign):
            for t in n.targets:
                if isinstance(t, ast.Attribute) and isinstance(t.value, ast.Name) \
                        and t.value.id == self_name and t.attr not in out:
                    out.append(t.attr)
    return out


def read_class(cls, pairs):
    import pymbolic.mapper as pm
    IM = pm.IdentityMapper
    if IM not in cls.__mro__:
        raise ExtractError(f"{cls.__name__} is not an IdentityMapper")
    inst = init_attrs(cls)

    def cls_attr(name):
        return hasattr(cls, name)

    methods = []
    names = sorted(set(dir(cls)) | set(dir(IM)))
    for a in names:
        obj = inspect.getattr_static(cls, a, None)
        if isinstance(obj, (staticmethod, classmethod, property)):
            raise ExtractError(f"{cls.__name__}.{a}: static / class method or property")
        if not inspect.isfunction(obj):
            if a.startswith("map_") and obj is not None:
                raise ExtractError(f"{cls.__name__}.{a} is not a plain function")
            if a.startswith("map_") and inspect.isfunction(inspect.getattr_static(IM, a, None)):
                raise ExtractError(f"{cls.__name__} removes the handler {a}")
            continue
        if inspect.getattr_static(IM, a, None) is obj:
            continue        # the very function IdentityMapper has: the C04 row applies
        bound_in = next(k.__name__ for k in cls.__mro__ if a in k.__dict__)
        im_rows = [r for r, f in IM.__dict__.items() if f is obj]
        if im_rows:
            row = obj.__name__
            if IM.__dict__.get(row) is not obj:
                raise ExtractError(f"{cls.__name__}.{a}: aliased IdentityMapper function has no row "
                                   f"under its own name {row!r}")
            h = ("identity", row)
        elif obj is pm.CSECachingMapperMixin.__dict__.get("map_common_subexpression"):
            h = ("cseMixin",)
        elif obj.__module__ in MODULES:
            tree, fn = function_ast(obj)
            self_name = tree.args.args[0].arg if tree.args.args else None
            if self_name is None:
                raise ExtractError(f"{obj.__qualname__}: method without self")
            h = ("own", FnReader(tree, fn, pairs, inst, cls_attr, self_name).read_fn())
        else:
            raise ExtractError(f"{cls.__name__}.{a} is {obj.__module__}.{obj.__qualname__}: neither "
                               "IdentityMapper's, nor the CSE mix-in's, nor a function of the "
                               "modules under this property")
        methods.append(dict(name=a, boundIn=bound_in, h=h))
    rec_ok = (inspect.getattr_static(cls, "rec", None) is pm.Mapper.__dict__["__call__"]
              and inspect.getattr_static(cls, "__call__", None) is pm.Mapper.__dict__["__call__"])
    return dict(name=cls.__name__, mro=[k.__name__ for k in cls.__mro__], methods=methods,
                recIsDispatch=rec_ok)


def read_entry(fn, pairs):
    tree, fn = function_ast(fn)
    return FnReader(tree, fn, pairs, [], lambda name: False, None).read_fn()


def rewrite_table(ctx=None):
    import pymbolic
    mods = [importlib.import_module(m) for m in MODULES]
    import pymbolic.mapper as pm
    import pymbolic.primitives as prim
    check_repo(ctx, [*mods, pm, prim, pymbolic])
    linecache.checkcache()
    pairs = glob_table()
    fl, cf, co, di = mods
    t = dict(
        flatten=read_class(fl.FlattenMapper, pairs),
        plainFolder=read_class(cf.ConstantFoldingMapper, pairs),
        commFolder=read_class(cf.CommutativeConstantFoldingMapper, pairs),
        collector=read_class(co.TermCollector, pairs),
        distributor=read_class(di.DistributeMapper, pairs),
        entries=[read_entry(fl.flatten, pairs), read_entry(di.distribute, pairs)],
    )
    aliases = []
    for name in ("flatten", "expand", "distribute"):
        f = getattr(pymbolic, name, None)
        if not inspect.isfunction(f):
            raise ExtractError(f"pymbolic.{name} is not a function")
        aliases.append((name, f"{f.__module__}.{f.__qualname__}"))
    t["aliases"] = aliases
    return t


# ---- Lean output ------------------------------------------------------------------------------

def q(s):
    return '"' + s.replace("\\", "\\\\").replace('"', '\\"').replace("\n", "\\n") + '"'


def lb(b):
    return "true" if b else "false"


def lint(n):
    return f"({n})" if n < 0 else str(n)


def l_strs(xs):
    return "[" + ", ".join(q(x) for x in xs) + "]"


def l_tm(e):
    k = e[0]
    if k == "var":
        return f"(.var {q(e[1])})"
    if k == "int":
        return f"(.int {lint(e[1])})"
    if k == "pyNone":
        return ".pyNone"
    if k == "pyBool":
        return f"(.pyBool {lb(e[1])})"
    if k == "glob":
        return f"(.glob .{e[1]})"
    if k == "selfAttr":
        return f"(.selfAttr {q(e[1])})"
    if k == "attr":
        return f"(.attr {l_tm(e[1])} {q(e[2])})"
    if k == "call":
        return f"(.call {l_tm(e[1])} {l_tms(e[2])})"
    if k == "selfCall":
        return f"(.selfCall {q(e[1])} {l_tms(e[2])})"
    if k == "superCall":
        return f"(.superCall .{e[1]} {q(e[2])} {l_tms(e[3])})"
    if k == "method":
        return f"(.method {l_tm(e[1])} {q(e[2])} {l_tms(e[3])})"
    if k == "bin":
        return f"(.bin .{e[1]} {l_tm(e[2])} {l_tm(e[3])})"
    if k == "cmp":
        return f"(.cmp .{e[1]} {l_tm(e[2])} {l_tm(e[3])})"
    if k == "not":
        return f"(.not {l_tm(e[1])})"
    if k == "and":
        return f"(.and {l_tm(e[1])} {l_tm(e[2])})"
    if k == "seq":
        return f"(.seq {l_tms(e[1])})"
    if k == "star":
        return f"(.star {l_tm(e[1])})"
    if k == "comp":
        return f"(.comp {l_tm(e[1])} {l_strs(e[2])} {l_tm(e[3])})"
    if k == "index":
        return f"(.index {l_tm(e[1])} {l_tm(e[2])})"
    if k == "sliceFrom":
        return f"(.sliceFrom {l_tm(e[1])} {l_tm(e[2])})"
    if k == "isOneSub":
        return f"(.isOneSub {l_tm(e[1])})"
    if k == "lambdaId":
        return ".lambdaId"
    if k == "emptyDict":
        return ".emptyDict"
    raise ExtractError(f"internal: no Lean form for term {k}")


def l_tms(xs):
    return "[" + ", ".join(l_tm(x) for x in xs) + "]"


def l_stmts(ss, ind):
    if not ss:
        return "[]"
    pad = " " * ind
    return "[\n" + ",\n".join(pad + l_stmt(s, ind) for s in ss) + "]"


def l_stmt(s, ind):
    k = s[0]
    if k == "assign":
        return f".assign {q(s[1])} {l_tm(s[2])}"
    if k == "assign2":
        return f".assign2 {q(s[1])} {q(s[2])} {l_tm(s[3])}"
    if k == "setItem":
        return f".setItem {q(s[1])} {l_tm(s[2])} {l_tm(s[3])}"
    if k == "augItem":
        return f".augItem {q(s[1])} {l_tm(s[2])} .{s[3]} {l_tm(s[4])}"
    if k == "append":
        return f".append {q(s[1])} {l_tm(s[2])}"
    if k == "popFront":
        return f".popFront {q(s[1])} {q(s[2])}"
    if k == "setSelf":
        return f".setSelf {q(s[1])} {l_tm(s[2])}"
    if k == "defFn":
        return f".defFn {q(s[1])}"
    if k == "ifThen":
        return (f".ifThen {l_tm(s[1])} {l_stmts(s[2], ind + 2)}\n" + " " * (ind + 2)
                + l_stmts(s[3], ind + 2))
    if k == "while":
        return f".while {l_tm(s[1])} {l_stmts(s[2], ind + 2)}"
    if k == "for":
        return f".for {l_strs(s[1])} {l_tm(s[2])} {l_stmts(s[3], ind + 2)}"
    if k == "brk":
        return ".brk"
    if k == "ret":
        return f".ret {l_tm(s[1])}"
    if k == "raise":
        return f".raise .{s[1]}"
    if k == "assertS":
        return f".assertS {l_tm(s[1])}"
    if k == "tryRet":
        return f".tryRet {l_tm(s[1])} .{s[2]} {l_stmts(s[3], ind + 2)}"
    raise ExtractError(f"internal: no Lean form for statement {k}")


def l_def(d, ind):
    pad = " " * ind
    return (f"{{ name := {q(d['name'])}, params := {l_strs(d['params'])}, "
            f"locals := {l_strs(d['locals'])}, recursive := {lb(d['recursive'])},\n"
            f"{pad}  body := {l_stmts(d['body'], ind + 4)} }}")


def l_fn(f, ind):
    pad = " " * ind
    dfl = "[" + ", ".join(f"({q(p)}, {l_tm(t)})" for p, t in f["defaults"]) + "]"
    defs = "[]" if not f["defs"] else "[\n" + ",\n".join(
        pad + "    " + l_def(d, ind + 4) for d in f["defs"]) + "]"
    return (f"{{ name := {q(f['name'])}, definedIn := {q(f['definedIn'])},\n"
            f"{pad}  params := {l_strs(f['params'])}, defaults := {dfl},\n"
            f"{pad}  locals := {l_strs(f['locals'])},\n"
            f"{pad}  defs := {defs},\n"
            f"{pad}  body := {l_stmts(f['body'], ind + 4)} }}")


def fn_ident(cls, name):
    return f"c11_{cls}_{name}"


def to_lean(t):
    out = ["import PV.Model.RewriteTable",
           "/- GENERATED by extract/rewrite.py from the live source of pymbolic/mapper/flattener.py,",
           "   constant_folder.py, collector.py and distributor.py — do not edit. -/",
           "namespace PV.Generated", ""]
    seen = {}
    class_defs = []
    for key in ("flatten", "plainFolder", "commFolder", "collector", "distributor"):
        c = t[key]
        ms = []
        for m in c["methods"]:
            h = m["h"]
            if h[0] == "own":
                f = h[1]
                ident = "c11_" + f["definedIn"].split(".", 3)[-1].replace(".", "_")
                text = l_fn(f, 2)
                if ident in seen:
                    if seen[ident] != text:
                        raise ExtractError(f"{f['definedIn']} reads differently from two classes")
                else:
                    seen[ident] = text
                    out.append(f"/-- `{f['definedIn']}` -/")
                    out.append(f"def {ident} : C11Fn :=\n  {text}\n")
                hl = f".own {ident}"
            elif h[0] == "identity":
                hl = f".identity {q(h[1])}"
            else:
                hl = ".cseMixin"
            ms.append(f"    ⟨{q(m['name'])}, {q(m['boundIn'])}, {hl}⟩")
        class_defs.append(
            f"def c11Class_{key} : C11Class :=\n"
            f"  {{ name := {q(c['name'])},\n    mro := {l_strs(c['mro'])},\n"
            f"    methods := [\n" + ",\n".join(ms) + "],\n"
            f"    recIsDispatch := {lb(c['recIsDispatch'])} }}\n")
    out.extend(class_defs)
    ents = []
    for f in t["entries"]:
        ident = "c11_entry_" + f["name"]
        out.append(f"/-- `{f['definedIn']}` -/")
        out.append(f"def {ident} : C11Fn :=\n  {l_fn(f, 2)}\n")
        ents.append(ident)
    al = "[" + ", ".join(f"({q(a)}, {q(b)})" for a, b in t["aliases"]) + "]"
    out.append("def c11Table : C11Table :=\n"
               "  { flatten := c11Class_flatten, plainFolder := c11Class_plainFolder,\n"
               "    commFolder := c11Class_commFolder, collector := c11Class_collector,\n"
               "    distributor := c11Class_distributor,\n"
               f"    entries := [{', '.join(ents)}],\n"
               f"    aliases := {al} }}\n")
    out.append("end PV.Generated\n")
    return "\n".join(out)


def extract_rewrite(ctx=None):
    t = rewrite_table(ctx)
    write_if_changed(os.path.join(LEAN, "PV", "Generated", "Rewrite.lean"), to_lean(t))
    return t


if __name__ == "__main__":
    import sys
    t = rewrite_table({"repo": os.environ.get("REPO", "/repo")})
    sys.stdout.write(to_lean(t))
