"""T-gen: the `__post_init__` normalisers of the node classes of pymbolic.primitives.

Every `__post_init__` a node class defines is read statement by statement and classified by SHAPE:

  normaliseIfHashRaises F C   try: hash(self.F)  except Exception: [warn(..)] object.__setattr__(self, "F", C(self.F))
  translateOrRaise F T1 T2 E  if self.F not in self.T1: if self.F in self.T2: [warn(..)]
                                  object.__setattr__(self, "F", self.T2[self.F])  else: raise E(..)
  defaultIfNone F V           if self.F is None: [warn(..)] object.__setattr__(self, "F", V)

Any other statement shape is an ExtractError (= broken obligation), never a default.  The table is
written to lean/PV/Generated/PostInit.lean; `PV.C01.post_init_current` compares it with the literal
the C01 model / harness were written against (kw_parameters normalised to an immutabledict exactly
when hashing it RAISES, comparison operators translated from names or refused, scope None -> EVALUATION).
"""
from __future__ import annotations

import ast
import inspect
import os
import textwrap

from .classes import ExtractError

LEAN = os.path.join(os.path.dirname(os.path.dirname(os.path.abspath(__file__))), "lean")


def _is_self_attr(node, self_n, attr=None):
    return (isinstance(node, ast.Attribute) and isinstance(node.value, ast.Name)
            and node.value.id == self_n and (attr is None or node.attr == attr))


def _is_warn(st):
    return (isinstance(st, ast.Expr) and isinstance(st.value, ast.Call)
            and isinstance(st.value.func, ast.Name) and st.value.func.id == "warn")


def _setattr(st, self_n):
    """object.__setattr__(self, "F", value) -> (F, value node) or None"""
    if not (isinstance(st, ast.Expr) and isinstance(st.value, ast.Call)):
        return None
    c = st.value
    f = c.func
    if not (isinstance(f, ast.Attribute) and f.attr == "__setattr__" and isinstance(f.value, ast.Name)
            and f.value.id == "object" and len(c.args) == 3 and not c.keywords
            and isinstance(c.args[0], ast.Name) and c.args[0].id == self_n
            and isinstance(c.args[1], ast.Constant) and isinstance(c.args[1].value, str)):
        return None
    return c.args[1].value, c.args[2]


def _strip(body):
    return [st for st in body
            if not (isinstance(st, ast.Expr) and isinstance(st.value, ast.Constant)) and not _is_warn(st)]


def read_post_init(cls):
    fn = cls.__dict__["__post_init__"]
    try:
        src = textwrap.dedent(inspect.getsource(fn))
    except (OSError, TypeError) as e:
        raise ExtractError(f"{cls.__name__}.__post_init__: no source ({e})") from None
    tree = ast.parse(src).body[0]
    where = f"{cls.__name__}.__post_init__"
    a = tree.args
    if len(a.args) != 1 or a.vararg or a.kwarg or a.kwonlyargs or a.posonlyargs or tree.decorator_list:
        raise ExtractError(f"{where}: unexpected signature")
    self_n = a.args[0].arg
    body = _strip(tree.body)
    if len(body) != 1:
        raise ExtractError(f"{where}: expected one statement, found {len(body)}")
    st = body[0]
    # --- try: hash(self.F) except Exception: setattr(F, C(self.F))
    if isinstance(st, ast.Try):
        ok = (len(st.body) == 1 and isinstance(st.body[0], ast.Expr)
              and isinstance(st.body[0].value, ast.Call)
              and isinstance(st.body[0].value.func, ast.Name) and st.body[0].value.func.id == "hash"
              and "hash" not in fn.__globals__
              and len(st.body[0].value.args) == 1 and _is_self_attr(st.body[0].value.args[0], self_n)
              and len(st.handlers) == 1 and not st.orelse and not st.finalbody
              and isinstance(st.handlers[0].type, ast.Name) and st.handlers[0].type.id == "Exception"
              and "Exception" not in fn.__globals__)
        if ok:
            fld = st.body[0].value.args[0].attr
            hb = _strip(st.handlers[0].body)
            sa = _setattr(hb[0], self_n) if len(hb) == 1 else None
            if (sa and sa[0] == fld and isinstance(sa[1], ast.Call) and isinstance(sa[1].func, ast.Name)
                    and len(sa[1].args) == 1 and not sa[1].keywords
                    and _is_self_attr(sa[1].args[0], self_n, fld)):
                ctor = fn.__globals__.get(sa[1].func.id)
                if ctor is None:
                    raise ExtractError(f"{where}: unbound {sa[1].func.id}")
                return ("normaliseIfHashRaises", [fld, f"{ctor.__module__}.{ctor.__qualname__}"])
        raise ExtractError(f"{where}: unreadable try statement `{ast.unparse(st)[:80]}`")
    if isinstance(st, ast.If):
        t = st.test
        # --- if self.F is None: setattr(F, V)
        if (isinstance(t, ast.Compare) and len(t.ops) == 1 and isinstance(t.ops[0], ast.Is)
                and _is_self_attr(t.left, self_n) and isinstance(t.comparators[0], ast.Constant)
                and t.comparators[0].value is None and not st.orelse):
            fld = t.left.attr
            b = _strip(st.body)
            sa = _setattr(b[0], self_n) if len(b) == 1 else None
            if sa and sa[0] == fld:
                return ("defaultIfNone", [fld, ast.unparse(sa[1])])
            raise ExtractError(f"{where}: unreadable None-default body")
        # --- if self.F not in self.T1: if self.F in self.T2: setattr(F, self.T2[self.F]) else: raise E
        if (isinstance(t, ast.Compare) and len(t.ops) == 1 and isinstance(t.ops[0], ast.NotIn)
                and _is_self_attr(t.left, self_n) and _is_self_attr(t.comparators[0], self_n)
                and not st.orelse):
            fld, t1 = t.left.attr, t.comparators[0].attr
            b = _strip(st.body)
            if len(b) == 1 and isinstance(b[0], ast.If):
                i2 = b[0]
                t2n = i2.test
                if (isinstance(t2n, ast.Compare) and len(t2n.ops) == 1 and isinstance(t2n.ops[0], ast.In)
                        and _is_self_attr(t2n.left, self_n, fld)
                        and _is_self_attr(t2n.comparators[0], self_n)):
                    t2 = t2n.comparators[0].attr
                    bb = _strip(i2.body)
                    sa = _setattr(bb[0], self_n) if len(bb) == 1 else None
                    el = _strip(i2.orelse)
                    ok = (sa and sa[0] == fld and isinstance(sa[1], ast.Subscript)
                          and _is_self_attr(sa[1].value, self_n, t2)
                          and _is_self_attr(sa[1].slice, self_n, fld)
                          and len(el) == 1 and isinstance(el[0], ast.Raise)
                          and isinstance(el[0].exc, ast.Call) and isinstance(el[0].exc.func, ast.Name))
                    if ok:
                        return ("translateOrRaise", [fld, t1, t2, el[0].exc.func.id])
            raise ExtractError(f"{where}: unreadable translation body")
    raise ExtractError(f"{where}: unknown statement `{ast.unparse(st)[:80]}`")


def post_init_table():
    import pymbolic.primitives as prim
    seen, out = set(), []

    def walk(c):
        for s in c.__subclasses__():
            if s in seen:
                continue
            seen.add(s)
            if s.__module__ == prim.__name__ and "__post_init__" in s.__dict__:
                kind, args = read_post_init(s)
                out.append((s.__name__, kind, args))
            walk(s)
    walk(prim.Expression)
    # the dataclass machinery must actually call it: `init` dataclasses call __post_init__ from __init__
    return sorted(out)


def q(s):
    return '"' + s.replace("\\", "\\\\").replace('"', '\\"') + '"'


def extract_postinit(ctx=None):
    t = post_init_table()
    rows = ",\n".join(f"  ({q(c)}, {q(k)}, [{', '.join(q(a) for a in args)}])" for c, k, args in t)
    text = ("/- GENERATED by extract/postinit.py from the live source of pymbolic/primitives.py — do not edit. -/\n"
            "namespace PV.Generated\n\n"
            "/-- (class, normaliser shape, arguments) of every `__post_init__` of a node class -/\n"
            f"def postInit : List (String × String × List String) := [\n{rows}\n]\n\n"
            "end PV.Generated\n")
    path = os.path.join(LEAN, "PV", "Generated", "PostInit.lean")
    old = open(path).read() if os.path.exists(path) else None
    if old != text:
        with open(path, "w") as f:
            f.write(text)
    return t
