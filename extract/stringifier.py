"""T-gen for C06 (shared by C13, C14): regenerate lean/PV/Generated/Stringifier.lean from the LIVE
source text of the printer `StringifyMapper` (pymbolic/mapper/stringifier.py) in the working tree
of the repository (`ctx["repo"]`).

What is read (with `inspect` + `ast`, never executed):

* for every node class of the Lean IR: its dataclass fields, its `mapper_method`, and the handler
  the dispatch of `Mapper.__call__` reaches on `StringifyMapper` (own name, else the first
  `mapper_method` along the MRO that the mapper implements); `Mapper.map_foreign` (which handler
  constants, lists and tuples reach); aliases (`map_max = map_min`) resolve to the aliased function;
* the body of every `map_*` handler reached, translated statement by statement into the handler
  language of lean/PV/Model/StrTable.lean (`C06TE` / `C06TProg`): format templates (`self.format`,
  `%`, `str.format`, f-strings, `+`), separators (`join`, `join_rec`, `str.join`), for every
  recursion the attribute printed, the precedence constant passed (`PREC_X`, `PREC_X + k`,
  resolved to the module constant it is bound to) and whether it goes through
  `rec_with_force_parens_around`; the class tuple stored under `force_parens_around` (resolved
  through module aliases / class attributes, and expanded to the node classes of the IR that are
  instances of it); the own precedence handed to `parenthesize_if_needed`; conditions
  (`isinstance(expr.f, tuple)`, `len(expr) == n`, `type(expr) is C`, `x.startswith(…)`, `… in x`,
  comparisons of precedences); the loop of `map_slice`;
* the string composition helpers: `format`, `join`, `join_rec` (exact shapes), `parenthesize`
  (template), `parenthesize_if_needed` (comparison operator, template),
  `rec_with_force_parens_around` (keyword popped, default, `isinstance` test, template);
* `StringifyMapper.__call__` (default precedence, delegation to `Mapper.__call__`), which class
  provides `rec`, `Expression.__str__` / `make_stringifier`.

Normalisations (sound because handler expressions have no effect but raising):
`if c: x = a  else: x = b` is read as `x = a if c else b`; `if c: x += a` as
`x = x + a if c else x`.

A handler the dispatch REACHES from a node class of the IR (or from a constant / tuple / list) whose
body has a shape this reader does not understand is an ExtractError (reported by the check as a
broken obligation) — nothing is guessed.  Handlers nothing in the IR reaches (`map_polynomial`,
`map_numpy_array`, `map_multivector`, …) are translated when possible and otherwise listed under
`unmodelled` with the reason.
"""
from __future__ import annotations

import ast
import builtins
import dataclasses
import inspect
import os

from harness.leanio import LEAN

from .evaluator import (IR_CLASSES, ExtractError, check_repo, function_ast, read_map_foreign,
                        resolve_handler, short)
from .prec import write_if_changed

CMPS = {ast.Gt: "gt", ast.GtE: "ge", ast.Lt: "lt", ast.LtE: "le"}
FOREIGN_KINDS = {"int": int, "bool": bool, "float": float, "str": str, "NoneType": type(None),
                 "tuple": tuple, "list": list}


def body_of(tree):
    """statements of a function without its docstring"""
    b = list(tree.body)
    if b and isinstance(b[0], ast.Expr) and isinstance(b[0].value, ast.Constant) \
            and isinstance(b[0].value.value, str):
        b = b[1:]
    return b


def dump(n):
    return ast.dump(n, annotate_fields=True, include_attributes=False)


# ---- templates ------------------------------------------------------------------------------------

def parse_percent(t, where):
    """`%s` slots and `%%` of a printf template"""
    parts, lit, i = [], "", 0
    while i < len(t):
        if t[i] == "%":
            if t[i:i + 2] == "%s":
                if lit:
                    parts.append(("lit", lit))
                    lit = ""
                parts.append(("hole",))
                i += 2
            elif t[i:i + 2] == "%%":
                lit += "%"
                i += 2
            else:
                raise ExtractError(f"{where}: conversion other than %s in template {t!r}")
        else:
            lit += t[i]
            i += 1
    if lit:
        parts.append(("lit", lit))
    return parts


def parse_braces(t, where):
    """`{}` slots and `{{` / `}}` of a str.format template"""
    parts, lit, i = [], "", 0
    while i < len(t):
        two = t[i:i + 2]
        if two == "{}":
            if lit:
                parts.append(("lit", lit))
                lit = ""
            parts.append(("hole",))
            i += 2
        elif two in ("{{", "}}"):
            lit += two[0]
            i += 2
        elif t[i] in "{}":
            raise ExtractError(f"{where}: replacement field other than {{}} in template {t!r}")
        else:
            lit += t[i]
            i += 1
    if lit:
        parts.append(("lit", lit))
    return parts


def holes(parts):
    return sum(1 for p in parts if p[0] == "hole")


# ---- one handler ------------------------------------------------------------------------------------

class Reader:
    """Translates ONE handler function of the printer into the handler language."""

    def __init__(self, fn, st_module, mapper, force_kw):
        self.tree, self.fn = function_ast(fn)
        if self.tree.decorator_list:
            raise ExtractError(f"{self.where()}: decorated")
        a = self.tree.args
        if a.posonlyargs or a.kwonlyargs or a.defaults or len(a.args) not in (2, 3) \
                or a.vararg is None or a.kwarg is None:
            raise ExtractError(f"{self.where()}: signature is not "
                               "(self, expr[, enclosing_prec], *args, **kwargs)")
        # the generic handlers of the `Mapper` base class take the precedence inside `*args`
        self.self_name, self.node_name = a.args[0].arg, a.args[1].arg
        self.enc_name = a.args[2].arg if len(a.args) == 3 else None
        self.vararg, self.kwarg = a.vararg.arg, a.kwarg.arg
        self.st = st_module
        self.mapper = mapper
        self.force_kw = force_kw
        self.local_imports: dict[str, object] = {}
        self.literals: list[str] = []
        self.force_set = False

    def where(self):
        return self.fn.__qualname__

    def fail(self, what, node=None):
        at = f" at `{short(node)}`" if node is not None else ""
        raise ExtractError(f"{self.where()}: {what}{at}")

    # -- names ---------------------------------------------------------------------------------
    def lookup(self, name):
        if name in self.local_imports:
            return self.local_imports[name]
        g = self.fn.__globals__
        if name in g:
            return g[name]
        if hasattr(builtins, name):
            return getattr(builtins, name)
        self.fail(f"unbound name {name!r}")

    def obj_of(self, node, locs):
        """Python object a Name / dotted module attribute / `self.<class attribute>` denotes"""
        if isinstance(node, ast.Name):
            if node.id in locs or node.id in (self.self_name, self.node_name, self.enc_name,
                                              self.vararg, self.kwarg):
                return None
            return self.lookup(node.id)
        if isinstance(node, ast.Attribute):
            if isinstance(node.value, ast.Name) and node.value.id == self.self_name:
                if not hasattr(self.mapper, node.attr):
                    self.fail(f"the mapper has no attribute {node.attr}", node)
                v = getattr(self.mapper, node.attr)
                return None if callable(v) and not isinstance(v, type) else v
            base = self.obj_of(node.value, locs)
            if base is None or not inspect.ismodule(base):
                return None
            if not hasattr(base, node.attr):
                self.fail(f"module {base.__name__} has no attribute {node.attr}", node)
            return getattr(base, node.attr)
        return None

    def do_import(self, st):
        import importlib
        if isinstance(st, ast.Import):
            self.fail("plain import inside a handler", st)
        if st.level:
            self.fail("relative import inside a handler", st)
        mod = importlib.import_module(st.module)
        for al in st.names:
            if not hasattr(mod, al.name):
                self.fail(f"cannot import {al.name} from {st.module}", st)
            self.local_imports[al.asname or al.name] = getattr(mod, al.name)

    # -- small recognisers ---------------------------------------------------------------------
    def is_name(self, n, name):
        return isinstance(n, ast.Name) and n.id == name

    def is_node(self, n):
        return self.is_name(n, self.node_name)

    def node_field(self, n):
        if isinstance(n, ast.Attribute) and self.is_node(n.value):
            return n.attr
        return None

    def self_method(self, func):
        if isinstance(func, ast.Attribute) and self.is_name(func.value, self.self_name):
            return func.attr
        return None

    def lit(self, s):
        self.literals.append(s)
        return ("lit", s)

    def tmpl(self, parts):
        for p in parts:
            if p[0] == "lit":
                self.literals.append(p[1])
        return parts

    def str_const(self, n):
        return n.value if isinstance(n, ast.Constant) and isinstance(n.value, str) else None

    def passes_on(self, call, npos, what):
        """exactly `npos` positional arguments, then `*args`, and `**kwargs`, nothing else"""
        pos = call.args[:npos]
        rest = call.args[npos:]
        ok = (len(pos) == npos and not any(isinstance(a, ast.Starred) for a in pos)
              and len(rest) == 1 and isinstance(rest[0], ast.Starred)
              and self.is_name(rest[0].value, self.vararg)
              and len(call.keywords) == 1 and call.keywords[0].arg is None
              and self.is_name(call.keywords[0].value, self.kwarg))
        if not ok:
            self.fail(f"{what}: the extra arguments are not passed on as (*{self.vararg}, "
                      f"**{self.kwarg})", call)

    def prec(self, n):
        """`PREC_X` / `PREC_X + k` / the handler's own enclosing precedence"""
        if self.enc_name is not None and self.is_name(n, self.enc_name):
            return ("enclosing_prec", 0)
        plus = 0
        if isinstance(n, ast.BinOp) and isinstance(n.op, ast.Add) \
                and isinstance(n.right, ast.Constant) and type(n.right.value) is int \
                and n.right.value >= 0:
            plus, n = n.right.value, n.left
        if isinstance(n, ast.Name) and n.id.startswith("PREC_"):
            v = self.lookup(n.id)
            if not hasattr(self.st, n.id) or getattr(self.st, n.id) is not v \
                    or type(v) is not int:
                self.fail(f"{n.id} is not the precedence constant of the stringifier module", n)
            return (n.id, plus)
        self.fail("precedence argument is not PREC_X, PREC_X + k or the enclosing precedence", n)

    def classes(self, n, locs):
        """a tuple of node classes -> [class names]"""
        v = self.obj_of(n, locs)
        if v is None and isinstance(n, ast.Tuple):
            v = tuple(self.obj_of(e, locs) for e in n.elts)
        if not isinstance(v, tuple) or not all(isinstance(c, type) for c in v):
            self.fail("not a tuple of classes", n)
        return list(v)

    # -- conditions ----------------------------------------------------------------------------
    def cond(self, n, locs):
        if isinstance(n, ast.UnaryOp) and isinstance(n.op, ast.Not):
            return ("not", self.cond(n.operand, locs))
        if isinstance(n, ast.BoolOp):
            k = "and" if isinstance(n.op, ast.And) else "or"
            cs = [self.cond(v, locs) for v in n.values]
            r = cs[-1]
            for c in reversed(cs[:-1]):
                r = (k, c, r)
            return r
        if isinstance(n, ast.Compare) and len(n.ops) == 1:
            o, l, r = n.ops[0], n.left, n.comparators[0]
            if type(o) in CMPS:
                return ("precCmp", CMPS[type(o)], self.prec(l), self.prec(r))
            if isinstance(o, ast.In) and self.str_const(l) is not None \
                    and isinstance(r, ast.Name) and locs.get(r.id) == "c":
                return ("litIn", self.lit(l.value)[1], r.id)
            if isinstance(o, ast.Is) and isinstance(l, ast.Call) and not l.keywords \
                    and len(l.args) == 1 and self.is_node(l.args[0]) \
                    and self.obj_of(l.func, locs) is builtins.type:
                c = self.obj_of(r, locs)
                if not isinstance(c, type):
                    self.fail("`type(expr) is` something that is not a class", n)
                return ("typeIs", c.__name__)
            if isinstance(o, ast.Eq) and isinstance(l, ast.Call) and not l.keywords \
                    and len(l.args) == 1 and self.obj_of(l.func, locs) is builtins.len \
                    and isinstance(r, ast.Constant) and type(r.value) is int and r.value >= 0:
                return ("lenEq", self.iter_of(l.args[0]), r.value)
        if isinstance(n, ast.Call) and not n.keywords:
            f = self.obj_of(n.func, locs)
            if f is builtins.isinstance and len(n.args) == 2 \
                    and self.node_field(n.args[0]) is not None \
                    and self.obj_of(n.args[1], locs) is builtins.tuple:
                return ("isTuple", self.node_field(n.args[0]))
            if isinstance(n.func, ast.Attribute) and isinstance(n.func.value, ast.Name) \
                    and locs.get(n.func.value.id) == "c" and len(n.args) == 1 \
                    and self.str_const(n.args[0]) is not None \
                    and n.func.attr in ("startswith", "endswith"):
                k = "startsWith" if n.func.attr == "startswith" else "endsWith"
                return (k, n.func.value.id, self.lit(n.args[0].value)[1])
        self.fail("condition outside the handler language", n)

    # -- iterables -----------------------------------------------------------------------------
    def iter_of(self, n):
        if self.is_node(n):
            return ("self",)
        f = self.node_field(n)
        if f is not None:
            return ("field", f)
        self.fail("iterates over something that is not expr / expr.<field>", n)

    def rec_call(self, n, var=None):
        """`self.rec(X, P, *args, **kwargs)` / `self.rec_with_force_parens_around(…)`
        -> (X, P, force)"""
        if not (isinstance(n, ast.Call) and self.self_method(n.func) in
                ("rec", "rec_with_force_parens_around")):
            return None
        self.passes_on(n, 2, "recursion")
        force = self.self_method(n.func) != "rec"
        if self.force_set and not force:
            self.fail(f"`{self.force_kw}` set by this handler leaks into a plain self.rec", n)
        return n.args[0], self.prec(n.args[1]), force

    def comp(self, elt, gens, locs):
        """the element / generators of a list comprehension or generator expression"""
        if len(gens) != 1:
            self.fail("comprehension with more than one `for`", elt)
        g = gens[0]
        if g.ifs or g.is_async:
            self.fail("filtered / async comprehension", elt)
        tgt, it = g.target, g.iter
        if isinstance(tgt, ast.Name):
            rc = self.rec_call(elt)
            if rc is not None:
                if not self.is_name(rc[0], tgt.id):
                    self.fail("element does not recurse into the loop variable", elt)
                return ("recEach", self.iter_of(it), rc[1], rc[2])
            # f"…{v}…" for v in expr.f   (strings)
            if isinstance(elt, ast.JoinedStr):
                parts, args = self.fstring(elt)
                if len(args) != 1 or not self.is_name(args[0], tgt.id):
                    self.fail("f-string element does not use exactly the loop variable", elt)
                f = self.node_field(it)
                if f is None:
                    self.fail("iterates over something that is not expr.<field>", it)
                return ("strEach", self.tmpl(parts), f)
            self.fail("comprehension element outside the handler language", elt)
        if isinstance(tgt, ast.Tuple) and len(tgt.elts) == 2 \
                and all(isinstance(e, ast.Name) for e in tgt.elts):
            nm, val = (e.id for e in tgt.elts)
            # "{}={}".format(name, self.rec(val, P, …))
            if not (isinstance(elt, ast.Call) and isinstance(elt.func, ast.Attribute)
                    and elt.func.attr == "format" and self.str_const(elt.func.value) is not None
                    and not elt.keywords and len(elt.args) == 2
                    and self.is_name(elt.args[0], nm)):
                self.fail("pair comprehension element is not \"…\".format(name, self.rec(value, …))",
                          elt)
            rc = self.rec_call(elt.args[1])
            if rc is None or not self.is_name(rc[0], val) or rc[2]:
                self.fail("pair comprehension does not recurse (plainly) into the value", elt)
            parts = parse_braces(elt.func.value.value, self.where())
            if holes(parts) != 2:
                self.fail("pair template does not have two slots", elt)
            parts = self.tmpl(parts)
            # expr.f.items()
            if isinstance(it, ast.Call) and not it.args and not it.keywords \
                    and isinstance(it.func, ast.Attribute) and it.func.attr == "items" \
                    and self.node_field(it.func.value) is not None:
                return ("kwEach", parts, self.node_field(it.func.value), rc[1])
            # zip(expr.a, expr.b)
            if isinstance(it, ast.Call) and not it.keywords and len(it.args) == 2 \
                    and self.obj_of(it.func, locs) is builtins.zip \
                    and all(self.node_field(a) is not None for a in it.args):
                return ("zipEach", parts, self.node_field(it.args[0]),
                        self.node_field(it.args[1]), rc[1])
            self.fail("pair comprehension iterates over neither expr.f.items() nor zip(expr.a, expr.b)",
                      it)
        self.fail("comprehension target outside the handler language", elt)

    def fstring(self, n):
        parts, args, lit = [], [], ""
        for v in n.values:
            if isinstance(v, ast.Constant) and isinstance(v.value, str):
                lit += v.value
            elif isinstance(v, ast.FormattedValue) and v.conversion == -1 and v.format_spec is None:
                if lit:
                    parts.append(("lit", lit))
                    lit = ""
                parts.append(("hole",))
                args.append(v.value)
            else:
                self.fail("f-string with a conversion / format specification", n)
        if lit:
            parts.append(("lit", lit))
        return parts, args

    # -- expressions: -> (type, term); type "s" string, "l" list of strings, "c" str(constant) ---
    def expr(self, n, locs):
        s = self.str_const(n)
        if s is not None:
            return "s", self.lit(s)
        if isinstance(n, ast.Name):
            if n.id in locs:
                return locs[n.id], ("var", n.id)
            self.fail("name used as a value is not a local", n)
        if isinstance(n, ast.JoinedStr):
            parts, args = self.fstring(n)
            return "s", ("fmt", self.tmpl(parts), [self.sexpr(a, locs) for a in args])
        if isinstance(n, ast.IfExp):
            ta, a = self.expr(n.body, locs)
            tb, b = self.expr(n.orelse, locs)
            if {ta, tb} - {"s", "c"} and ta != tb:
                self.fail("branches of a conditional expression of different kinds", n)
            return ("l" if ta == "l" else "s"), ("cond", self.cond(n.test, locs), a, b)
        if isinstance(n, ast.BinOp) and isinstance(n.op, ast.Add):
            ta, a = self.expr(n.left, locs)
            tb, b = self.expr(n.right, locs)
            if ta == "l" and tb == "l":
                return "l", ("append", a, b)
            if ta in "sc" and tb in "sc":
                return "s", ("cat", a, b)
            self.fail("`+` of a string and a list", n)
        if isinstance(n, ast.BinOp) and isinstance(n.op, ast.Mod) \
                and self.str_const(n.left) is not None:
            args = n.right.elts if isinstance(n.right, ast.Tuple) else [n.right]
            parts = parse_percent(n.left.value, self.where())
            if holes(parts) != len(args):
                self.fail("number of slots differs from the number of arguments", n)
            return "s", ("fmt", self.tmpl(parts), [self.sexpr(a, locs) for a in args])
        if isinstance(n, ast.Attribute):
            f = self.node_field(n)
            if f is not None:
                return "s", ("attr", f)
            c = self.class_name(n)
            if c is not None:
                return "s", c
            self.fail("attribute outside the handler language", n)
        if isinstance(n, (ast.ListComp, ast.GeneratorExp)):
            return "l", self.comp(n.elt, n.generators, locs)
        if isinstance(n, ast.Call):
            return self.call(n, locs)
        self.fail("expression outside the handler language", n)

    def sexpr(self, n, locs):
        t, e = self.expr(n, locs)
        if t == "l":
            self.fail("a list where a string is needed", n)
        return e

    def lexpr(self, n, locs):
        t, e = self.expr(n, locs)
        if t != "l":
            self.fail("a string where a list is needed", n)
        return e

    def class_name(self, n):
        """`type(expr).__name__` / `expr.__class__.__name__`"""
        if isinstance(n, ast.Attribute) and n.attr == "__name__":
            v = n.value
            if isinstance(v, ast.Attribute) and v.attr == "__class__" and self.is_node(v.value):
                return ("clsName", False)
            if isinstance(v, ast.Call) and not v.keywords and len(v.args) == 1 \
                    and self.is_node(v.args[0]) and self.obj_of(v.func, {}) is builtins.type:
                return ("clsName", False)
        return None

    def call(self, n, locs):
        func = n.func
        m = self.self_method(func)
        if m in ("rec", "rec_with_force_parens_around"):
            x, p, force = self.rec_call(n)
            f = self.node_field(x)
            if f is None:
                self.fail("recursion into something that is not expr.<field>", n)
            return "s", ("recF", f, p, force)
        if m == "format":
            if n.keywords or not n.args or self.str_const(n.args[0]) is None \
                    or any(isinstance(a, ast.Starred) for a in n.args):
                self.fail("self.format without a literal template / with star arguments", n)
            parts = parse_percent(n.args[0].value, self.where())
            if holes(parts) != len(n.args) - 1:
                self.fail("number of slots differs from the number of arguments", n)
            return "s", ("fmt", self.tmpl(parts), [self.sexpr(a, locs) for a in n.args[1:]])
        if m == "join_rec":
            self.passes_on(n, 3, "join_rec")
            sep = self.str_const(n.args[0])
            if sep is None:
                self.fail("join_rec without a literal separator", n)
            return "s", ("join", self.lit(sep)[1],
                         ("recEach", self.iter_of(n.args[1]), self.prec(n.args[2]), True))
        if m == "join":
            if n.keywords or len(n.args) != 2 or self.str_const(n.args[0]) is None:
                self.fail("self.join without a literal separator", n)
            return "s", ("join", self.lit(n.args[0].value)[1], self.lexpr(n.args[1], locs))
        if m == "parenthesize":
            if n.keywords or len(n.args) != 1:
                self.fail("self.parenthesize with other than one argument", n)
            return "s", ("parens", self.sexpr(n.args[0], locs))
        if m == "parenthesize_if_needed":
            if n.keywords or len(n.args) != 3 or not self.is_name(n.args[1], self.enc_name):
                self.fail("parenthesize_if_needed not called as (s, enclosing_prec, PREC)", n)
            return "s", ("parenIf", self.sexpr(n.args[0], locs), self.prec(n.args[2]))
        if m is not None:
            self.fail("call of another mapper method inside an expression", n)
        # "…".format(a, b) / ", ".join(xs) / <class name>.lower()
        if isinstance(func, ast.Attribute) and self.str_const(func.value) is not None:
            if func.attr == "format" and not n.keywords \
                    and not any(isinstance(a, ast.Starred) for a in n.args):
                parts = parse_braces(func.value.value, self.where())
                if holes(parts) != len(n.args):
                    self.fail("number of slots differs from the number of arguments", n)
                return "s", ("fmt", self.tmpl(parts), [self.sexpr(a, locs) for a in n.args])
            if func.attr == "join" and not n.keywords and len(n.args) == 1:
                return "s", ("join", self.lit(func.value.value)[1], self.lexpr(n.args[0], locs))
            self.fail("string method outside the handler language", n)
        if isinstance(func, ast.Attribute) and func.attr == "lower" and not n.args \
                and not n.keywords and self.class_name(func.value) is not None:
            return "s", ("clsName", True)
        obj = self.obj_of(func, locs)
        if obj in (builtins.str, builtins.repr) and not n.keywords and len(n.args) == 1 \
                and self.is_node(n.args[0]):
            return "c", ("strSelf", obj is builtins.repr)
        if obj in (builtins.tuple, builtins.list) and not n.keywords and len(n.args) == 1:
            return "l", self.lexpr(n.args[0], locs)
        self.fail("call outside the handler language", n)

    # -- statements ----------------------------------------------------------------------------
    def skip(self, st):
        if isinstance(st, (ast.Import, ast.ImportFrom)):
            self.do_import(st)
            return True
        if isinstance(st, ast.Expr) and isinstance(st.value, ast.Constant) \
                and isinstance(st.value.value, str):
            return True
        return isinstance(st, ast.Pass)

    def delegation(self, n):
        m = self.self_method(n.func) if isinstance(n, ast.Call) else None
        if m is None or not m.startswith("map_"):
            return None
        if self.enc_name is None:
            self.passes_on(n, 1, "delegation")
            if not self.is_node(n.args[0]):
                self.fail("delegation does not pass expr on", n)
            return m
        self.passes_on(n, 2, "delegation")
        if not self.is_node(n.args[0]) or not self.is_name(n.args[1], self.enc_name):
            self.fail("delegation does not pass (expr, enclosing_prec) on", n)
        return m

    def single_assign(self, stmts):
        """[`x = e`] -> (x, e)"""
        stmts = [s for s in stmts if not self.skip(s)]
        if len(stmts) == 1 and isinstance(stmts[0], ast.Assign) and len(stmts[0].targets) == 1 \
                and isinstance(stmts[0].targets[0], ast.Name):
            return stmts[0].targets[0].id, stmts[0].value
        return None

    def slice_loop(self, st, nxt, locs):
        """`x = []` followed by
             for c in IT:
                 if c is None: x.append(LIT)
                 else: x.append(self.rec(c, P, *args, **kwargs))"""
        if not (isinstance(st, ast.Assign) and len(st.targets) == 1
                and isinstance(st.targets[0], ast.Name) and isinstance(st.value, ast.List)
                and not st.value.elts and isinstance(nxt, ast.For)):
            return None
        x = st.targets[0].id
        if nxt.orelse or not isinstance(nxt.target, ast.Name) or len(nxt.body) != 1 \
                or not isinstance(nxt.body[0], ast.If):
            self.fail("loop outside the handler language", nxt)
        c, branch = nxt.target.id, nxt.body[0]
        t = branch.test

        def appended(stmts):
            if len(stmts) == 1 and isinstance(stmts[0], ast.Expr) \
                    and isinstance(stmts[0].value, ast.Call):
                call = stmts[0].value
                if isinstance(call.func, ast.Attribute) and call.func.attr == "append" \
                        and self.is_name(call.func.value, x) and len(call.args) == 1 \
                        and not call.keywords:
                    return call.args[0]
            self.fail(f"loop branch is not a single {x}.append(…)", branch)
        if not (isinstance(t, ast.Compare) and len(t.ops) == 1 and isinstance(t.ops[0], ast.Is)
                and self.is_name(t.left, c) and isinstance(t.comparators[0], ast.Constant)
                and t.comparators[0].value is None):
            self.fail("loop test is not `<element> is None`", t)
        a, b = appended(branch.body), appended(branch.orelse)
        if self.str_const(a) is None:
            self.fail("a `None` element is not printed as a literal", a)
        rc = self.rec_call(b)
        if rc is None or not self.is_name(rc[0], c) or rc[2]:
            self.fail("the loop does not recurse (plainly) into the element", b)
        return x, ("recEachOpt", self.iter_of(nxt.iter), rc[1], self.lit(a.value)[1])

    def prog(self, stmts, locs):
        stmts = list(stmts)
        while stmts and self.skip(stmts[0]):
            stmts.pop(0)
        if not stmts:
            self.fail("control reaches the end of the handler (implicit `return None`)")
        st, rest = stmts[0], stmts[1:]
        if isinstance(st, ast.Return):
            if any(not self.skip(r) for r in rest):
                self.fail("statements after return", rest[0])
            if st.value is None:
                self.fail("bare return", st)
            d = self.delegation(st.value)
            if d is not None:
                return ("delegate", d)
            return ("ret", self.sexpr(st.value, locs))
        if isinstance(st, ast.Raise):
            e = st.exc.func if isinstance(st.exc, ast.Call) else st.exc
            if not isinstance(e, (ast.Name, ast.Attribute)):
                self.fail("raise of something that is not an exception class / call", st)
            return ("raise", e.id if isinstance(e, ast.Name) else e.attr)
        if isinstance(st, ast.Assign) and len(st.targets) == 1:
            tg = st.targets[0]
            # kwargs["force_parens_around"] = (classes)
            if isinstance(tg, ast.Subscript) and self.is_name(tg.value, self.kwarg):
                if self.str_const(tg.slice) != self.force_kw:
                    self.fail(f"assignment to a keyword other than {self.force_kw!r}", st)
                cls = self.classes(st.value, locs)
                self.force_set = True
                return ("setForce", cls, self.prog(rest, locs))
            if isinstance(tg, ast.Name):
                if tg.id in (self.self_name, self.node_name, self.enc_name, self.vararg, self.kwarg):
                    self.fail("handler rebinds a parameter", st)
                if rest:
                    sl = self.slice_loop(st, rest[0], locs)
                    if sl is not None:
                        return ("assign", sl[0], sl[1], self.prog(rest[1:], {**locs, sl[0]: "l"}))
                t, e = self.expr(st.value, locs)
                return ("assign", tg.id, e, self.prog(rest, {**locs, tg.id: t}))
            self.fail("assignment outside the handler language", st)
        if isinstance(st, ast.If):
            c = self.cond(st.test, locs)
            if st.orelse:
                a, b = self.single_assign(st.body), self.single_assign(st.orelse)
                if a is not None and b is not None and a[0] == b[0]:
                    ta, ea = self.expr(a[1], locs)
                    tb, eb = self.expr(b[1], locs)
                    if ta != tb:
                        self.fail("the two branches assign values of different kinds", st)
                    return ("assign", a[0], ("cond", c, ea, eb),
                            self.prog(rest, {**locs, a[0]: ta}))
                if any(not self.skip(r) for r in rest):
                    self.fail("statements after an if/else that does not just assign", rest[0])
                return ("ite", c, self.prog(st.body, locs), self.prog(st.orelse, locs))
            body = [s for s in st.body if not self.skip(s)]
            # if c: x += e
            if len(body) == 1 and isinstance(body[0], ast.AugAssign) \
                    and isinstance(body[0].op, ast.Add) and isinstance(body[0].target, ast.Name) \
                    and locs.get(body[0].target.id) == "s":
                x = body[0].target.id
                e = self.sexpr(body[0].value, locs)
                return ("assign", x, ("cond", c, ("cat", ("var", x), e), ("var", x)),
                        self.prog(rest, locs))
            return ("ite", c, self.prog(st.body, locs), self.prog(rest, locs))
        self.fail("statement outside the handler language", st)

    def read(self):
        return self.prog(body_of(self.tree), {})


# ---- helpers ----------------------------------------------------------------------------------------

def expect_same(fn, expected_src, what):
    """the function's body is, statement for statement, `expected_src` (docstrings aside)"""
    tree, fn = function_ast(fn)
    exp = ast.parse(expected_src).body[0]
    if dump(tree.args) != dump(exp.args) or [dump(s) for s in body_of(tree)] != \
            [dump(s) for s in body_of(exp)]:
        raise ExtractError(f"{fn.__qualname__}: {what} is not\n{expected_src}")


def single_template(n, var, where):
    """f"…{var}…" with exactly one slot"""
    if not isinstance(n, ast.JoinedStr):
        raise ExtractError(f"{where}: not an f-string at `{short(n)}`")
    parts, lit, nholes = [], "", 0
    for v in n.values:
        if isinstance(v, ast.Constant) and isinstance(v.value, str):
            lit += v.value
        elif isinstance(v, ast.FormattedValue) and v.conversion == -1 and v.format_spec is None \
                and isinstance(v.value, ast.Name) and v.value.id == var:
            if lit:
                parts.append(("lit", lit))
                lit = ""
            parts.append(("hole",))
            nholes += 1
        else:
            raise ExtractError(f"{where}: f-string uses something other than {var}")
    if lit:
        parts.append(("lit", lit))
    if nholes != 1:
        raise ExtractError(f"{where}: the wrapped string does not occur exactly once")
    return parts


def read_helpers(SM):
    expect_same(SM.format, "def format(self, s, *args):\n    return s % args\n", "format")
    expect_same(SM.join, "def join(self, joiner, iterable):\n"
                "    return self.format(joiner.join('%s' for _ in iterable), *iterable)\n", "join")
    expect_same(SM.join_rec,
                "def join_rec(self, joiner, iterable, prec, *args, **kwargs):\n"
                "    f = joiner.join('%s' for _ in iterable)\n"
                "    return self.format(f,\n"
                "            *[self.rec_with_force_parens_around(i, prec, *args, **kwargs)\n"
                "                for i in iterable])\n", "join_rec")
    # parenthesize(self, s): return f"({s})"
    tree, fn = function_ast(SM.parenthesize)
    b = body_of(tree)
    if [a.arg for a in tree.args.args] != ["self", "s"] or tree.args.vararg or tree.args.kwarg \
            or len(b) != 1 or not isinstance(b[0], ast.Return):
        raise ExtractError(f"{fn.__qualname__}: not `def parenthesize(self, s): return f'…'`")
    parenthesize = single_template(b[0].value, "s", fn.__qualname__)
    # parenthesize_if_needed
    tree, fn = function_ast(SM.parenthesize_if_needed)
    b = body_of(tree)
    w = fn.__qualname__
    if [a.arg for a in tree.args.args] != ["self", "s", "enclosing_prec", "my_prec"] \
            or tree.args.vararg or tree.args.kwarg or tree.args.defaults \
            or len(b) != 1 or not isinstance(b[0], ast.If):
        raise ExtractError(f"{w}: unexpected signature / body")
    st = b[0]
    t = st.test
    if not (isinstance(t, ast.Compare) and len(t.ops) == 1 and type(t.ops[0]) in CMPS
            and isinstance(t.left, ast.Name) and t.left.id == "enclosing_prec"
            and isinstance(t.comparators[0], ast.Name) and t.comparators[0].id == "my_prec"):
        raise ExtractError(f"{w}: test is not `enclosing_prec <cmp> my_prec`")
    if not (len(st.body) == 1 and isinstance(st.body[0], ast.Return) and len(st.orelse) == 1
            and isinstance(st.orelse[0], ast.Return) and isinstance(st.orelse[0].value, ast.Name)
            and st.orelse[0].value.id == "s"):
        raise ExtractError(f"{w}: branches are not `return f'…'` / `return s`")
    paren_if = (CMPS[type(t.ops[0])], single_template(st.body[0].value, "s", w))
    # rec_with_force_parens_around
    tree, fn = function_ast(SM.rec_with_force_parens_around)
    b = body_of(tree)
    w = fn.__qualname__
    a = tree.args
    if [x.arg for x in a.args] != ["self", "expr"] or a.vararg is None or a.kwarg is None \
            or a.vararg.arg != "args" or a.kwarg.arg != "kwargs" or len(b) != 4:
        raise ExtractError(f"{w}: unexpected signature / number of statements")
    s0, s1, s2, s3 = b
    # X = kwargs.pop("kw", ())
    ok = (isinstance(s0, ast.Assign) and len(s0.targets) == 1 and isinstance(s0.targets[0], ast.Name)
          and isinstance(s0.value, ast.Call) and isinstance(s0.value.func, ast.Attribute)
          and s0.value.func.attr == "pop" and isinstance(s0.value.func.value, ast.Name)
          and s0.value.func.value.id == "kwargs" and len(s0.value.args) == 2
          and not s0.value.keywords and isinstance(s0.value.args[0], ast.Constant)
          and isinstance(s0.value.args[0].value, str) and isinstance(s0.value.args[1], ast.Tuple))
    if not ok:
        raise ExtractError(f"{w}: first statement is not `X = kwargs.pop('<keyword>', (…))`")
    fvar, kw = s0.targets[0].id, s0.value.args[0].value
    default = []
    for e in s0.value.args[1].elts:
        raise ExtractError(f"{w}: non-empty default class tuple at `{short(e)}`")
    exp1 = ast.parse("result = self.rec(expr, *args, **kwargs)").body[0]
    if dump(s1) != dump(exp1):
        raise ExtractError(f"{w}: second statement is not `result = self.rec(expr, *args, **kwargs)`")
    ok = (isinstance(s2, ast.If) and not s2.orelse and len(s2.body) == 1
          and dump(s2.test) == dump(ast.parse(f"isinstance(expr, {fvar})").body[0].value)
          and isinstance(s2.body[0], ast.Assign) and len(s2.body[0].targets) == 1
          and isinstance(s2.body[0].targets[0], ast.Name) and s2.body[0].targets[0].id == "result")
    if not ok:
        raise ExtractError(f"{w}: third statement is not `if isinstance(expr, {fvar}): result = f'…'`")
    wrap = single_template(s2.body[0].value, "result", w)
    if dump(s3) != dump(ast.parse("def f():\n return result").body[0].body[0]):
        raise ExtractError(f"{w}: does not end in `return result`")
    return dict(parenthesize=parenthesize, parenIfCmp=paren_if[0], parenIfWrap=paren_if[1],
                forceKw=kw, forceDefault=default, forceWrap=wrap)


def read_call(SM, Mapper, st):
    """StringifyMapper.__call__ -> default precedence; must delegate to Mapper.__call__"""
    tree, fn = function_ast(SM.__call__)
    w = fn.__qualname__
    a = tree.args
    if [x.arg for x in a.args] != ["self", "expr", "prec"] or len(a.defaults) != 1 \
            or a.vararg is None or a.kwarg is None or a.kwonlyargs or a.posonlyargs:
        raise ExtractError(f"{w}: signature is not (self, expr, prec=…, *args, **kwargs)")
    d = a.defaults[0]
    if not (isinstance(d, ast.Name) and d.id.startswith("PREC_") and hasattr(st, d.id)
            and fn.__globals__.get(d.id) is getattr(st, d.id)):
        raise ExtractError(f"{w}: default of prec is not a precedence constant")
    b = body_of(tree)
    exp = ast.parse("def f():\n return Mapper.__call__(self, expr, prec, *args, **kwargs)").body[0].body[0]
    if len(b) != 1 or dump(b[0]) != dump(exp) or fn.__globals__.get("Mapper") is not Mapper:
        raise ExtractError(f"{w}: body is not `return Mapper.__call__(self, expr, prec, *args, **kwargs)`")
    return (d.id, 0)


def rec_owner(mapper):
    for k in mapper.__mro__:
        if "rec" in k.__dict__:
            if k.__dict__["rec"] is not k.__dict__.get("__call__"):
                raise ExtractError(f"{k.__name__}.rec is not {k.__name__}.__call__")
            return k.__name__
    raise ExtractError(f"{mapper.__name__} has no rec")


def read_str_entry(prim, st):
    """Expression.__str__ / make_stringifier -> (mapper class, precedence passed)"""
    tree, fn = function_ast(prim.Expression.__str__)
    b = [s for s in body_of(tree)]
    w = fn.__qualname__
    if len(b) != 2 or not isinstance(b[0], ast.ImportFrom) or not isinstance(b[1], ast.Return):
        raise ExtractError(f"{w}: not `from … import PREC_X; return self.make_stringifier()(self, PREC_X)`")
    names = {al.asname or al.name: al.name for al in b[0].names}
    if b[0].module != st.__name__ or b[0].level:
        raise ExtractError(f"{w}: precedence not imported from the stringifier module")
    c = b[1].value
    ok = (isinstance(c, ast.Call) and not c.keywords and len(c.args) == 2
          and isinstance(c.args[0], ast.Name) and c.args[0].id == "self"
          and isinstance(c.args[1], ast.Name) and c.args[1].id in names
          and dump(c.func) == dump(ast.parse("self.make_stringifier()").body[0].value))
    if not ok:
        raise ExtractError(f"{w}: does not return self.make_stringifier()(self, PREC_X)")
    pname = names[c.args[1].id]
    if not pname.startswith("PREC_") or not hasattr(st, pname):
        raise ExtractError(f"{w}: {pname} is not a precedence constant")
    tree, fn = function_ast(prim.Expression.make_stringifier)
    b = body_of(tree)
    w = fn.__qualname__
    if len(b) != 2 or not isinstance(b[0], ast.ImportFrom) or not isinstance(b[1], ast.Return) \
            or b[0].module != st.__name__ or b[0].level:
        raise ExtractError(f"{w}: not `from <stringifier> import C; return C()`")
    names = {al.asname or al.name: al.name for al in b[0].names}
    c = b[1].value
    if not (isinstance(c, ast.Call) and not c.args and not c.keywords
            and isinstance(c.func, ast.Name) and c.func.id in names):
        raise ExtractError(f"{w}: does not return an instance of an imported class")
    return names[c.func.id], (pname, 0)


# ---- the table ------------------------------------------------------------------------------------

def targets_of(p):
    k = p[0]
    if k == "delegate":
        return [p[1]]
    if k == "assign":
        return targets_of(p[3])
    if k == "setForce":
        return targets_of(p[2])
    if k == "ite":
        return targets_of(p[2]) + targets_of(p[3])
    return []


def expand_classes(p, prim):
    """replace the class objects of every `setForce` by (names as written, IR classes that are
    instances)"""
    k = p[0]
    if k == "setForce":
        cls = p[1]
        raw = [c.__name__ for c in cls]
        inst = [n for n in IR_CLASSES if issubclass(getattr(prim, n), tuple(cls))]
        inst += [n for n, t in FOREIGN_KINDS.items() if cls and issubclass(t, tuple(cls))]
        return ("setForce", raw, inst, expand_classes(p[2], prim))
    if k == "assign":
        return ("assign", p[1], p[2], expand_classes(p[3], prim))
    if k == "ite":
        return ("ite", p[1], expand_classes(p[2], prim), expand_classes(p[3], prim))
    return p


def stringifier_table(ctx=None):
    import pymbolic.mapper as pm
    import pymbolic.mapper.stringifier as st
    import pymbolic.primitives as prim
    check_repo(ctx, [pm, st, prim])
    SM = st.StringifyMapper

    helpers = read_helpers(SM)
    literals = []
    for key in ("parenthesize", "parenIfWrap", "forceWrap"):
        literals += [p[1] for p in helpers[key] if p[0] == "lit"]

    classes, reached = [], []
    for name in IR_CLASSES:
        cls = getattr(prim, name, None)
        if cls is None or not dataclasses.is_dataclass(cls):
            raise ExtractError(f"pymbolic.primitives.{name} is not a dataclass node class")
        h = resolve_handler(cls, SM)
        mm = cls.mapper_method
        if not isinstance(mm, str):
            raise ExtractError(f"{name}.mapper_method is not a string")
        classes.append(dict(cls=name, fields=[f.name for f in dataclasses.fields(cls)],
                            mapperMethod=mm, handler=h))
        if h is not None:
            reached.append(h)

    foreign, foreign_else = read_map_foreign(SM.map_foreign)
    reached += [h for k, h in foreign if k != "numpy"]

    handlers, unmodelled = {}, []
    must = set(dict.fromkeys(reached))
    every = [n for n in dir(SM) if n.startswith("map_") and n != "map_foreign"
             and inspect.isfunction(getattr(SM, n))]
    queue = list(dict.fromkeys(reached)) + [n for n in every if n not in must]
    while queue:
        h = queue.pop(0)
        if h in handlers or any(h == u for u, _ in unmodelled):
            continue
        fn = getattr(SM, h, None)
        try:
            if fn is None:
                raise ExtractError(f"the printer has no handler {h}")
            rd = Reader(fn, st, SM, helpers["forceKw"])
            body = expand_classes(rd.read(), prim)
        except ExtractError as e:
            if h in must:
                raise
            unmodelled.append((h, str(e)))
            continue
        handlers[h] = dict(name=h, definedIn=rd.fn.__qualname__, body=body, literals=rd.literals)
        for t in targets_of(body):
            if h in must and t not in must:
                must.add(t)
                unmodelled = [(u, r) for u, r in unmodelled if u != t]
                handlers.pop(t, None)
            if t not in handlers:
                queue.insert(0, t)
    order = sorted(handlers, key=lambda h: (h not in must, h))
    for h in order:
        literals += handlers[h]["literals"]

    const_samples = [("int", 0), ("bool", True), ("float", 0.5), ("str", "s"), ("NoneType", None)]
    const_kinds = [k for k, v in const_samples if isinstance(v, prim.VALID_CONSTANT_CLASSES)]
    str_cls, str_prec = read_str_entry(prim, st)
    return dict(
        mapper=SM.__name__, classes=classes, handlers=[handlers[h] for h in order],
        unmodelled=sorted(unmodelled), helpers=helpers, foreign=foreign, foreignElse=foreign_else,
        constKinds=const_kinds, callDefaultPrec=read_call(SM, pm.Mapper, st),
        strEntry=(str_cls, str_prec), recOwner=rec_owner(SM),
        literals=list(dict.fromkeys(literals)), reached=sorted(must))


# ---- Lean output ----------------------------------------------------------------------------------

def q(s):
    out = ['"']
    for ch in s:
        if ch == "\\":
            out.append("\\\\")
        elif ch == '"':
            out.append('\\"')
        elif ch == "\n":
            out.append("\\n")
        elif ch == "\t":
            out.append("\\t")
        elif 32 <= ord(ch) < 127:
            out.append(ch)
        else:
            out.append("\\u{%x}" % ord(ch))
    out.append('"')
    return "".join(out)


def lb(b):
    return "true" if b else "false"


def l_strs(xs):
    return "[" + ", ".join(q(x) for x in xs) + "]"


def l_pairs(xs):
    return "[" + ", ".join(f"({q(a)}, {q(b)})" for a, b in xs) + "]"


def l_prec(p):
    return f"⟨{q(p[0])}, {p[1]}⟩"


def l_tmpl(parts):
    return "[" + ", ".join(f".lit {q(p[1])}" if p[0] == "lit" else ".hole" for p in parts) + "]"


def l_iter(it):
    return ".self" if it[0] == "self" else f"(.field {q(it[1])})"


def l_cond(c):
    k = c[0]
    if k == "precCmp":
        return f"(.precCmp .{c[1]} {l_prec(c[2])} {l_prec(c[3])})"
    if k == "isTuple":
        return f"(.isTuple {q(c[1])})"
    if k == "lenEq":
        return f"(.lenEq {l_iter(c[1])} {c[2]})"
    if k == "typeIs":
        return f"(.typeIs {q(c[1])})"
    if k in ("startsWith", "endsWith", "litIn"):
        return f"(.{k} {q(c[1])} {q(c[2])})"
    if k == "not":
        return f"(.not {l_cond(c[1])})"
    if k in ("and", "or"):
        return f"(.{k} {l_cond(c[1])} {l_cond(c[2])})"
    raise ExtractError(f"internal: no Lean form for condition {k}")


def l_expr(e):
    k = e[0]
    if k == "lit":
        return f"(.lit {q(e[1])})"
    if k == "var":
        return f"(.var {q(e[1])})"
    if k == "strSelf":
        return f"(.strSelf {lb(e[1])})"
    if k == "attr":
        return f"(.attr {q(e[1])})"
    if k == "clsName":
        return f"(.clsName {lb(e[1])})"
    if k == "recF":
        return f"(.recF {q(e[1])} {l_prec(e[2])} {lb(e[3])})"
    if k == "fmt":
        return f"(.fmt {l_tmpl(e[1])} [{', '.join(l_expr(a) for a in e[2])}])"
    if k in ("cat", "append"):
        return f"(.{k} {l_expr(e[1])} {l_expr(e[2])})"
    if k == "join":
        return f"(.join {q(e[1])} {l_expr(e[2])})"
    if k == "parens":
        return f"(.parens {l_expr(e[1])})"
    if k == "parenIf":
        return f"(.parenIf {l_expr(e[1])} {l_prec(e[2])})"
    if k == "cond":
        return f"(.cond {l_cond(e[1])} {l_expr(e[2])} {l_expr(e[3])})"
    if k == "recEach":
        return f"(.recEach {l_iter(e[1])} {l_prec(e[2])} {lb(e[3])})"
    if k == "recEachOpt":
        return f"(.recEachOpt {l_iter(e[1])} {l_prec(e[2])} {q(e[3])})"
    if k == "kwEach":
        return f"(.kwEach {l_tmpl(e[1])} {q(e[2])} {l_prec(e[3])})"
    if k == "zipEach":
        return f"(.zipEach {l_tmpl(e[1])} {q(e[2])} {q(e[3])} {l_prec(e[4])})"
    if k == "strEach":
        return f"(.strEach {l_tmpl(e[1])} {q(e[2])})"
    raise ExtractError(f"internal: no Lean form for {k}")


def l_prog(p, ind="        "):
    k = p[0]
    if k == "ret":
        return f"(.ret {l_expr(p[1])})"
    if k == "assign":
        return f"(.assign {q(p[1])} {l_expr(p[2])}\n{ind}{l_prog(p[3], ind)})"
    if k == "setForce":
        return f"(.setForce {l_strs(p[1])} {l_strs(p[2])}\n{ind}{l_prog(p[3], ind)})"
    if k == "ite":
        return (f"(.ite {l_cond(p[1])}\n{ind}  {l_prog(p[2], ind + '  ')}\n"
                f"{ind}  {l_prog(p[3], ind + '  ')})")
    if k == "raise":
        return f"(.raise {q(p[1])})"
    if k == "delegate":
        return f"(.delegate {q(p[1])})"
    raise ExtractError(f"internal: no Lean form for {k}")


def to_lean(t):
    cl = ",\n".join(
        "    { cls := %s, fields := %s, mapperMethod := %s, handler := %s }" % (
            q(c["cls"]), l_strs(c["fields"]), q(c["mapperMethod"]),
            "none" if c["handler"] is None else f"some {q(c['handler'])}")
        for c in t["classes"])
    hs = ",\n".join(
        "    { name := %s, definedIn := %s,\n      body := %s }" % (
            q(h["name"]), q(h["definedIn"]), l_prog(h["body"]))
        for h in t["handlers"])
    H = t["helpers"]
    return (
        "import PV.Model.StrTable\n"
        "/- GENERATED by extract/stringifier.py from the live source of the printer in /repo — "
        "do not edit. -/\n"
        "namespace PV.Generated\n\n"
        "def c06tTable : C06TTable := {\n"
        f"  mapper := {q(t['mapper'])},\n"
        f"  classes := [\n{cl}\n  ],\n"
        f"  handlers := [\n{hs}\n  ],\n"
        f"  unmodelled := {l_pairs(t['unmodelled'])},\n"
        "  helpers := {\n"
        f"    parenthesize := {l_tmpl(H['parenthesize'])},\n"
        f"    parenIfCmp := .{H['parenIfCmp']},\n"
        f"    parenIfWrap := {l_tmpl(H['parenIfWrap'])},\n"
        f"    forceKw := {q(H['forceKw'])},\n"
        f"    forceDefault := {l_strs(H['forceDefault'])},\n"
        f"    forceWrap := {l_tmpl(H['forceWrap'])} }},\n"
        f"  foreign := {l_pairs(t['foreign'])},\n"
        f"  foreignElse := {q(t['foreignElse'])},\n"
        f"  constKinds := {l_strs(t['constKinds'])},\n"
        f"  callDefaultPrec := {l_prec(t['callDefaultPrec'])},\n"
        f"  strEntry := ({q(t['strEntry'][0])}, {l_prec(t['strEntry'][1])}),\n"
        f"  recOwner := {q(t['recOwner'])},\n"
        f"  literals := {l_strs(t['literals'])}\n"
        "}\n\n"
        "end PV.Generated\n")


def extract_stringifier(ctx=None):
    t = stringifier_table(ctx)
    write_if_changed(os.path.join(LEAN, "PV", "Generated", "Stringifier.lean"), to_lean(t))
    return t


if __name__ == "__main__":
    import json
    import sys
    t = extract_stringifier({"repo": os.environ.get("REPO", "/repo")})
    json.dump(t, sys.stdout, indent=1, default=str)
