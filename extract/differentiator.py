"""T-gen for C10: regenerate lean/PV/Generated/Diff.lean from the SOURCE of
pymbolic/mapper/differentiator.py (and of pymbolic.functions for the helpers it inlines) in the
working tree given by ctx["repo"].

What is read (with `ast`; nothing is executed):

(a) `map_math_functions_by_name`: the `if/elif` chain `func == make_f(NAME) and len(pars) == K`,
    and for every branch the expression it returns as a small term (`C10Tm`, PV/Model/DiffTable.lean)
    over `pars`: `make_f(n)(*pars)`, `pars[i]`, int literals, unary minus, `+ - * / **`,
    `primitives.quotient(1, t)`, helpers imported from `pymbolic.functions` (inlined from THEIR
    source), the non-smoothness gate (`allowed_nonsmoothness in [...]` / `== "..."`) and the error
    class raised in the `else`, and the final `else: raise`.
(b) the class `DifferentiationMapper`: bases, `__init__` (accepted settings), `rec_undiff`, every
    `map_*` handler reduced to a rule shape (`C10Shape`): which children are differentiated and how
    they are combined; for `map_quotient` / `map_power` the whole branch chain as terms over the
    locals `f g df dg`; for `map_if` the gate; for `map_common_subexpression_uncached` the test
    `primitives.is_zero(<the child's derivative>)` and the int literal answered when it holds
    (`cseZero`; `is_zero` / `is_nonzero` themselves are read from pymbolic/primitives.py and must
    be `not bool(x)`); and the entry point `differentiate`.

A shape this reader does not understand is an `ExtractError` (reported by the check as a broken
obligation) — never a default, never a guess.  The Lean side
(PV/Proofs/DiffTableCurrent.lean) proves that the table, interpreted, IS the hand-written model.
"""
from __future__ import annotations

import ast
import os

from harness.leanio import LEAN

from .prec import write_if_changed


class ExtractError(Exception):
    pass


# {{{ a small pattern matcher on Python ASTs

# In a pattern, an identifier `M_x` (variable name, attribute name, argument name) is a
# metavariable binding an identifier; a name `T_x` binds an arbitrary expression subtree.  A
# metavariable that occurs twice must bind the same thing.

def _bind(b, key, val):
    if isinstance(val, ast.AST):
        val_key = ast.dump(val)
        if key in b:
            return ast.dump(b[key]) == val_key
        b[key] = val
        return True
    if key in b:
        return b[key] == val
    b[key] = val
    return True


def amatch(pat, node, b):
    if isinstance(pat, ast.Name) and pat.id.startswith("T_"):
        return isinstance(node, ast.expr) and _bind(b, pat.id, node)
    if isinstance(pat, list):
        return (isinstance(node, list) and len(pat) == len(node)
                and all(amatch(p_, n_, b) for p_, n_ in zip(pat, node)))
    if isinstance(pat, ast.AST):
        if type(pat) is not type(node):
            return False
        for field, pv in ast.iter_fields(pat):
            if field in ("type_comment", "kind", "type_params"):
                continue
            if not amatch(pv, getattr(node, field, None), b):
                return False
        return True
    if isinstance(pat, str) and pat.startswith("M_"):
        return isinstance(node, str) and _bind(b, pat, node)
    return type(pat) is type(node) and pat == node


def pexpr(src):
    return ast.parse(src, mode="eval").body


def pstmts(src):
    return ast.parse(src).body


def match_expr(src, node, b=None):
    b = {} if b is None else b
    return b if amatch(pexpr(src), node, b) else None


def match_stmts(src, nodes, b=None):
    b = {} if b is None else b
    return b if amatch(pstmts(src), list(nodes), b) else None


def show(node):
    try:
        return ast.unparse(node)[:160]
    except Exception:
        return ast.dump(node)[:160]

# }}}

BINOPS = {ast.Add: "add", ast.Sub: "sub", ast.Mult: "mul", ast.Div: "truediv", ast.Pow: "pow",
          ast.FloorDiv: "floordiv", ast.Mod: "mod"}
ERRORS = {"ValueError": "valueError", "RuntimeError": "runtimeError", "TypeError": "typeError",
          "AttributeError": "attributeError", "NotImplementedError": "notImplemented"}
SMOOTH = {"none": "Smooth.none", "continuous": "Smooth.continuous",
          "discontinuous": "Smooth.discontinuous"}
SLOTS = ["f", "g", "df", "dg"]


def is_int(node):
    return (isinstance(node, ast.Constant) and isinstance(node.value, int)
            and not isinstance(node.value, bool))


def lean_int(n):
    return f"({n})" if n < 0 else str(n)


def lean_str(s):
    if not all(32 <= ord(c) < 127 and c not in '"\\' for c in s):
        raise ExtractError(f"identifier {s!r} cannot be written as a Lean string literal")
    return f'"{s}"'


def lean_list(items):
    return "[" + ", ".join(items) + "]"


def body_wo_doc(fn):
    body = list(fn.body)
    if body and isinstance(body[0], ast.Expr) and isinstance(body[0].value, ast.Constant) \
            and isinstance(body[0].value.value, str):
        body = body[1:]
    return body


def raised_error(stmt, what):
    b = {}
    if not (isinstance(stmt, ast.Raise) and stmt.cause is None
            and isinstance(stmt.exc, ast.Call) and isinstance(stmt.exc.func, ast.Name)
            and len(stmt.exc.args) == 1 and not stmt.exc.keywords):
        raise ExtractError(f"{what}: expected `raise <Error>(<message>)`, got {show(stmt)}")
    name = stmt.exc.func.id
    if name not in ERRORS:
        raise ExtractError(f"{what}: raises {name}, an error class the model has no name for")
    return "." + ERRORS[name]


def str_list(node, what):
    if not (isinstance(node, (ast.List, ast.Tuple)) and all(
            isinstance(e, ast.Constant) and isinstance(e.value, str) for e in node.elts)):
        raise ExtractError(f"{what}: expected a list of string literals, got {show(node)}")
    return [e.value for e in node.elts]


def smooth_list(names, what):
    for n in names:
        if n not in SMOOTH:
            raise ExtractError(f"{what}: unknown non-smoothness setting {n!r}")
    return lean_list([SMOOTH[n] for n in names])


def gate_allowed(test, var_src, what):
    """settings for which `test` is TRUE, for the shapes `<var> in [..]`, `<var> == ".."`"""
    b = match_expr(f"{var_src} in T_l", test)
    if b is not None:
        return str_list(b["T_l"], what)
    b = match_expr(f"{var_src} == T_s", test)
    if b is not None and isinstance(b["T_s"], ast.Constant) and isinstance(b["T_s"].value, str):
        return [b["T_s"].value]
    raise ExtractError(f"{what}: cannot read the non-smoothness test {show(test)}")


def gate_refused(test, var_src, what):
    """settings that PASS a guard `if <test>: raise`, for `<var> != ".."`, `<var> not in [..]`"""
    b = match_expr(f"{var_src} not in T_l", test)
    if b is not None:
        return str_list(b["T_l"], what)
    b = match_expr(f"{var_src} != T_s", test)
    if b is not None and isinstance(b["T_s"], ast.Constant) and isinstance(b["T_s"].value, str):
        return [b["T_s"].value]
    raise ExtractError(f"{what}: cannot read the non-smoothness guard {show(test)}")


# {{{ (a) the function table

def read_helper(functions_tree, name, what):
    """a helper of pymbolic.functions of the shape
    `def h(x, …): return p.Call(p.Lookup(p.Variable(MOD), NAME), (args…))`
    -> (MOD, NAME, [("int", n) | ("par", i)])"""
    prims = None
    for st in functions_tree.body:
        if isinstance(st, ast.Import):
            for al in st.names:
                if al.name == "pymbolic.primitives" and al.asname:
                    prims = al.asname
    fn = [st for st in functions_tree.body if isinstance(st, ast.FunctionDef) and st.name == name]
    if prims is None or len(fn) != 1:
        raise ExtractError(f"{what}: pymbolic.functions.{name} not found (or primitives not imported)")
    fn = fn[0]
    a = fn.args
    if a.vararg or a.kwarg or a.kwonlyargs or a.defaults or a.posonlyargs or fn.decorator_list:
        raise ExtractError(f"{what}: pymbolic.functions.{name} has an unexpected signature")
    params = [x.arg for x in a.args]
    body = body_wo_doc(fn)
    b = match_stmts(f"return {prims}.Call({prims}.Lookup({prims}.Variable(T_mod), T_name), T_args)",
                    body)
    if b is None or not all(isinstance(b[k], ast.Constant) and isinstance(b[k].value, str)
                            for k in ("T_mod", "T_name")) or not isinstance(b["T_args"], ast.Tuple):
        raise ExtractError(f"{what}: cannot read pymbolic.functions.{name}: {show(fn)}")
    args = []
    for e in b["T_args"].elts:
        if is_int(e):
            args.append(("int", e.value))
        elif isinstance(e, ast.Name) and e.id in params:
            args.append(("par", params.index(e.id)))
        else:
            raise ExtractError(f"{what}: argument {show(e)} of pymbolic.functions.{name}")
    return b["T_mod"].value, b["T_name"].value, args, len(params)


class FnCtx:
    def __init__(self, pars, arity, module, helpers, functions_tree, prim):
        self.pars, self.arity, self.module = pars, arity, module
        self.helpers, self.functions_tree, self.prim = helpers, functions_tree, prim


def fn_tm(node, c: FnCtx, what):
    """the term for an expression inside `map_math_functions_by_name`"""
    b = match_expr(f"make_f(T_n)(*{c.pars})", node)
    if b is not None and isinstance(b["T_n"], ast.Constant) and isinstance(b["T_n"].value, str):
        return f".mathCall {lean_str(b['T_n'].value)}"
    b = match_expr(f"M_h(*{c.pars})", node)
    if b is not None and b["M_h"] in c.helpers:
        mod, name, args, nparams = read_helper(c.functions_tree, b["M_h"], what)
        if mod != c.module:
            raise ExtractError(f"{what}: helper {b['M_h']} uses module {mod!r}, make_f uses {c.module!r}")
        if nparams != c.arity:
            raise ExtractError(f"{what}: helper {b['M_h']} takes {nparams} arguments, the branch has "
                               f"len(pars) == {c.arity}")
        items = [f".int {lean_int(v)}" if k == "int" else f".par {v}" for k, v in args]
        return f".mathCallOn {lean_str(name)} {lean_list(items)}"
    b = match_expr(f"{c.prim}.quotient(1, T_b)", node)
    if b is not None:
        return f".quotientOne ({fn_tm(b['T_b'], c, what)})"
    b = match_expr(f"{c.pars}[T_i]", node)
    if b is not None and is_int(b["T_i"]) and 0 <= b["T_i"].value < c.arity:
        return f".par {b['T_i'].value}"
    if is_int(node):
        return f".int {lean_int(node.value)}"
    if isinstance(node, ast.UnaryOp) and isinstance(node.op, ast.USub):
        return f".neg ({fn_tm(node.operand, c, what)})"
    if isinstance(node, ast.BinOp) and type(node.op) in BINOPS:
        return (f".bin .{BINOPS[type(node.op)]} ({fn_tm(node.left, c, what)}) "
                f"({fn_tm(node.right, c, what)})")
    raise ExtractError(f"{what}: cannot read the expression {show(node)}")


def read_func_table(fn: ast.FunctionDef, functions_tree, prim):
    a = fn.args
    names = [x.arg for x in a.args]
    if (len(names) != 4 or a.vararg or a.kwarg or a.kwonlyargs or a.posonlyargs
            or len(a.defaults) != 1 or not isinstance(a.defaults[0], ast.Constant)
            or fn.decorator_list):
        raise ExtractError("map_math_functions_by_name: unexpected signature")
    _i, func, pars, ans = names
    default_setting = a.defaults[0].value
    body = body_wo_doc(fn)
    if len(body) != 2:
        raise ExtractError("map_math_functions_by_name: expected `def make_f` and one if-chain")
    b = match_stmts(f"def make_f(M_n):\n    return {prim}.Lookup({prim}.Variable(T_mod), M_n)",
                    body[:1])
    if b is None or not (isinstance(b["T_mod"], ast.Constant) and isinstance(b["T_mod"].value, str)):
        raise ExtractError(f"map_math_functions_by_name: cannot read make_f: {show(body[0])}")
    module = b["T_mod"].value
    entries = []
    seen = set()
    node = body[1]
    while True:
        if not isinstance(node, ast.If):
            raise ExtractError(f"map_math_functions_by_name: expected if/elif, got {show(node)}")
        b = match_expr(f"{func} == make_f(T_n) and len({pars}) == T_k", node.test)
        if b is None or not (isinstance(b["T_n"], ast.Constant) and isinstance(b["T_n"].value, str)
                             and is_int(b["T_k"]) and b["T_k"].value >= 0):
            raise ExtractError(f"map_math_functions_by_name: cannot read the test {show(node.test)}")
        name, arity = b["T_n"].value, b["T_k"].value
        what = f"map_math_functions_by_name[{name}/{arity}]"
        seen.add((name, arity))
        entries.append((name, arity, read_fn_body(node.body, name, arity, pars, ans, module,
                                                  functions_tree, prim, what)))
        if len(node.orelse) != 1:
            raise ExtractError(f"{what}: the chain must end in a single else/elif")
        nxt = node.orelse[0]
        if isinstance(nxt, ast.If):
            node = nxt
            continue
        fn_else = raised_error(nxt, "map_math_functions_by_name: final else")
        break
    return module, entries, fn_else, default_setting


def split_imports(stmts, what):
    helpers = []
    rest = []
    for st in stmts:
        if isinstance(st, ast.ImportFrom):
            if st.module != "pymbolic.functions" or st.level != 0 or any(al.asname for al in st.names):
                raise ExtractError(f"{what}: unexpected import {show(st)}")
            helpers += [al.name for al in st.names]
        else:
            rest.append(st)
    return helpers, rest


def read_fn_body(stmts, name, arity, pars, ans, module, functions_tree, prim, what):
    helpers, rest = split_imports(stmts, what)
    if len(rest) == 1 and isinstance(rest[0], ast.Return) and rest[0].value is not None:
        c = FnCtx(pars, arity, module, helpers, functions_tree, prim)
        return f".ret ({fn_tm(rest[0].value, c, what)})"
    if len(rest) == 1 and isinstance(rest[0], ast.If) and not helpers:
        gate = rest[0]
        allowed = gate_allowed(gate.test, ans, what)
        helpers, inner = split_imports(gate.body, what)
        if not (len(inner) == 1 and isinstance(inner[0], ast.Return) and inner[0].value is not None
                and len(gate.orelse) == 1):
            raise ExtractError(f"{what}: expected `if <gate>: return … else: raise …`")
        c = FnCtx(pars, arity, module, helpers, functions_tree, prim)
        t = fn_tm(inner[0].value, c, what)
        err = raised_error(gate.orelse[0], what)
        return f".gated {smooth_list(allowed, what)} ({t}) {err}"
    raise ExtractError(f"{what}: cannot read the branch body")

# }}}

# {{{ (b) the handlers

def handler_sig(fn, what):
    a = fn.args
    if (len(a.args) != 2 or a.vararg is None or a.kwarg or a.kwonlyargs or a.posonlyargs
            or a.defaults or fn.decorator_list or a.args[0].arg != "self"):
        raise ExtractError(f"{what}: expected the signature (self, expr, *args)")
    return a.args[1].arg, a.vararg.arg


def rule_tm(node, sym, args, what):
    """the term for a result expression of map_quotient / map_power"""
    if isinstance(node, ast.Name):
        v = sym.get(node.id)
        if v is None or v[0] != "slot":
            raise ExtractError(f"{what}: {node.id} is not one of the locals f, g, df, dg")
        return f".slot .{v[1]}"
    b = match_expr(f"self.rec(M_x, *{args})", node)
    if b is not None:
        v = sym.get(b["M_x"])
        if v is None or v[0] != "slot":
            raise ExtractError(f"{what}: self.rec of {b['M_x']}, which is not a local child")
        return f".recSlot .{v[1]}"
    if (isinstance(node, ast.Call) and isinstance(node.func, ast.Name) and not node.keywords
            and len(node.args) == 1 and sym.get(node.func.id, ("",))[0] == "varfn"):
        return (f".varCall {lean_str(sym[node.func.id][1])} "
                f"({rule_tm(node.args[0], sym, args, what)})")
    if is_int(node):
        return f".int {lean_int(node.value)}"
    if isinstance(node, ast.UnaryOp) and isinstance(node.op, ast.USub):
        return f".neg ({rule_tm(node.operand, sym, args, what)})"
    if isinstance(node, ast.BinOp) and type(node.op) in BINOPS:
        return (f".bin .{BINOPS[type(node.op)]} ({rule_tm(node.left, sym, args, what)}) "
                f"({rule_tm(node.right, sym, args, what)})")
    raise ExtractError(f"{what}: cannot read the expression {show(node)}")


def falsy_slots(test, sym, what):
    """`(not a) and (not b)` / `not a` -> the locals that must all be falsy"""
    conj = test.values if isinstance(test, ast.BoolOp) and isinstance(test.op, ast.And) else [test]
    out = []
    for c in conj:
        if not (isinstance(c, ast.UnaryOp) and isinstance(c.op, ast.Not)
                and isinstance(c.operand, ast.Name)
                and sym.get(c.operand.id, ("",))[0] == "slot"):
            raise ExtractError(f"{what}: cannot read the branch test {show(test)}")
        out.append("." + sym[c.operand.id][1])
    return lean_list(out)


def read_bin_rule(fn, what):
    """-> (shape text, rule text) or None if the prelude is not that of a two-child rule"""
    expr, args = handler_sig(fn, what)
    body = body_wo_doc(fn)
    sym = {}
    fields = []
    rec_order = []
    undiffed = []
    varfns = []
    i = 0
    while i < len(body) and isinstance(body[i], ast.Assign):
        st = [body[i]]
        b = match_stmts(f"M_x = {expr}.M_FIELD", st)
        if b is not None:
            if len(fields) >= 2:
                raise ExtractError(f"{what}: more than two children are read")
            sym[b["M_x"]] = ("slot", "f" if not fields else "g")
            fields.append(b["M_FIELD"])
            i += 1
            continue
        b = match_stmts(f"M_d = self.rec(M_x, *{args})", st)
        if b is not None and sym.get(b["M_x"], ("",))[0] == "slot" and sym[b["M_x"]][1] in ("f", "g") \
                and b["M_d"] != b["M_x"]:
            child = sym[b["M_x"]][1]
            if child in rec_order or child in undiffed:
                raise ExtractError(f"{what}: {child} is differentiated twice / after rec_undiff")
            rec_order.append(child)
            sym[b["M_d"]] = ("slot", "d" + child)
            i += 1
            continue
        b = match_stmts(f"M_y = self.rec_undiff(M_x, *{args})", st)
        if b is not None and sym.get(b["M_x"], ("",))[0] == "slot" and sym[b["M_x"]][1] in ("f", "g"):
            child = sym[b["M_x"]][1]
            undiffed.append(child)
            sym[b["M_y"]] = ("slot", child)
            i += 1
            continue
        b = match_stmts("M_l = pymbolic.var(T_s)", st)
        if b is not None and isinstance(b["T_s"], ast.Constant) and isinstance(b["T_s"].value, str):
            sym[b["M_l"]] = ("varfn", b["T_s"].value)
            varfns.append(b["T_s"].value)
            i += 1
            continue
        raise ExtractError(f"{what}: cannot read the statement {show(body[i])}")
    if len(fields) != 2:
        return None
    if sorted(undiffed) != ["f", "g"]:
        raise ExtractError(f"{what}: both children must go through rec_undiff exactly once")
    have = {v[1] for v in sym.values() if v[0] == "slot"}
    if have != set(SLOTS):
        raise ExtractError(f"{what}: the locals {sorted(set(SLOTS) - have)} are never bound")
    if len(body) != i + 1 or not isinstance(body[i], ast.If):
        raise ExtractError(f"{what}: expected one if/elif/else chain after the prelude")
    node = body[i]
    branches = []
    while True:
        if not (len(node.body) == 1 and isinstance(node.body[0], ast.Return)
                and node.body[0].value is not None):
            raise ExtractError(f"{what}: a branch must be a single `return <expr>`")
        branches.append(f"({falsy_slots(node.test, sym, what)}, "
                        f"{rule_tm(node.body[0].value, sym, args, what)})")
        if len(node.orelse) != 1:
            raise ExtractError(f"{what}: the chain must end in a single else")
        nxt = node.orelse[0]
        if isinstance(nxt, ast.If):
            node = nxt
            continue
        if not (isinstance(nxt, ast.Return) and nxt.value is not None):
            raise ExtractError(f"{what}: the else branch must be a single `return <expr>`")
        otherwise = rule_tm(nxt.value, sym, args, what)
        break
    shape = (f".binRule {lean_str(fields[0])} {lean_str(fields[1])} "
             f"{lean_list(['.' + s for s in rec_order])} {lean_list([lean_str(s) for s in varfns])}")
    rule = (".mk [\n      " + ",\n      ".join(branches) + "]\n      (" + otherwise + ")")
    return shape, rule


def read_rebuild(ret, expr, args, what, bound=None):
    """`type(expr)(part, …)` -> [(differentiated?, field)]; `bound` = (local, field): the local
    holds `self.rec(expr.<field>, *args)`"""
    if not (isinstance(ret, ast.Call) and not ret.keywords
            and match_expr(f"type({expr})", ret.func) is not None):
        return None
    parts = []
    for a in ret.args:
        b = match_expr(f"{expr}.M_F", a)
        if b is not None:
            parts.append((False, b["M_F"]))
            continue
        if bound is not None and isinstance(a, ast.Name) and a.id == bound[0]:
            parts.append((True, bound[1]))
            continue
        b = match_expr(f"self.rec({expr}.M_F, *{args})", a)
        if b is not None:
            if bound is not None:
                raise ExtractError(f"{what}: {show(a)} differentiates a child again after the "
                                   f"tested local {bound[0]} was bound")
            parts.append((True, b["M_F"]))
            continue
        raise ExtractError(f"{what}: cannot read the constructor argument {show(a)}")
    return parts


def parts_text(parts):
    return lean_list([f"({'true' if d else 'false'}, {lean_str(f)})" for d, f in parts])


def read_handler(fn, tbl):
    """-> shape text; fills tbl['constVal'/'varHit'/'varMiss'/'quot'/'pow'/'ifGate']"""
    name = fn.name
    what = f"DifferentiationMapper.{name}"
    expr, args = handler_sig(fn, what)
    body = body_wo_doc(fn)
    E, A = expr, args

    if name == "rec_undiff":
        if match_stmts(f"return {E}", body) is None:
            raise ExtractError(f"{what}: is not the identity (the rules assume it is)")
        return ".identity"
    if name in ("map_polynomial", "map_numpy_array"):
        return ".unmodelled"          # objects outside the tree model (no `Expr` constructor)

    # `return <int>`
    if len(body) == 1 and isinstance(body[0], ast.Return) and is_int(body[0].value):
        if "constVal" in tbl:
            raise ExtractError(f"{what}: a second constant handler")
        tbl["constVal"] = body[0].value.value
        return ".const"
    # `if expr == self.variable: return a else: return b`
    b = match_stmts(f"if {E} == self.variable:\n    return T_a\nelse:\n    return T_b", body)
    if b is not None and is_int(b["T_a"]) and is_int(b["T_b"]):
        if "varHit" in tbl:
            raise ExtractError(f"{what}: a second variable handler")
        tbl["varHit"], tbl["varMiss"] = b["T_a"].value, b["T_b"].value
        return ".eqVar"
    if len(body) == 1 and isinstance(body[0], ast.Return) and body[0].value is not None:
        ret = body[0].value
        b = match_expr(f"pymbolic.flattened_sum(self.rec(M_c, *{A}) for M_c in {E}.M_FIELD)", ret)
        if b is not None:
            return f".sumRec {lean_str(b['M_FIELD'])}"
        b = match_expr(
            "pymbolic.flattened_sum(pymbolic.flattened_product("
            f"[self.rec_undiff(M_ch, *{A}) for M_ch in {E}.M_FIELD[0:M_i]]"
            f" + [self.rec(M_c, *{A})]"
            f" + [self.rec_undiff(M_ch2, *{A}) for M_ch2 in {E}.M_FIELD[M_i+1:]])"
            f" for M_i, M_c in enumerate({E}.M_FIELD))", ret)
        if b is not None and len({b["M_i"], b["M_c"], b["M_ch"]}) == 3 and b["M_ch2"] not in (b["M_i"], b["M_c"]):
            return f".sumSplitProd {lean_str(b['M_FIELD'])}"
        b = match_expr(
            f"pymbolic.flattened_sum(self.function_map(M_i, {E}.M_FN, "
            f"self.rec_undiff({E}.M_PARS, *{A}), allowed_nonsmoothness=self.allowed_nonsmoothness)"
            f" * self.rec(M_p, *{A}) for M_i, M_p in enumerate({E}.M_PARS))", ret)
        if b is not None and b["M_i"] != b["M_p"]:
            return f".sumFnTimesRec {lean_str(b['M_FN'])} {lean_str(b['M_PARS'])}"
        parts = read_rebuild(ret, E, A, what)
        if parts is not None:
            if name == "map_common_subexpression_uncached":
                if "cseZero" in tbl:
                    raise ExtractError(f"{what}: a second CSE handler")
                tbl["cseZero"] = "none"       # wraps whatever the child's derivative is
            return f".rebuild false {parts_text(parts)}"
        raise ExtractError(f"{what}: cannot read `return {show(ret)}`")
    # `result = self.rec(expr.<fld>); if primitives.is_zero(result): return <int>;
    #  return type(expr)(result, …)`
    b = match_stmts(f"M_r = self.rec({E}.M_F, *{A})\n"
                    f"if {tbl['prim']}.is_zero(M_r):\n    return T_z\n"
                    "return T_ret\n", body)
    if b is not None:
        if b["M_r"] in (E, A, "self") or not is_int(b["T_z"]):
            raise ExtractError(f"{what}: cannot read the zero test / its answer {show(b['T_z'])}")
        parts = read_rebuild(b["T_ret"], E, A, what, bound=(b["M_r"], b["M_F"]))
        if parts is None:
            raise ExtractError(f"{what}: cannot read `return {show(b['T_ret'])}`")
        if [f for d, f in parts if d] != [b["M_F"]]:
            raise ExtractError(f"{what}: the tested derivative must be the one differentiated part")
        if name != "map_common_subexpression_uncached" or "cseZero" in tbl:
            raise ExtractError(f"{what}: a zero-tested rebuild other than the CSE handler")
        tbl["cseZero"] = f"some {lean_int(b['T_z'].value)}"
        return f".rebuildUnlessZero {parts_text(parts)}"
    # gate + rebuild
    if (len(body) == 2 and isinstance(body[0], ast.If) and not body[0].orelse
            and len(body[0].body) == 1 and isinstance(body[0].body[0], ast.Raise)
            and isinstance(body[1], ast.Return) and body[1].value is not None):
        passing = gate_refused(body[0].test, "self.allowed_nonsmoothness", what)
        err = raised_error(body[0].body[0], what)
        parts = read_rebuild(body[1].value, E, A, what)
        if parts is None:
            raise ExtractError(f"{what}: cannot read `return {show(body[1].value)}`")
        if name != "map_if" or "ifGate" in tbl:
            raise ExtractError(f"{what}: a gated handler other than map_if")
        tbl["ifGate"] = f"({smooth_list(passing, what)}, {err})"
        return f".rebuild true {parts_text(parts)}"
    # two-child rules
    r = read_bin_rule(fn, what)
    if r is not None:
        shape, rule = r
        key = {"map_quotient": "quot", "map_power": "pow"}.get(name)
        if key is None or key in tbl:
            raise ExtractError(f"{what}: a two-child rule the model has no place for")
        tbl[key] = rule
        return shape
    raise ExtractError(f"{what}: cannot read this handler")


def check_is_zero(prim_tree):
    """`primitives.is_zero(x)` must be `not bool(x)` (the model's `Expr.isZero`): read
    `is_zero` / `is_nonzero` from the source of pymbolic/primitives.py"""
    fns = {st.name: st for st in prim_tree.body if isinstance(st, ast.FunctionDef)}
    for need in ("is_zero", "is_nonzero"):
        if need not in fns:
            raise ExtractError(f"pymbolic.primitives.{need} not found")
    for fn in (fns["is_zero"], fns["is_nonzero"]):
        a = fn.args
        if (len(a.args) != 1 or a.vararg or a.kwarg or a.kwonlyargs or a.posonlyargs or a.defaults
                or fn.decorator_list):
            raise ExtractError(f"pymbolic.primitives.{fn.name}: unexpected signature")
    v = fns["is_zero"].args.args[0].arg
    if match_stmts(f"return not is_nonzero({v})", body_wo_doc(fns["is_zero"])) is None:
        raise ExtractError("pymbolic.primitives.is_zero is not `not is_nonzero(value)`")
    v = fns["is_nonzero"].args.args[0].arg
    if match_stmts(f"if {v} is None:\n    raise ValueError(T_msg)\n"
                   f"try:\n    return bool({v})\nexcept ValueError:\n    return True\n",
                   body_wo_doc(fns["is_nonzero"])) is None:
        raise ExtractError("pymbolic.primitives.is_nonzero is not `bool(value)` (None refused, "
                           "a ValueError from bool() counted as nonzero)")


def dotted(node):
    if isinstance(node, ast.Name):
        return node.id
    if isinstance(node, ast.Attribute):
        return dotted(node.value) + "." + node.attr
    raise ExtractError(f"cannot read the base class {show(node)}")


def read_init(fn, tbl):
    what = "DifferentiationMapper.__init__"
    a = fn.args
    names = [x.arg for x in a.args]
    if (names != ["self", "variable", "func_map", "allowed_nonsmoothness"] or a.vararg or a.kwarg
            or a.kwonlyargs or a.posonlyargs or len(a.defaults) != 2
            or not (isinstance(a.defaults[0], ast.Name)
                    and a.defaults[0].id == "map_math_functions_by_name")
            or not (isinstance(a.defaults[1], ast.Constant) and a.defaults[1].value is None)):
        raise ExtractError(f"{what}: unexpected signature / defaults")
    b = match_stmts(
        "if allowed_nonsmoothness is None:\n    allowed_nonsmoothness = T_none\n"
        "self.variable = variable\n"
        "self.function_map = func_map\n"
        "if allowed_nonsmoothness not in T_l:\n    raise ValueError(T_msg)\n"
        "self.allowed_nonsmoothness = allowed_nonsmoothness\n", body_wo_doc(fn))
    if b is None or not (isinstance(b["T_none"], ast.Constant) and isinstance(b["T_none"].value, str)):
        raise ExtractError(f"{what}: cannot read the body")
    tbl["settings"] = str_list(b["T_l"], what)
    tbl["noneSetting"] = b["T_none"].value


def read_entry(fn, default_fm_setting):
    what = "differentiate"
    a = fn.args
    names = [x.arg for x in a.args]
    if (names != ["expression", "variable", "func_mapper", "allowed_nonsmoothness"] or a.vararg
            or a.kwarg or a.kwonlyargs or a.posonlyargs or len(a.defaults) != 2
            or not (isinstance(a.defaults[0], ast.Name)
                    and a.defaults[0].id == "map_math_functions_by_name")
            or not (isinstance(a.defaults[1], ast.Constant)
                    and isinstance(a.defaults[1].value, str))):
        raise ExtractError(f"{what}: unexpected signature / defaults")
    b = match_stmts(
        "if not isinstance(variable, T_classes):\n"
        "    variable = primitives.make_variable(variable)\n"
        "return DifferentiationMapper(variable, func_mapper, "
        "allowed_nonsmoothness=allowed_nonsmoothness)(expression)\n", body_wo_doc(fn))
    if b is None or not isinstance(b["T_classes"], ast.Tuple):
        raise ExtractError(f"{what}: cannot read the body")
    classes = []
    for e in b["T_classes"].elts:
        bb = match_expr("primitives.M_C", e)
        if bb is None:
            raise ExtractError(f"{what}: cannot read the class {show(e)}")
        classes.append(bb["M_C"])
    return (f".entryPoint {lean_list([lean_str(c) for c in classes])} "
            f"{lean_str(a.defaults[1].value)}")

# }}}


def read_source(ctx):
    repo = (ctx or {}).get("repo") or os.environ.get("REPO", "/repo")
    out = {}
    for key, rel in (("diff", "pymbolic/mapper/differentiator.py"), ("fun", "pymbolic/functions.py"),
                     ("prim", "pymbolic/primitives.py")):
        path = os.path.join(repo, rel)
        with open(path) as f:
            out[key] = f.read()
    # the correspondence and the oracle run the IMPORTED module: it must be this very source
    import inspect

    import pymbolic.functions as live_fun
    import pymbolic.mapper.differentiator as live_diff
    import pymbolic.primitives as live_prim
    for key, mod in (("diff", live_diff), ("fun", live_fun), ("prim", live_prim)):
        if inspect.getsource(mod) != out[key]:
            raise ExtractError(f"the imported {mod.__name__} ({mod.__file__}) is not the source "
                               f"under {repo}; set PYTHONPATH to the tree given by REPO")
    return repo, out


def extract_diff_table(ctx=None, write=True):
    repo, src = read_source(ctx)
    tree = ast.parse(src["diff"])
    fun_tree = ast.parse(src["fun"])
    check_is_zero(ast.parse(src["prim"]))
    # module-level names the patterns rely on
    imports = {}
    for st in tree.body:
        if isinstance(st, ast.Import):
            for al in st.names:
                imports[al.asname or al.name.split(".")[0]] = al.name
    if imports.get("primitives") != "pymbolic.primitives" or "pymbolic" not in imports:
        raise ExtractError("differentiator.py: `import pymbolic` / `import pymbolic.primitives as "
                           "primitives` not found")
    for st in tree.body:
        ok = (isinstance(st, (ast.Import, ast.FunctionDef, ast.ClassDef))
              or (isinstance(st, ast.ImportFrom) and st.module == "__future__")
              or (isinstance(st, ast.Expr) and isinstance(st.value, ast.Constant)
                  and isinstance(st.value.value, str))
              or (isinstance(st, ast.Assign) and len(st.targets) == 1
                  and isinstance(st.targets[0], ast.Name)
                  and st.targets[0].id.startswith("__") and st.targets[0].id.endswith("__")
                  and isinstance(st.value, ast.Constant)))
        if not ok:
            raise ExtractError(f"differentiator.py: unexpected top-level statement {show(st)}")
    top = {st.name: st for st in tree.body if isinstance(st, (ast.FunctionDef, ast.ClassDef))}
    for need in ("map_math_functions_by_name", "DifferentiationMapper", "differentiate"):
        if need not in top:
            raise ExtractError(f"differentiator.py: {need} not found")
    extra = set(top) - {"map_math_functions_by_name", "DifferentiationMapper", "differentiate"}
    if extra:
        raise ExtractError(f"differentiator.py: unexpected top-level definitions {sorted(extra)}")

    module, entries, fn_else, fm_default = read_func_table(
        top["map_math_functions_by_name"], fun_tree, "primitives")

    cls = top["DifferentiationMapper"]
    if cls.keywords or cls.decorator_list:
        raise ExtractError("DifferentiationMapper: unexpected metaclass / decorators")
    tbl = {"bases": [dotted(b_) for b_ in cls.bases], "prim": "primitives"}
    shapes = []
    for st in body_wo_doc(cls):
        if isinstance(st, ast.FunctionDef):
            if st.name == "__init__":
                read_init(st, tbl)
            elif st.name == "rec_undiff" or st.name.startswith("map_"):
                shapes.append((st.name, read_handler(st, tbl)))
            else:
                raise ExtractError(f"DifferentiationMapper: unexpected method {st.name}")
        elif (isinstance(st, ast.Assign) and len(st.targets) == 1
              and isinstance(st.targets[0], ast.Name) and st.targets[0].id.startswith("map_")
              and isinstance(st.value, ast.Name) and st.value.id.startswith("map_")):
            if st.value.id not in [n for n, _ in shapes]:
                raise ExtractError(f"DifferentiationMapper: alias of an undefined handler {show(st)}")
            shapes.append((st.targets[0].id, f".aliasOf {lean_str(st.value.id)}"))
        else:
            raise ExtractError(f"DifferentiationMapper: unexpected class-body statement {show(st)}")
    shapes.append(("differentiate", read_entry(top["differentiate"], fm_default)))
    for need in ("constVal", "varHit", "varMiss", "quot", "pow", "ifGate", "cseZero", "settings",
                 "noneSetting"):
        if need not in tbl:
            raise ExtractError(f"DifferentiationMapper: nothing found for {need}")
    if fm_default != tbl["noneSetting"]:
        raise ExtractError("map_math_functions_by_name: the default setting is not the one "
                           "__init__ substitutes for None")

    fns = ",\n    ".join(f"{{ name := {lean_str(n)}, arity := {k}, body := {body} }}"
                         for n, k, body in entries)
    shp = ",\n    ".join(f"({lean_str(n)}, {s})" for n, s in shapes)
    text = (
        "import PV.Model.DiffTable\n"
        "/- GENERATED by extract/differentiator.py from the source of\n"
        "   pymbolic/mapper/differentiator.py (and pymbolic/functions.py) — do not edit. -/\n"
        "namespace PV.Generated\n\n"
        "def c10DiffTable : C10DiffTable := {\n"
        f"  fnModule := {lean_str(module)},\n"
        f"  fns := [\n    {fns}],\n"
        f"  fnElse := {fn_else},\n"
        f"  constVal := {lean_int(tbl['constVal'])},\n"
        f"  varHit := {lean_int(tbl['varHit'])},\n"
        f"  varMiss := {lean_int(tbl['varMiss'])},\n"
        f"  quot := {tbl['quot']},\n"
        f"  pow := {tbl['pow']},\n"
        f"  ifGate := {tbl['ifGate']},\n"
        f"  cseZero := {tbl['cseZero']},\n"
        f"  settings := {lean_list([lean_str(s) for s in tbl['settings']])},\n"
        f"  noneSetting := {lean_str(tbl['noneSetting'])},\n"
        f"  bases := {lean_list([lean_str(s) for s in tbl['bases']])},\n"
        f"  shapes := [\n    {shp}] }}\n\n"
        "end PV.Generated\n")
    if write:
        write_if_changed(os.path.join(LEAN, "PV", "Generated", "Diff.lean"), text)
    return text
