"""T-gen for C02: regenerate lean/PV/Generated/Evaluator.lean from the LIVE source text of the
evaluator in the working tree of the repository (`ctx["repo"]`).

What is read (with `inspect` + `ast`, never executed):

* for every node class of the Lean IR: its dataclass fields, its `mapper_method`, and the handler
  the dispatch of `Mapper.__call__` reaches on `EvaluationMapper` (own name, else the first
  `mapper_method` along the MRO that the mapper implements, else none = unsupported);
* the body of every `map_*` handler of `EvaluationMapper` (own, inherited from `Mapper`, or from
  `CSECachingMapperMixin`), translated statement by statement into the handler language of
  lean/PV/Model/EvalTable.lean (`C02HExpr` / `C02HProg`): which operator, which attribute on which
  side, `sum`/`reduce`/`pytools.product` as a left fold with its operator and start value,
  `any`/`all`/`min`/`max`, lazily evaluated `if` branches, calls (callee, `*args`, `**kwargs` in
  the order Python evaluates them), subscripts, `getattr`, tuple/list construction, the comparison
  via `getattr(operator, expr.operator_to_name[expr.operator])`, the context lookup of
  `map_variable`, the per-instance CSE dictionary of `CSECachingMapperMixin`.  Aliases
  (`map_x = map_y`) resolve to the aliased function.  Names are resolved to the objects they are
  bound to (function-local imports, module globals, builtins), so `op.or_` means whatever
  `operator.or_` the module imported;
* `Mapper.map_foreign` (the isinstance chain for non-pymbolic objects) and which Python constant
  types are `VALID_CONSTANT_CLASSES`; `Comparison.operator_to_name`;
* `CachedMapper.__call__` / `get_cache_key` (lookup before dispatch, key contents, stores), which
  class provides `rec` for the plain and the cached evaluator, `EvaluationMapper.__init__`
  (attribute holding the context), the default mapper class of `evaluate` / `evaluate_kw`.

A handler that the dispatch REACHES from a node class of the IR and whose body has a shape this
reader does not understand is an ExtractError (reported by the check as a broken obligation) —
nothing is guessed.  Handlers no IR class reaches (`map_polynomial`, `map_numpy_array`,
`map_multivector`, …) are translated when possible and otherwise listed under `unmodelled` with
the reason.
"""
from __future__ import annotations

import ast
import builtins
import dataclasses
import functools
import importlib
import inspect
import linecache
import math
import operator
import os
import textwrap

from harness.leanio import LEAN

from .prec import write_if_changed


class ExtractError(Exception):
    pass


# node classes of the Lean IR (lean/PV/Model/Expr.lean), in the order of `c02IRFields`
IR_CLASSES = [
    "Variable", "Sum", "Product", "BitwiseOr", "BitwiseXor", "BitwiseAnd", "LogicalOr",
    "LogicalAnd", "Min", "Max", "Quotient", "FloorDiv", "Remainder", "Power", "LeftShift",
    "RightShift", "BitwiseNot", "LogicalNot", "Comparison", "If", "Call", "CallWithKwargs",
    "Subscript", "Lookup", "CommonSubexpression", "Substitution", "Derivative", "Slice", "NaN",
    "Wildcard", "DotWildcard", "StarWildcard", "FunctionSymbol",
]

BINOPS = {
    ast.Add: "add", ast.Sub: "sub", ast.Mult: "mul", ast.Div: "truediv",
    ast.FloorDiv: "floordiv", ast.Mod: "mod", ast.Pow: "pow", ast.LShift: "lshift",
    ast.RShift: "rshift", ast.BitOr: "or_", ast.BitXor: "xor", ast.BitAnd: "and_",
}
UNOPS = {ast.Invert: "invert", ast.Not: "not_", ast.USub: "neg", ast.UAdd: "pos"}
CMPOPS = {ast.Eq: "eq", ast.NotEq: "ne", ast.Lt: "lt", ast.LtE: "le", ast.Gt: "gt", ast.GtE: "ge"}
# functions of module `operator` with the meaning of a binary operator
OPERATOR_FUNCS = {
    operator.add: "add", operator.sub: "sub", operator.mul: "mul", operator.truediv: "truediv",
    operator.floordiv: "floordiv", operator.mod: "mod", operator.pow: "pow",
    operator.lshift: "lshift", operator.rshift: "rshift", operator.or_: "or_",
    operator.xor: "xor", operator.and_: "and_",
}
AGGS = {builtins.any: "any", builtins.all: "all", builtins.min: "min", builtins.max: "max"}


def short(node):
    try:
        return ast.unparse(node)[:90]
    except Exception:
        return ast.dump(node)[:90]


def function_ast(fn):
    """-> (ast.FunctionDef, function object)"""
    fn = inspect.unwrap(fn)
    if not inspect.isfunction(fn):
        raise ExtractError(f"{fn!r} is not a plain Python function")
    linecache.checkcache()
    try:
        src = textwrap.dedent(inspect.getsource(fn))
    except (OSError, TypeError) as e:
        raise ExtractError(f"no source for {fn.__qualname__}: {e}") from None
    mod = ast.parse(src)
    if len(mod.body) != 1 or not isinstance(mod.body[0], ast.FunctionDef):
        raise ExtractError(f"source of {fn.__qualname__} is not one function definition")
    return mod.body[0], fn


class Unbound:
    pass


class HandlerReader:
    """Translates ONE handler function into the handler language."""

    def __init__(self, fn):
        self.tree, self.fn = function_ast(fn)
        a = self.tree.args
        if a.posonlyargs or a.kwonlyargs or len(a.args) < 2:
            raise ExtractError(f"{self.where()}: unexpected signature")
        self.self_name = a.args[0].arg
        self.node_name = a.args[1].arg
        self.extra_pos = [x.arg for x in a.args[2:]]
        self.vararg = a.vararg.arg if a.vararg else None
        self.kwarg = a.kwarg.arg if a.kwarg else None
        self.local_imports: dict[str, object] = {}

    def where(self):
        return self.fn.__qualname__

    def fail(self, what, node=None):
        at = f" at `{short(node)}`" if node is not None else ""
        raise ExtractError(f"{self.where()}: {what}{at}")

    # -- names ---------------------------------------------------------------------------------
    def lookup(self, name, locs):
        """the Python object a (non-local) name is bound to"""
        if name in locs or name in (self.self_name, self.node_name, self.vararg, self.kwarg) \
                or name in self.extra_pos:
            return Unbound
        if name in self.local_imports:
            return self.local_imports[name]
        g = self.fn.__globals__
        if name in g:
            return g[name]
        if hasattr(builtins, name):
            return getattr(builtins, name)
        self.fail(f"unbound name {name!r}")

    def obj_of(self, node, locs):
        """Python object denoted by a Name / dotted name, or Unbound"""
        if isinstance(node, ast.Name):
            return self.lookup(node.id, locs)
        if isinstance(node, ast.Attribute):
            base = self.obj_of(node.value, locs)
            if base is Unbound or not inspect.ismodule(base):
                return Unbound
            if not hasattr(base, node.attr):
                self.fail(f"module {base.__name__} has no attribute {node.attr}", node)
            return getattr(base, node.attr)
        return Unbound

    def do_import(self, st):
        if isinstance(st, ast.Import):
            for al in st.names:
                mod = importlib.import_module(al.name)
                if al.asname:
                    self.local_imports[al.asname] = mod
                else:
                    self.local_imports[al.name.split(".")[0]] = importlib.import_module(
                        al.name.split(".")[0])
        else:
            if st.level:
                self.fail("relative import inside a handler", st)
            mod = importlib.import_module(st.module)
            for al in st.names:
                if not hasattr(mod, al.name):
                    self.fail(f"cannot import {al.name} from {st.module}", st)
                self.local_imports[al.asname or al.name] = getattr(mod, al.name)

    # -- pieces --------------------------------------------------------------------------------
    def is_node(self, n):
        return isinstance(n, ast.Name) and n.id == self.node_name

    def node_field(self, n):
        """`expr.f` -> f"""
        if isinstance(n, ast.Attribute) and self.is_node(n.value):
            return n.attr
        return None

    def is_self_method(self, func, name=None):
        return (isinstance(func, ast.Attribute) and isinstance(func.value, ast.Name)
                and func.value.id == self.self_name and (name is None or func.attr == name))

    def is_rec_of(self, n, var):
        """`self.rec(<var>)` with exactly that argument"""
        return (isinstance(n, ast.Call) and self.is_self_method(n.func, "rec")
                and len(n.args) == 1 and not n.keywords
                and isinstance(n.args[0], ast.Name) and n.args[0].id == var)

    def comp_iter(self, elt, gens, what):
        """`self.rec(v) for v in ITER` -> iterator descriptor"""
        if len(gens) != 1:
            self.fail(f"{what}: more than one `for`")
        g = gens[0]
        if g.ifs or g.is_async or not isinstance(g.target, ast.Name):
            self.fail(f"{what}: filtered / async / destructuring comprehension", g.iter)
        if not self.is_rec_of(elt, g.target.id):
            self.fail(f"{what}: element is not self.rec(<loop variable>)", elt)
        if self.is_node(g.iter):
            return ("self",)
        f = self.node_field(g.iter)
        if f is None:
            self.fail(f"{what}: iterates over something that is not expr / expr.<field>", g.iter)
        return ("field", f)

    def gen_arg(self, n, what):
        if not isinstance(n, ast.GeneratorExp):
            self.fail(f"{what}: argument is not a generator expression", n)
        return self.comp_iter(n.elt, n.generators, what)

    def int_literal(self, n, what):
        if isinstance(n, ast.Constant) and type(n.value) is int:
            return n.value
        if (isinstance(n, ast.UnaryOp) and isinstance(n.op, ast.USub)
                and isinstance(n.operand, ast.Constant) and type(n.operand.value) is int):
            return -n.operand.value
        self.fail(f"{what}: start value is not an integer literal", n)

    def operator_fn(self, n, locs, what):
        obj = self.obj_of(n, locs)
        try:
            name = OPERATOR_FUNCS.get(obj) if obj is not Unbound else None
        except TypeError:
            name = None
        if name is None:
            self.fail(f"{what}: not a binary function of module operator", n)
        return name

    def fold_of_reduce(self, args, locs, what):
        if len(args) not in (2, 3):
            self.fail(f"{what}: reduce with {len(args)} arguments")
        opn = self.operator_fn(args[0], locs, what)
        it = self.gen_arg(args[1], what)
        start = self.int_literal(args[2], what) if len(args) == 3 else None
        return ("fold", opn, start, it)

    def pytools_product(self, fn):
        """read `pytools.product` itself: must be `return reduce(<operator fn>, iterable, <int>)`"""
        rd = HandlerlessReader(fn)
        body = [s for s in rd.tree.body if not rd.skip(s)]
        if len(body) != 1 or not isinstance(body[0], ast.Return):
            raise ExtractError(f"{fn.__qualname__}: body is not a single return")
        c = body[0].value
        if not (isinstance(c, ast.Call) and not c.keywords and len(c.args) == 3
                and rd.obj_of(c.func, set()) is functools.reduce
                and isinstance(c.args[1], ast.Name) and c.args[1].id == rd.tree.args.args[0].arg):
            raise ExtractError(f"{fn.__qualname__}: not `reduce(op, iterable, start)`")
        return rd.operator_fn(c.args[0], set(), fn.__qualname__), rd.int_literal(c.args[2], fn.__qualname__)

    # -- value expressions -----------------------------------------------------------------------
    def hexpr(self, n, locs):
        if isinstance(n, ast.Name):
            if self.is_node(n):
                return ("self",)
            if n.id in locs:
                return ("var", n.id)
            obj = self.lookup(n.id, locs)
            if isinstance(obj, float) and obj != obj:
                return ("floatNan",)
            self.fail("name used as a value is neither a local nor nan", n)
        if isinstance(n, ast.Constant):
            if type(n.value) is int:
                return ("int", n.value)
            self.fail("literal other than an integer", n)
        if isinstance(n, ast.BinOp):
            op = BINOPS.get(type(n.op))
            if op is None:
                self.fail("binary operator outside the handler language", n)
            return ("bin", op, self.hexpr(n.left, locs), self.hexpr(n.right, locs))
        if isinstance(n, ast.UnaryOp):
            op = UNOPS.get(type(n.op))
            if isinstance(n.op, ast.USub) and isinstance(n.operand, ast.Constant) \
                    and type(n.operand.value) is int:
                return ("int", -n.operand.value)
            return ("un", op, self.hexpr(n.operand, locs))
        if isinstance(n, ast.Compare):
            if len(n.ops) != 1:
                self.fail("chained comparison", n)
            o, r = n.ops[0], n.comparators[0]
            if isinstance(o, ast.Is) and isinstance(r, ast.Constant) and r.value is None:
                f = self.node_field(n.left)
                if f is None:
                    self.fail("`is None` of something that is not expr.<field>", n)
                return ("fieldIsNone", f)
            op = CMPOPS.get(type(o))
            if op is None:
                self.fail("comparison operator outside the handler language", n)
            return ("cmp", op, self.hexpr(n.left, locs), self.hexpr(r, locs))
        if isinstance(n, ast.Subscript):
            return ("index", self.hexpr(n.value, locs), self.hexpr(n.slice, locs))
        if isinstance(n, ast.ListComp):
            return ("listOf", self.comp_iter(n.elt, n.generators, "list comprehension"))
        if isinstance(n, ast.DictComp):
            return self.dict_comp(n)
        if isinstance(n, ast.Call):
            return self.hcall(n, locs)
        self.fail("expression outside the handler language", n)

    def dict_comp(self, n):
        if len(n.generators) != 1:
            self.fail("dict comprehension: more than one `for`", n)
        g = n.generators[0]
        t = g.target
        ok = (not g.ifs and not g.is_async and isinstance(t, ast.Tuple) and len(t.elts) == 2
              and all(isinstance(e, ast.Name) for e in t.elts)
              and isinstance(n.key, ast.Name) and n.key.id == t.elts[0].id
              and self.is_rec_of(n.value, t.elts[1].id)
              and isinstance(g.iter, ast.Call) and not g.iter.args and not g.iter.keywords
              and isinstance(g.iter.func, ast.Attribute) and g.iter.func.attr == "items"
              and self.node_field(g.iter.func.value) is not None)
        if not ok:
            self.fail("dict comprehension is not {k: self.rec(v) for k, v in expr.<f>.items()}", n)
        return ("kwOf", self.node_field(g.iter.func.value))

    def hcall(self, n, locs):
        func = n.func
        # self.rec(expr.f)
        if self.is_self_method(func, "rec"):
            if len(n.args) != 1 or n.keywords:
                self.fail("self.rec with extra arguments", n)
            f = self.node_field(n.args[0])
            if f is None:
                self.fail("self.rec of something that is not expr.<field>", n)
            return ("recF", f)
        if self.is_self_method(func):
            self.fail("call of another mapper method inside an expression", n)
        # getattr(operator, expr.T[expr.O])(a, b)
        if (isinstance(func, ast.Call) and self.obj_of(func.func, locs) is builtins.getattr
                and len(func.args) == 2 and not func.keywords
                and self.obj_of(func.args[0], locs) is operator):
            key = func.args[1]
            if not (isinstance(key, ast.Subscript) and self.node_field(key.value) is not None
                    and self.node_field(key.slice) is not None):
                self.fail("operator lookup key is not expr.<table>[expr.<field>]", key)
            if len(n.args) != 2 or n.keywords or any(isinstance(a, ast.Starred) for a in n.args):
                self.fail("operator function not applied to exactly two operands", n)
            return ("opTableCall", self.node_field(key.value), self.node_field(key.slice),
                    self.hexpr(n.args[0], locs), self.hexpr(n.args[1], locs))
        obj = self.obj_of(func, locs)
        if obj is not Unbound:
            plain = not n.keywords and not any(isinstance(a, ast.Starred) for a in n.args)
            if not plain:
                self.fail("keyword / star arguments to a library function", n)
            if obj is builtins.sum:
                if len(n.args) not in (1, 2):
                    self.fail("sum with an unexpected number of arguments", n)
                start = self.int_literal(n.args[1], "sum") if len(n.args) == 2 else 0
                return ("fold", "add", start, self.gen_arg(n.args[0], "sum"))
            if obj is functools.reduce:
                return self.fold_of_reduce(n.args, locs, "reduce")
            if (inspect.isfunction(obj) and obj.__module__.split(".")[0] == "pytools"
                    and obj.__name__ == "product"):
                if len(n.args) != 1:
                    self.fail("product with an unexpected number of arguments", n)
                opn, start = self.pytools_product(obj)
                return ("fold", opn, start, self.gen_arg(n.args[0], "product"))
            try:
                agg = AGGS.get(obj)
            except TypeError:
                agg = None
            if agg is not None:
                if len(n.args) != 1:
                    self.fail(f"{agg} with an unexpected number of arguments", n)
                return ("agg", agg, self.gen_arg(n.args[0], agg))
            if obj is builtins.tuple and len(n.args) == 1:
                return ("tupleOf", self.hexpr(n.args[0], locs))
            if obj is builtins.getattr and len(n.args) == 2:
                f = self.node_field(n.args[1])
                if f is None:
                    self.fail("getattr with a name that is not expr.<field>", n)
                return ("getattrField", self.hexpr(n.args[0], locs), f)
            if obj is builtins.isinstance and len(n.args) == 2:
                import pymbolic.primitives as prim
                cls = self.obj_of(n.args[1], locs)
                if cls is not prim.Expression:
                    self.fail("isinstance against something other than pymbolic Expression", n)
                return ("isExpression", self.hexpr(n.args[0], locs))
            if obj is builtins.float and len(n.args) == 1 and isinstance(n.args[0], ast.Constant) \
                    and n.args[0].value == "nan":
                return ("floatNan",)
            self.fail("call of a function outside the handler language", n)
        # expr.f(a)
        f = self.node_field(func)
        if f is not None:
            if len(n.args) != 1 or n.keywords or isinstance(n.args[0], ast.Starred):
                self.fail("call of a node attribute with other than one argument", n)
            return ("fieldCall", f, self.hexpr(n.args[0], locs))
        # a.index(i)
        if isinstance(func, ast.Attribute):
            if func.attr == "index" and len(n.args) == 1 and not n.keywords \
                    and not isinstance(n.args[0], ast.Starred):
                return ("methIndex", self.hexpr(func.value, locs), self.hexpr(n.args[0], locs))
            self.fail("method call outside the handler language", n)
        # f(*s) / f(*s, **k)
        if len(n.args) == 1 and isinstance(n.args[0], ast.Starred) and len(n.keywords) <= 1 \
                and all(k.arg is None for k in n.keywords):
            fv = self.hexpr(func, locs)
            sv = self.hexpr(n.args[0].value, locs)
            if n.keywords:
                return ("callStarKw", fv, sv, self.hexpr(n.keywords[0].value, locs))
            return ("callStar", fv, sv)
        self.fail("call shape outside the handler language", n)

    # -- statements ------------------------------------------------------------------------------
    def skip(self, st):
        if isinstance(st, (ast.Import, ast.ImportFrom)):
            self.do_import(st)
            return True
        if isinstance(st, ast.Expr) and isinstance(st.value, ast.Constant) \
                and isinstance(st.value.value, str):
            return True
        if isinstance(st, ast.Pass):
            return True
        return False

    def delegation(self, n):
        """`self.map_x(expr, *args, **kwargs)` (or with fewer of the pass-through parts) -> map_x"""
        if not (isinstance(n, ast.Call) and self.is_self_method(n.func)
                and n.func.attr != "rec"):
            return None
        if not n.args or not self.is_node(n.args[0]):
            self.fail("delegation does not pass the node first", n)
        for a in n.args[1:]:
            if not (isinstance(a, ast.Starred) and isinstance(a.value, ast.Name)
                    and a.value.id == self.vararg):
                self.fail("delegation with arguments other than (expr, *args, **kwargs)", n)
        for k in n.keywords:
            if not (k.arg is None and isinstance(k.value, ast.Name) and k.value.id == self.kwarg):
                self.fail("delegation with arguments other than (expr, *args, **kwargs)", n)
        return n.func.attr

    def exc_name(self, st):
        e = st.exc
        if isinstance(e, ast.Call):
            e = e.func
        if isinstance(e, ast.Name):
            return e.id
        if isinstance(e, ast.Attribute):
            return e.attr
        self.fail("raise of something that is not an exception class / call", st)

    def terminates(self, p):
        k = p[0]
        if k == "assign":
            return self.terminates(p[3])
        return True      # every program this reader builds ends in return / raise on every path

    def prog(self, stmts, locs):
        stmts = list(stmts)
        while stmts and self.skip(stmts[0]):
            stmts.pop(0)
        if not stmts:
            self.fail("control reaches the end of the handler (implicit `return None`)")
        st, rest = stmts[0], stmts[1:]
        if isinstance(st, ast.Return):
            if any(not self.skip(r) for r in rest):
                self.fail("statements after return", rest[0])
            if st.value is None:
                self.fail("bare return", st)
            d = self.delegation(st.value)
            if d is not None:
                return ("delegate", d)
            return ("ret", self.hexpr(st.value, locs))
        if isinstance(st, ast.Raise):
            return ("raise", self.exc_name(st))
        if isinstance(st, ast.Assign):
            if len(st.targets) != 1 or not isinstance(st.targets[0], ast.Name):
                self.fail("assignment to something other than one local name", st)
            x = st.targets[0].id
            if x in (self.self_name, self.node_name):
                self.fail("handler rebinds self / expr", st)
            return ("assign", x, self.hexpr(st.value, locs), self.prog(rest, locs | {x}))
        if isinstance(st, ast.If):
            c = self.hexpr(st.test, locs)
            if st.orelse:
                if any(not self.skip(r) for r in rest):
                    self.fail("statements after an if/else whose branches both return", rest[0])
                return ("ite", c, self.prog(st.body, locs), self.prog(st.orelse, locs))
            return ("ite", c, self.prog(st.body, locs), self.prog(rest, locs))
        if isinstance(st, ast.Try):
            return self.try_stmt(st, rest, locs)
        self.fail("statement outside the handler language", st)

    def try_stmt(self, st, rest, locs):
        # map_variable:  try: return self.A[expr.k]  except E: raise X(expr.p) [from None]
        if (len(st.body) == 1 and isinstance(st.body[0], ast.Return) and len(st.handlers) == 1
                and not st.orelse and not st.finalbody and not rest):
            v = st.body[0].value
            h = st.handlers[0]
            if (isinstance(v, ast.Subscript) and self.is_self_method(v.value)
                    and self.node_field(v.slice) is not None and isinstance(h.type, ast.Name)
                    and len(h.body) == 1 and isinstance(h.body[0], ast.Raise)
                    and isinstance(h.body[0].exc, ast.Call) and len(h.body[0].exc.args) == 1
                    and self.node_field(h.body[0].exc.args[0]) is not None):
                return ("ctxLookup", v.value.attr, self.node_field(v.slice), h.type.id,
                        self.exc_name(h.body[0]), self.node_field(h.body[0].exc.args[0]))
        return self.cse_cache(st, rest)

    def cse_cache(self, st, rest):
        """CSECachingMapperMixin.map_common_subexpression, matched literally:

            try: D = self.A
            except AttributeError: D = self.A = {}
            K = (expr, *args)
            try: return D[K]
            except KeyError:
                R = self.U(expr, *args)
                D[K] = R            # optional -> `stores`
                return R
        """
        def bad(why, node=None):
            self.fail("try statement is neither the context lookup nor the CSE cache: " + why, node)
        h = st.handlers
        if not (len(st.body) == 1 and isinstance(st.body[0], ast.Assign) and len(h) == 1
                and not st.orelse and not st.finalbody):
            bad("first try", st)
        a = st.body[0]
        if not (len(a.targets) == 1 and isinstance(a.targets[0], ast.Name)
                and self.is_self_method(a.value)):
            bad("first try does not read a dictionary attribute of self", a)
        d, attr = a.targets[0].id, a.value.attr
        hb = h[0].body
        if not (isinstance(h[0].type, ast.Name) and h[0].type.id == "AttributeError"
                and len(hb) == 1 and isinstance(hb[0], ast.Assign) and len(hb[0].targets) == 2
                and isinstance(hb[0].value, ast.Dict) and not hb[0].value.keys):
            bad("the dictionary is not created empty on AttributeError", h[0])
        tg = hb[0].targets
        names = {t.id for t in tg if isinstance(t, ast.Name)}
        attrs = {t.attr for t in tg if self.is_self_method(t)}
        if names != {d} or attrs != {attr}:
            bad("the created dictionary is not bound to the same local and attribute", hb[0])
        rest = [s for s in rest if not self.skip(s)]
        if len(rest) != 2:
            bad("expected `key = (expr, *args)` and a second try", st)
        k, t2 = rest
        if not (isinstance(k, ast.Assign) and len(k.targets) == 1 and isinstance(k.targets[0], ast.Name)
                and isinstance(k.value, ast.Tuple) and k.value.elts and self.is_node(k.value.elts[0])
                and all(isinstance(e, ast.Starred) and isinstance(e.value, ast.Name)
                        and e.value.id == self.vararg for e in k.value.elts[1:])):
            bad("the key is not (expr, *args)", k)
        key = k.targets[0].id

        def is_dk(n):
            return (isinstance(n, ast.Subscript) and isinstance(n.value, ast.Name) and n.value.id == d
                    and isinstance(n.slice, ast.Name) and n.slice.id == key)
        if not (isinstance(t2, ast.Try) and len(t2.body) == 1 and isinstance(t2.body[0], ast.Return)
                and is_dk(t2.body[0].value) and len(t2.handlers) == 1 and not t2.orelse
                and not t2.finalbody and isinstance(t2.handlers[0].type, ast.Name)
                and t2.handlers[0].type.id == "KeyError"):
            bad("second try is not `return D[key]` guarded by KeyError", t2)
        mb = [s for s in t2.handlers[0].body if not self.skip(s)]
        if not (2 <= len(mb) <= 3 and isinstance(mb[0], ast.Assign) and len(mb[0].targets) == 1
                and isinstance(mb[0].targets[0], ast.Name) and isinstance(mb[-1], ast.Return)
                and isinstance(mb[-1].value, ast.Name) and mb[-1].value.id == mb[0].targets[0].id):
            bad("miss branch is not `R = self.U(expr, *args); [D[key] = R;] return R`", t2.handlers[0])
        unc = self.delegation(mb[0].value)
        if unc is None:
            bad("miss branch does not call another mapper method on (expr, *args)", mb[0])
        stores = False
        if len(mb) == 3:
            s = mb[1]
            if not (isinstance(s, ast.Assign) and len(s.targets) == 1 and is_dk(s.targets[0])
                    and isinstance(s.value, ast.Name) and s.value.id == mb[0].targets[0].id):
                bad("middle statement of the miss branch is not `D[key] = R`", s)
            stores = True
        return ("cseCache", unc, stores)

    def read(self):
        return self.prog(self.tree.body, set())


class HandlerlessReader(HandlerReader):
    """name resolution for a library function that is not a mapper method"""

    def __init__(self, fn):
        self.tree, self.fn = function_ast(fn)
        self.self_name = self.node_name = self.vararg = self.kwarg = None
        self.extra_pos = [a.arg for a in self.tree.args.args]
        self.local_imports = {}


# ---- dispatch -------------------------------------------------------------------------------------

def resolve_handler(cls, mapper):
    """what `Mapper.__call__` does for an instance of the Expression subclass `cls`"""
    mm = getattr(cls, "mapper_method", None)
    if mm is not None and getattr(mapper, mm, None) is not None:
        return mm
    for k in cls.__mro__[1:]:
        mm = getattr(k, "mapper_method", None)
        if mm and getattr(mapper, mm, None):
            return mm
    return None


def read_map_foreign(fn):
    """-> ([(test, handler)], exception of the final else)"""
    rd = HandlerReader(fn)
    body = [s for s in rd.tree.body if not rd.skip(s)]
    if len(body) != 1 or not isinstance(body[0], ast.If):
        rd.fail("map_foreign is not one if/elif chain")
    import pymbolic.primitives as prim
    import pymbolic.mapper as pm
    rules = []
    st = body[0]
    while True:
        t = st.test
        kind = None
        if isinstance(t, ast.Call) and len(t.args) >= 1 and rd.is_node(t.args[0]) and not t.keywords:
            f = rd.obj_of(t.func, set())
            if f is builtins.isinstance and len(t.args) == 2:
                c = rd.obj_of(t.args[1], set())
                if c is prim.VALID_CONSTANT_CLASSES:
                    kind = "constant"
                elif c is builtins.list:
                    kind = "list"
                elif c is builtins.tuple:
                    kind = "tuple"
            elif f is pm.is_numpy_array and len(t.args) == 1:
                kind = "numpy"
        if kind is None:
            rd.fail("unrecognised test in map_foreign", t)
        if len(st.body) != 1 or not isinstance(st.body[0], ast.Return):
            rd.fail("branch of map_foreign is not a single return", st)
        h = rd.delegation(st.body[0].value)
        if h is None:
            rd.fail("branch of map_foreign does not delegate to a handler", st.body[0])
        rules.append((kind, h))
        if len(st.orelse) == 1 and isinstance(st.orelse[0], ast.If):
            st = st.orelse[0]
            continue
        if len(st.orelse) == 1 and isinstance(st.orelse[0], ast.Raise):
            return rules, rd.exc_name(st.orelse[0])
        rd.fail("map_foreign does not end in `else: raise …`", st)


def read_memo(cached_mapper):
    """CachedMapper.__call__ / get_cache_key -> C02MemoSpec fields"""
    rd = HandlerReader(cached_mapper.__call__)
    body = [s for s in rd.tree.body if not rd.skip(s)]

    def is_cache(n):
        return rd.is_self_method(n, "_cache")

    def key_call(n):
        return (isinstance(n, ast.Call) and rd.is_self_method(n.func, "get_cache_key")
                and n.args and rd.is_node(n.args[0]))

    spec = dict(lookupFirst=False, keyType=False, keyExpr=False, storeMethod=False,
                storeFallback=False)
    keyvar = None
    i = 0
    # result = self._cache.get((cache_key := self.get_cache_key(expr, *args, **kwargs)), SENTINEL)
    if (len(body) >= 2 and isinstance(body[0], ast.Assign) and isinstance(body[0].value, ast.Call)
            and isinstance(body[0].value.func, ast.Attribute) and body[0].value.func.attr == "get"
            and is_cache(body[0].value.func.value) and len(body[0].value.args) == 2):
        k, sentinel = body[0].value.args
        if isinstance(k, ast.NamedExpr) and key_call(k.value):
            keyvar = k.target.id
        elif not key_call(k):
            rd.fail("cache looked up with something other than self.get_cache_key(expr, …)", k)
        res = body[0].targets[0].id
        g = body[1]
        if not (isinstance(g, ast.If) and isinstance(g.test, ast.Compare) and len(g.test.ops) == 1
                and isinstance(g.test.ops[0], ast.IsNot) and isinstance(g.test.left, ast.Name)
                and g.test.left.id == res and ast.dump(g.test.comparators[0]) == ast.dump(sentinel)
                and len(g.body) == 1 and isinstance(g.body[0], ast.Return)
                and isinstance(g.body[0].value, ast.Name) and g.body[0].value.id == res
                and not g.orelse):
            rd.fail("the cache lookup is not followed by `if result is not SENTINEL: return result`", g)
        spec["lookupFirst"] = True
        i = 2
    if keyvar is None:
        if i < len(body) and isinstance(body[i], ast.Assign) and key_call(body[i].value):
            keyvar = body[i].targets[0].id
            i += 1
        else:
            rd.fail("no cache key is computed before the dispatch")

    def call_store_return(stmts, what, is_call):
        """[R = <call>; (self._cache[key] = R)?; return R] -> stored?"""
        if not (2 <= len(stmts) <= 3 and isinstance(stmts[0], ast.Assign)
                and isinstance(stmts[0].targets[0], ast.Name) and is_call(stmts[0].value)
                and isinstance(stmts[-1], ast.Return) and isinstance(stmts[-1].value, ast.Name)
                and stmts[-1].value.id == stmts[0].targets[0].id):
            rd.fail(f"{what}: not `result = …; [self._cache[key] = result;] return result`", stmts[0])
        if len(stmts) == 2:
            return False
        s = stmts[1]
        if not (isinstance(s, ast.Assign) and len(s.targets) == 1
                and isinstance(s.targets[0], ast.Subscript) and is_cache(s.targets[0].value)
                and isinstance(s.targets[0].slice, ast.Name) and s.targets[0].slice.id == keyvar
                and isinstance(s.value, ast.Name) and s.value.id == stmts[0].targets[0].id):
            rd.fail(f"{what}: middle statement is not `self._cache[key] = result`", s)
        return True

    rest = body[i:]
    # method_name = getattr(expr, "mapper_method", None)
    if not (len(rest) >= 2 and isinstance(rest[0], ast.Assign) and isinstance(rest[0].value, ast.Call)
            and rd.obj_of(rest[0].value.func, set()) is builtins.getattr
            and rd.is_node(rest[0].value.args[0]) and isinstance(rest[0].value.args[1], ast.Constant)
            and rest[0].value.args[1].value == "mapper_method" and isinstance(rest[1], ast.If)):
        rd.fail("dispatch does not start with method_name = getattr(expr, 'mapper_method', None)")
    outer = rest[1]
    ob = [s for s in outer.body if not rd.skip(s)]
    if not (len(ob) == 2 and isinstance(ob[0], ast.Assign) and isinstance(ob[1], ast.If)
            and not outer.orelse and not ob[1].orelse):
        rd.fail("unexpected shape of the `if method_name is not None` block", outer)
    meth = ob[0].targets[0].id
    spec["storeMethod"] = call_store_return(
        [s for s in ob[1].body if not rd.skip(s)], "own handler",
        lambda c: isinstance(c, ast.Call) and isinstance(c.func, ast.Name) and c.func.id == meth
        and c.args and rd.is_node(c.args[0]))
    spec["storeFallback"] = call_store_return(
        rest[2:], "fallback",
        lambda c: isinstance(c, ast.Call) and rd.is_self_method(c.func, "rec_fallback")
        and c.args and rd.is_node(c.args[0]))
    # get_cache_key
    kr = HandlerReader(cached_mapper.get_cache_key)
    kb = [s for s in kr.tree.body if not kr.skip(s)]
    if len(kb) != 1 or not isinstance(kb[0], ast.Return) or not isinstance(kb[0].value, ast.Tuple):
        kr.fail("get_cache_key is not a single `return (…)`")
    for e in kb[0].value.elts:
        if kr.is_node(e):
            spec["keyExpr"] = True
        elif (isinstance(e, ast.Call) and kr.obj_of(e.func, set()) is builtins.type
              and len(e.args) == 1 and kr.is_node(e.args[0])):
            spec["keyType"] = True
        elif isinstance(e, ast.Name) and e.id == kr.vararg:
            pass
        elif (isinstance(e, ast.Call) and len(e.args) == 1 and isinstance(e.args[0], ast.Name)
              and e.args[0].id == kr.kwarg):
            pass
        else:
            kr.fail("unrecognised component of the cache key", e)
    return spec


def rec_owner(mapper):
    for k in mapper.__mro__:
        if "rec" in k.__dict__:
            if k.__dict__["rec"] is not k.__dict__.get("__call__"):
                raise ExtractError(f"{k.__name__}.rec is not {k.__name__}.__call__")
            for k2 in mapper.__mro__:
                if "__call__" in k2.__dict__:
                    if k2 is not k:
                        raise ExtractError(f"{mapper.__name__}: __call__ comes from {k2.__name__} "
                                           f"but rec from {k.__name__}")
                    break
            return k.__name__
    raise ExtractError(f"{mapper.__name__} has no rec")


def read_context_attr(mapper):
    tree, fn = function_ast(mapper.__init__)
    params = [a.arg for a in tree.args.args]
    if len(params) != 2:
        raise ExtractError(f"{fn.__qualname__}: expected (self, context)")
    found = [t.attr for st in ast.walk(tree) if isinstance(st, ast.Assign)
             for t in st.targets
             if isinstance(t, ast.Attribute) and isinstance(t.value, ast.Name)
             and t.value.id == params[0] and isinstance(st.value, ast.Name)
             and st.value.id == params[1]]
    if len(found) != 1:
        raise ExtractError(f"{fn.__qualname__}: expected exactly one `self.<attr> = {params[1]}`")
    return found[0]


def read_array_handler(mapper, foreign):
    """The handler `map_foreign` sends numpy arrays to, recognised by SHAPE (statement by statement):

        result = numpy.empty(expr.shape, dtype=object)
        for i in numpy.ndindex(expr.shape):
            result[i] = self.rec(expr[i])
        return result

    -> ("ndindexFill", handler name): a fresh OBJECT array of the input's shape whose entry at every
    index (visited in `numpy.ndindex` = row-major order) is the value of the entry there — the list
    handler on the entries in row-major order, re-shaped.  Anything else -> ("other", source text):
    the table then no longer says what the model assumes (obligation `array_handler_current`)."""
    import numpy
    names = [h for k, h in foreign if k == "numpy"]
    if len(names) != 1:
        return ("other", f"map_foreign has {len(names)} numpy rules")
    fn = getattr(mapper, names[0], None)
    if fn is None:
        return ("other", f"no handler {names[0]}")
    try:
        tree, fn = function_ast(fn)
    except ExtractError as e:
        return ("other", str(e))
    src = ast.unparse(tree)
    a = tree.args
    if a.posonlyargs or a.kwonlyargs or a.vararg or a.kwarg or len(a.args) != 2:
        return ("other", src)
    self_n, node_n = a.args[0].arg, a.args[1].arg
    mods = {}
    body = []
    for st in tree.body:
        if isinstance(st, ast.Expr) and isinstance(st.value, ast.Constant) and isinstance(st.value.value, str):
            continue
        if isinstance(st, ast.Import) and all(al.name == "numpy" for al in st.names):
            for al in st.names:
                mods[al.asname or "numpy"] = numpy
            continue
        body.append(st)
    g = fn.__globals__

    def is_np(node, attr):
        return (isinstance(node, ast.Attribute) and node.attr == attr and isinstance(node.value, ast.Name)
                and (mods.get(node.value.id) is numpy
                     or (node.value.id not in (self_n, node_n) and g.get(node.value.id) is numpy)))

    def is_shape(node):
        return (isinstance(node, ast.Attribute) and node.attr == "shape"
                and isinstance(node.value, ast.Name) and node.value.id == node_n)

    if len(body) != 3:
        return ("other", src)
    s0, s1, s2 = body
    ok0 = (isinstance(s0, ast.Assign) and len(s0.targets) == 1 and isinstance(s0.targets[0], ast.Name)
           and isinstance(s0.value, ast.Call) and is_np(s0.value.func, "empty")
           and len(s0.value.args) == 1 and is_shape(s0.value.args[0])
           and len(s0.value.keywords) == 1 and s0.value.keywords[0].arg == "dtype"
           and isinstance(s0.value.keywords[0].value, ast.Name)
           and s0.value.keywords[0].value.id == "object" and "object" not in g)
    if not ok0:
        return ("other", src)
    res = s0.targets[0].id
    ok1 = (isinstance(s1, ast.For) and not s1.orelse and isinstance(s1.target, ast.Name)
           and isinstance(s1.iter, ast.Call) and is_np(s1.iter.func, "ndindex")
           and len(s1.iter.args) == 1 and is_shape(s1.iter.args[0]) and not s1.iter.keywords
           and len(s1.body) == 1 and isinstance(s1.body[0], ast.Assign)
           and len(s1.body[0].targets) == 1)
    if not ok1:
        return ("other", src)
    i = s1.target.id
    tgt, val = s1.body[0].targets[0], s1.body[0].value
    ok1b = (isinstance(tgt, ast.Subscript) and isinstance(tgt.value, ast.Name) and tgt.value.id == res
            and isinstance(tgt.slice, ast.Name) and tgt.slice.id == i
            and isinstance(val, ast.Call) and isinstance(val.func, ast.Attribute)
            and val.func.attr == "rec" and isinstance(val.func.value, ast.Name)
            and val.func.value.id == self_n and len(val.args) == 1 and not val.keywords
            and isinstance(val.args[0], ast.Subscript) and isinstance(val.args[0].value, ast.Name)
            and val.args[0].value.id == node_n and isinstance(val.args[0].slice, ast.Name)
            and val.args[0].slice.id == i and len({res, i, self_n, node_n}) == 4)
    ok2 = isinstance(s2, ast.Return) and isinstance(s2.value, ast.Name) and s2.value.id == res
    if not (ok1b and ok2):
        return ("other", src)
    return ("ndindexFill", names[0])


def read_entry_point(fn):
    """`evaluate` / `evaluate_kw`: default mapper class; body ends in mapper_cls(context)(expression)"""
    tree, fn = function_ast(fn)
    sig = inspect.signature(fn)
    if "mapper_cls" not in sig.parameters:
        raise ExtractError(f"{fn.__name__}: no mapper_cls parameter")
    default = sig.parameters["mapper_cls"].default
    if not inspect.isclass(default):
        raise ExtractError(f"{fn.__name__}: default of mapper_cls is not a class")
    last = tree.body[-1]
    first = tree.args.args[0].arg
    ok = (isinstance(last, ast.Return) and isinstance(last.value, ast.Call)
          and len(last.value.args) == 1 and isinstance(last.value.args[0], ast.Name)
          and last.value.args[0].id == first and not last.value.keywords
          and isinstance(last.value.func, ast.Call) and isinstance(last.value.func.func, ast.Name)
          and last.value.func.func.id == "mapper_cls" and len(last.value.func.args) == 1
          and isinstance(last.value.func.args[0], ast.Name)
          and last.value.func.args[0].id == "context" and not last.value.func.keywords)
    if not ok:
        raise ExtractError(f"{fn.__name__}: does not end in `return mapper_cls(context)(expression)`")
    return default.__name__


# ---- the table ------------------------------------------------------------------------------------

def targets_of(p):
    k = p[0]
    if k == "delegate":
        return [p[1]]
    if k == "cseCache":
        return [p[1]]
    if k == "assign":
        return targets_of(p[3])
    if k == "ite":
        return targets_of(p[2]) + targets_of(p[3])
    return []


def check_repo(ctx, modules):
    if not ctx or not ctx.get("repo"):
        return
    root = os.path.realpath(ctx["repo"]) + os.sep
    for m in modules:
        f = os.path.realpath(m.__file__)
        if not f.startswith(root):
            raise ExtractError(f"{m.__name__} was imported from {f}, not from the repository "
                               f"under check ({root}); set PYTHONPATH to the working tree")


def evaluator_table(ctx=None):
    import pymbolic.mapper as pm
    import pymbolic.mapper.evaluator as ev
    import pymbolic.primitives as prim
    check_repo(ctx, [pm, ev, prim])
    EM, CEM = ev.EvaluationMapper, ev.CachedEvaluationMapper

    classes = []
    reached = []
    for name in IR_CLASSES:
        cls = getattr(prim, name, None)
        if cls is None or not dataclasses.is_dataclass(cls):
            raise ExtractError(f"pymbolic.primitives.{name} is not a dataclass node class")
        h = resolve_handler(cls, EM)
        if resolve_handler(cls, CEM) != h:
            raise ExtractError(f"{name}: plain and cached evaluator dispatch to different handlers")
        mm = cls.mapper_method
        if not isinstance(mm, str):
            raise ExtractError(f"{name}.mapper_method is not a string")
        classes.append(dict(cls=name, fields=[f.name for f in dataclasses.fields(cls)],
                            mapperMethod=mm, handler=h))
        if h is not None:
            reached.append(h)

    foreign, foreign_else = read_map_foreign(EM.map_foreign)
    if CEM.map_foreign is not EM.map_foreign:
        raise ExtractError("the cached evaluator overrides map_foreign")
    # numpy arrays do not exist in the model: that rule never applies there
    reached += [h for k, h in foreign if k != "numpy"]

    handlers = {}
    unmodelled = []
    work = list(dict.fromkeys(reached))
    must = set(work)
    every = [n for n in dir(EM) if n.startswith("map_") and n != "map_foreign"
             and inspect.isfunction(getattr(EM, n))]
    queue = work + [n for n in every if n not in must]
    while queue:
        h = queue.pop(0)
        if h in handlers or any(h == u for u, _ in unmodelled):
            continue
        fn = getattr(EM, h, None)
        try:
            if fn is None:
                raise ExtractError(f"the evaluator has no handler {h}")
            if getattr(CEM, h, None) is not fn:
                raise ExtractError(f"the cached evaluator overrides {h}")
            body = HandlerReader(fn).read()
        except ExtractError as e:
            if h in must:
                raise
            unmodelled.append((h, str(e)))
            continue
        handlers[h] = dict(name=h, definedIn=fn.__qualname__, body=body)
        for t in targets_of(body):
            if h in must and t not in must:
                must.add(t)
                # a target first seen as optional must now parse
                unmodelled = [(u, r) for u, r in unmodelled if u != t]
                handlers.pop(t, None)
            if t not in handlers:
                queue.insert(0, t)

    const_samples = [("int", 0), ("bool", True), ("float", 0.5), ("str", "s"), ("NoneType", None)]
    const_kinds = [k for k, v in const_samples if isinstance(v, prim.VALID_CONSTANT_CLASSES)]
    o2n = prim.Comparison.operator_to_name
    if not (isinstance(o2n, dict) and all(isinstance(k, str) and isinstance(v, str)
                                          for k, v in o2n.items())):
        raise ExtractError("Comparison.operator_to_name is not a str -> str dict")
    for v in o2n.values():
        if not callable(getattr(operator, v, None)):
            raise ExtractError(f"operator has no function {v!r}")
    return dict(
        classes=classes,
        handlers=[handlers[h] for h in sorted(handlers, key=lambda h: (h not in must, h))],
        unmodelled=sorted(unmodelled),
        foreign=foreign, foreignElse=foreign_else, constKinds=const_kinds,
        cmpNames=sorted(o2n.items()),
        recOwner=[(EM.__name__, rec_owner(EM)), (CEM.__name__, rec_owner(CEM))],
        memo=read_memo(pm.CachedMapper),
        contextAttr=read_context_attr(EM),
        arrayBody=read_array_handler(EM, foreign),
        entryPoints=[("evaluate", read_entry_point(ev.evaluate)),
                     ("evaluate_kw", read_entry_point(ev.evaluate_kw))],
        reached=sorted(must),
    )


# ---- Lean output ----------------------------------------------------------------------------------

def q(s):
    return '"' + s.replace("\\", "\\\\").replace('"', '\\"').replace("\n", "\\n") + '"'


def lb(b):
    return "true" if b else "false"


def lint(n):
    return f"({n})" if n < 0 else str(n)


def l_iter(it):
    return ".self" if it[0] == "self" else f"(.field {q(it[1])})"


def l_expr(e):
    k = e[0]
    if k == "self":
        return ".self"
    if k == "var":
        return f"(.var {q(e[1])})"
    if k == "int":
        return f"(.int {lint(e[1])})"
    if k == "floatNan":
        return ".floatNan"
    if k == "recF":
        return f"(.recF {q(e[1])})"
    if k == "bin":
        return f"(.bin .{e[1]} {l_expr(e[2])} {l_expr(e[3])})"
    if k == "un":
        return f"(.un .{e[1]} {l_expr(e[2])})"
    if k == "cmp":
        return f"(.cmp .{e[1]} {l_expr(e[2])} {l_expr(e[3])})"
    if k == "fold":
        st = "none" if e[2] is None else f"(some {lint(e[2])})"
        return f"(.fold .{e[1]} {st} {l_iter(e[3])})"
    if k == "agg":
        return f"(.agg .{e[1]} {l_iter(e[2])})"
    if k == "listOf":
        return f"(.listOf {l_iter(e[1])})"
    if k == "tupleOf":
        return f"(.tupleOf {l_expr(e[1])})"
    if k == "kwOf":
        return f"(.kwOf {q(e[1])})"
    if k == "callStar":
        return f"(.callStar {l_expr(e[1])} {l_expr(e[2])})"
    if k == "callStarKw":
        return f"(.callStarKw {l_expr(e[1])} {l_expr(e[2])} {l_expr(e[3])})"
    if k == "getattrField":
        return f"(.getattrField {l_expr(e[1])} {q(e[2])})"
    if k == "index":
        return f"(.index {l_expr(e[1])} {l_expr(e[2])})"
    if k == "methIndex":
        return f"(.methIndex {l_expr(e[1])} {l_expr(e[2])})"
    if k == "opTableCall":
        return f"(.opTableCall {q(e[1])} {q(e[2])} {l_expr(e[3])} {l_expr(e[4])})"
    if k == "isExpression":
        return f"(.isExpression {l_expr(e[1])})"
    if k == "fieldIsNone":
        return f"(.fieldIsNone {q(e[1])})"
    if k == "fieldCall":
        return f"(.fieldCall {q(e[1])} {l_expr(e[2])})"
    raise ExtractError(f"internal: no Lean form for {k}")


def l_prog(p):
    k = p[0]
    if k == "ret":
        return f"(.ret {l_expr(p[1])})"
    if k == "assign":
        return f"(.assign {q(p[1])} {l_expr(p[2])} {l_prog(p[3])})"
    if k == "ite":
        return f"(.ite {l_expr(p[1])} {l_prog(p[2])} {l_prog(p[3])})"
    if k == "raise":
        return f"(.raise {q(p[1])})"
    if k == "delegate":
        return f"(.delegate {q(p[1])})"
    if k == "ctxLookup":
        return "(.ctxLookup " + " ".join(q(x) for x in p[1:]) + ")"
    if k == "cseCache":
        return f"(.cseCache {q(p[1])} {lb(p[2])})"
    raise ExtractError(f"internal: no Lean form for {k}")


def l_strs(xs):
    return "[" + ", ".join(q(x) for x in xs) + "]"


def l_pairs(xs):
    return "[" + ", ".join(f"({q(a)}, {q(b)})" for a, b in xs) + "]"


def to_lean(t):
    cl = ",\n".join(
        "    { cls := %s, fields := %s, mapperMethod := %s, handler := %s }" % (
            q(c["cls"]), l_strs(c["fields"]), q(c["mapperMethod"]),
            "none" if c["handler"] is None else f"some {q(c['handler'])}")
        for c in t["classes"])
    hs = ",\n".join(
        "    { name := %s, definedIn := %s,\n      body := %s }" % (
            q(h["name"]), q(h["definedIn"]), l_prog(h["body"]))
        for h in t["handlers"])
    m = t["memo"]
    return (
        "import PV.Model.EvalTable\n"
        "/- GENERATED by extract/evaluator.py from the live source of the evaluator in /repo — "
        "do not edit. -/\n"
        "namespace PV.Generated\n\n"
        "def c02EvalTable : C02EvalTable := {\n"
        f"  classes := [\n{cl}\n  ],\n"
        f"  handlers := [\n{hs}\n  ],\n"
        f"  unmodelled := {l_pairs(t['unmodelled'])},\n"
        f"  foreign := {l_pairs(t['foreign'])},\n"
        f"  foreignElse := {q(t['foreignElse'])},\n"
        f"  constKinds := {l_strs(t['constKinds'])},\n"
        f"  cmpNames := {l_pairs(t['cmpNames'])},\n"
        f"  recOwner := {l_pairs(t['recOwner'])},\n"
        "  memo := { lookupFirst := %s, keyType := %s, keyExpr := %s, storeMethod := %s, "
        "storeFallback := %s },\n" % tuple(lb(m[k]) for k in (
            "lookupFirst", "keyType", "keyExpr", "storeMethod", "storeFallback")) +
        f"  contextAttr := {q(t['contextAttr'])},\n"
        f"  entryPoints := {l_pairs(t['entryPoints'])},\n"
        "  arrayBody := %s\n" % ((".ndindexFill " + q(t["arrayBody"][1])) if t["arrayBody"][0] == "ndindexFill"
                                 else (".other " + q(t["arrayBody"][1]))) +
        "}\n\n"
        "end PV.Generated\n")


def extract_evaluator(ctx=None):
    t = evaluator_table(ctx)
    write_if_changed(os.path.join(LEAN, "PV", "Generated", "Evaluator.lean"), to_lean(t))
    return t


if __name__ == "__main__":
    import json
    import sys
    t = extract_evaluator({"repo": os.environ.get("REPO", "/repo")})
    json.dump(t, sys.stdout, indent=1, default=str)
