"""T-gen for C05: regenerate lean/PV/Generated/Caching.lean from the LIVE classes of the tree under
test (pymbolic.mapper and every pymbolic module that defines a caching mapper) and from what the
live optimizer (pymbolic/mapper/optimize.py) really does.

What is read (with `inspect` + `ast`; record types in lean/PV/Model/CacheTable.lean):

  * `CachedMapper.get_cache_key`: signature and the components of the returned tuple, in order
    (`type(expr)`, `expr`, `args`, `immutabledict(kwargs)`);
  * `CachedMapper.__call__`: the body, statement by statement, in the small language `C05Stmt`
    (dictionary `get` with a walrus-bound key and a sentinel default, the hit test, method look-up,
    handler call on the method path and on the `rec_fallback` path, the stores, the returns — in
    the order the source has them); that `rec` is the same function object;
  * the sentinel (a module-level `object()`), where `_cache` is created;
  * `CSECachingMapperMixin.map_common_subexpression` in the same language (lazily created
    dictionary, key `(expr, *args)`, `try … except KeyError`), the deprecated
    `CachingMapperMixin`'s key;
  * every subclass of `CachedMapper` / `CSECachingMapperMixin` defined in a pymbolic module: its MRO
    and, for every class on it, which of the protocol attributes (`__call__`, `rec`,
    `get_cache_key`, `rec_fallback`, `__init__`, `map_common_subexpression`,
    `map_common_subexpression_uncached`) its BODY defines and the function each is bound to;
    whether `__init__` reaches `CachedMapper.__init__`; `__call__` overrides that hand over to
    another class (is the instance passed, which defaulted parameters are inserted, is everything
    forwarded);
  * the optimizer: option names, the per-method rewriting loop of `optimize_mapper` (which
    transformer class, with which options, under which condition, in which order); each LIVE
    transformer class (`_VarArgsRemover`, `_CacheKeyInliner`, `_RecInliner`) run on every dispatch
    expression of the model's syntax, the result read back; and `optimize_mapper(**opts)` applied to
    the four user classes of harness/c05_classes.py for all 32 option sets, the REWRITTEN SOURCE
    (`_MODULE_SOURCE_CODE`) of `get_cache_key`, `__call__`/`rec` and the handlers read back into the
    model's `Code` record.

What is recorded is what the source SAYS.  A shape this reader does not know is an `ExtractError`
(reported by the check as a broken obligation) — never a default.
"""
from __future__ import annotations

import ast
import importlib
import inspect
import itertools
import os
import pkgutil
import textwrap

from harness.leanio import LEAN

from .classes import ExtractError
from .prec import write_if_changed

PROTOCOL_ATTRS = ("__call__", "rec", "get_cache_key", "rec_fallback", "__init__",
                  "map_common_subexpression", "map_common_subexpression_uncached")
OPT_NAMES = ("drop_args", "drop_kwargs", "inline_rec", "inline_cache", "inline_get_cache_key")


# {{{ small AST predicates

def _name(n, ident=None):
    return isinstance(n, ast.Name) and (ident is None or n.id == ident)


def _is_none(n):
    return isinstance(n, ast.Constant) and n.value is None


def _self_attr(n):
    """`self.A` -> A, else None"""
    if isinstance(n, ast.Attribute) and _name(n.value, "self"):
        return n.attr
    return None


def _fn_ast(fn, what):
    try:
        src = textwrap.dedent(inspect.getsource(fn))
    except (OSError, TypeError) as e:
        raise ExtractError(f"{what}: no source ({e})")
    mod = ast.parse(src)
    if len(mod.body) != 1 or not isinstance(mod.body[0], ast.FunctionDef):
        raise ExtractError(f"{what}: source is not a single function definition")
    return mod.body[0]


def _body(fn: ast.FunctionDef):
    """statements without the docstring"""
    out = list(fn.body)
    if (out and isinstance(out[0], ast.Expr) and isinstance(out[0].value, ast.Constant)
            and isinstance(out[0].value.value, str)):
        out = out[1:]
    return out


def read_sig(fn: ast.FunctionDef, what, subject="expr"):
    """`(self, <subject>[, *args][, **kwargs])` -> (has *args, has **kwargs)"""
    a = fn.args
    if ([x.arg for x in a.args] != ["self", subject] or a.kwonlyargs or a.posonlyargs or a.defaults
            or a.kw_defaults):
        raise ExtractError(f"{what}: signature is not (self, {subject}[, *args][, **kwargs]): "
                           f"({ast.unparse(a)})")
    if a.vararg is not None and a.vararg.arg != "args":
        raise ExtractError(f"{what}: the variadic parameter is not called args")
    if a.kwarg is not None and a.kwarg.arg != "kwargs":
        raise ExtractError(f"{what}: the keyword parameter is not called kwargs")
    return (a.vararg is not None, a.kwarg is not None)


def read_fwd(call: ast.Call, what, subject="expr"):
    """`f(<subject>[, *args][, **kwargs])` -> (passes *args, passes **kwargs)"""
    if not call.args or not _name(call.args[0], subject):
        raise ExtractError(f"{what}: first argument is not `{subject}`: {ast.unparse(call)}")
    star = dstar = False
    for a in call.args[1:]:
        if isinstance(a, ast.Starred) and _name(a.value, "args") and not star:
            star = True
        else:
            raise ExtractError(f"{what}: unexpected positional argument in {ast.unparse(call)}")
    for k in call.keywords:
        if k.arg is None and _name(k.value, "kwargs") and not dstar:
            dstar = True
        else:
            raise ExtractError(f"{what}: unexpected keyword argument in {ast.unparse(call)}")
    return (star, dstar)

# }}}


# {{{ key expressions

def read_key_item(n, what, subject="expr"):
    if (isinstance(n, ast.Call) and _name(n.func, "type") and len(n.args) == 1 and not n.keywords
            and _name(n.args[0], subject)):
        return "ty"
    if _name(n, subject):
        return "expr"
    if _name(n, "args"):
        return "args"
    if (isinstance(n, ast.Call) and _name(n.func, "immutabledict") and len(n.args) == 1
            and not n.keywords and _name(n.args[0], "kwargs")):
        return "kwargs"
    if isinstance(n, ast.Starred) and _name(n.value, "args"):
        return "splat"
    raise ExtractError(f"{what}: unreadable key component `{ast.unparse(n)}`")


def read_key_items(n, what, subject="expr"):
    if not isinstance(n, ast.Tuple):
        raise ExtractError(f"{what}: the key is not a tuple expression: `{ast.unparse(n)}`")
    return [read_key_item(e, what, subject) for e in n.elts]


def read_key_parts(n, what, subject="expr"):
    items = read_key_items(n, what, subject)
    if "splat" in items:
        raise ExtractError(f"{what}: a *args splice inside a CachedMapper key: `{ast.unparse(n)}`")
    return items


def read_key_expr(n, what, subject="expr"):
    """`self.get_cache_key(subject, *args, **kwargs)` | a literal tuple"""
    if isinstance(n, ast.Call) and _self_attr(n.func) == "get_cache_key":
        s, d = read_fwd(n, what, subject)
        return ("getKeyCall", s, d)
    return ("tuple", read_key_parts(n, what, subject))

# }}}


# {{{ dispatch-method bodies (C05Stmt)

def read_dictref(n, what):
    a = _self_attr(n)
    if a is not None:
        return ("selfAttr", a)
    if _name(n):
        return ("var", n.id)
    raise ExtractError(f"{what}: unreadable dictionary reference `{ast.unparse(n)}`")


def read_atom(n, what):
    if _is_none(n):
        return ("pyNone",)
    if _name(n):
        return ("global", n.id)
    raise ExtractError(f"{what}: unreadable comparison operand `{ast.unparse(n)}`")


def read_test(n, what):
    if _name(n):
        return ("truthy", n.id)
    if isinstance(n, ast.UnaryOp) and isinstance(n.op, ast.Not) and _name(n.operand):
        return ("falsy", n.operand.id)
    if (isinstance(n, ast.Compare) and len(n.ops) == 1 and _name(n.left)
            and isinstance(n.ops[0], (ast.Is, ast.IsNot))):
        kind = "isNot" if isinstance(n.ops[0], ast.IsNot) else "is"
        return (kind, n.left.id, read_atom(n.comparators[0], what))
    raise ExtractError(f"{what}: unreadable condition `{ast.unparse(n)}`")


def read_rhs(n, what, subject):
    if isinstance(n, ast.Tuple):
        return ("keyTuple", read_key_items(n, what, subject))
    if not isinstance(n, ast.Call):
        raise ExtractError(f"{what}: unreadable right-hand side `{ast.unparse(n)}`")
    f = n.func
    # DICT.get(KEY[, DEFAULT])
    if isinstance(f, ast.Attribute) and f.attr == "get" and not n.keywords and 1 <= len(n.args) <= 2 \
            and (_self_attr(f.value) is not None or _name(f.value)):
        d = read_dictref(f.value, what)
        k = n.args[0]
        if isinstance(k, ast.NamedExpr) and _name(k.target):
            kv, walrus = k.target.id, read_key_expr(k.value, what, subject)
        elif _name(k):
            kv, walrus = k.id, None
        else:
            raise ExtractError(f"{what}: unreadable key argument `{ast.unparse(k)}`")
        if len(n.args) == 2:
            if not _name(n.args[1]):
                raise ExtractError(f"{what}: unreadable default `{ast.unparse(n.args[1])}`")
            dflt = n.args[1].id
        else:
            dflt = None
        return ("cacheGet", d, kv, walrus, dflt)
    # getattr(expr, "mapper_method", None) / getattr(self, NAME, None)
    if _name(f, "getattr") and len(n.args) == 3 and not n.keywords and _is_none(n.args[2]):
        if (_name(n.args[0], subject) and isinstance(n.args[1], ast.Constant)
                and n.args[1].value == "mapper_method"):
            return ("mapperMethodName",)
        if _name(n.args[0], "self") and _name(n.args[1]):
            return ("selfMethod", n.args[1].id)
        raise ExtractError(f"{what}: unreadable getattr `{ast.unparse(n)}`")
    if _name(f):
        s, d = read_fwd(n, what, subject)
        return ("callVar", f.id, s, d)
    m = _self_attr(f)
    if m is not None:
        s, d = read_fwd(n, what, subject)
        return ("callSelf", m, s, d)
    raise ExtractError(f"{what}: unreadable call `{ast.unparse(n)}`")


def read_stmt(s, what, subject):
    if isinstance(s, ast.Assign) and len(s.targets) == 1:
        t = s.targets[0]
        if _name(t):
            return ("assign", t.id, read_rhs(s.value, what, subject))
        if isinstance(t, ast.Subscript) and _name(t.slice) and _name(s.value):
            return ("store", read_dictref(t.value, what), t.slice.id, s.value.id)
    if isinstance(s, ast.If):
        return ("ifThen", read_test(s.test, what), read_stmts(s.body, what, subject),
                read_stmts(s.orelse, what, subject))
    if isinstance(s, ast.Return) and _name(s.value):
        return ("ret", s.value.id)
    if (isinstance(s, ast.Try) and len(s.body) == 1 and len(s.handlers) == 1 and not s.orelse
            and not s.finalbody and s.handlers[0].name is None):
        h, b = s.handlers[0], s.body[0]
        # try: VAR = self.ATTR / except AttributeError: VAR = self.ATTR = {}
        if (_name(h.type, "AttributeError") and isinstance(b, ast.Assign) and len(b.targets) == 1
                and _name(b.targets[0]) and _self_attr(b.value) is not None
                and len(h.body) == 1 and isinstance(h.body[0], ast.Assign)):
            var, attr, hb = b.targets[0].id, _self_attr(b.value), h.body[0]
            if (len(hb.targets) == 2 and _name(hb.targets[0], var)
                    and _self_attr(hb.targets[1]) == attr and isinstance(hb.value, ast.Dict)
                    and not hb.value.keys):
                return ("lazyDict", var, attr)
        # try: return DICT[KEY] / except KeyError: BODY
        if (_name(h.type, "KeyError") and isinstance(b, ast.Return)
                and isinstance(b.value, ast.Subscript) and _name(b.value.slice)):
            return ("tryIndexReturn", read_dictref(b.value.value, what), b.value.slice.id,
                    read_stmts(h.body, what, subject))
    raise ExtractError(f"{what}: unreadable statement `{ast.unparse(s)[:120]}`")


def read_stmts(ss, what, subject="expr"):
    return [read_stmt(s, what, subject) for s in ss]


def read_method(cls, name):
    what = f"{cls.__name__}.{name}"
    fn = cls.__dict__.get(name)
    if not inspect.isfunction(fn):
        raise ExtractError(f"{what}: not a plain function defined in the class body")
    node = _fn_ast(fn, what)
    sig = read_sig(node, what)
    return dict(cls=cls.__name__, name=name, sig=sig, body=read_stmts(_body(node), what))


def stmt_globals(stmts):
    """module-level names the tests / defaults of a body mention"""
    out = []
    for s in stmts:
        if s[0] == "assign" and s[2][0] == "cacheGet" and s[2][4] is not None:
            out.append(s[2][4])
        elif s[0] == "ifThen":
            t = s[1]
            if t[0] in ("is", "isNot") and t[2][0] == "global":
                out.append(t[2][1])
            out += stmt_globals(s[2]) + stmt_globals(s[3])
        elif s[0] == "tryIndexReturn":
            out += stmt_globals(s[3])
    return out

# }}}


# {{{ CachedMapper, the mix-ins

def read_get_cache_key(cls):
    what = f"{cls.__name__}.get_cache_key"
    fn = cls.__dict__.get("get_cache_key")
    if not inspect.isfunction(fn):
        raise ExtractError(f"{what}: not a plain function defined in the class body")
    node = _fn_ast(fn, what)
    sig = read_sig(node, what)
    body = _body(node)
    if len(body) != 1 or not isinstance(body[0], ast.Return) or body[0].value is None:
        raise ExtractError(f"{what}: body is not a single return statement")
    return dict(cls=cls.__name__, name="get_cache_key", sig=sig,
                items=read_key_items(body[0].value, what))


def module_ast(mod):
    try:
        return ast.parse(inspect.getsource(mod))
    except (OSError, TypeError) as e:
        raise ExtractError(f"{mod.__name__}: no source ({e})")


def read_sentinel(mod, name):
    """is `name` bound exactly once in the module, at module level, to a fresh `object()`"""
    tree = module_ast(mod)

    def binds(n):
        if isinstance(n, ast.Assign):
            return any(_name(t, name) for t in n.targets)
        if isinstance(n, (ast.AnnAssign, ast.AugAssign, ast.NamedExpr)):
            return _name(n.target, name)
        if isinstance(n, (ast.Global, ast.Nonlocal)):
            return name in n.names
        return False
    top = [n for n in tree.body if isinstance(n, ast.Assign) and binds(n)]
    every = [n for n in ast.walk(tree) if binds(n)]
    if len(top) != 1 or len(every) != 1:
        return False
    v = top[0].value
    fresh = (isinstance(v, ast.Call) and _name(v.func, "object") and not v.args and not v.keywords)
    return bool(fresh and type(getattr(mod, name, None)) is object)


def read_cache_init(cls, attr):
    """`cls.__init__` assigns `self.<attr> = {}` (an empty dict literal) and no class body on the
    MRO binds `<attr>`"""
    what = f"{cls.__name__}.__init__"
    fn = cls.__dict__.get("__init__")
    if not inspect.isfunction(fn):
        raise ExtractError(f"{what}: not defined in the class body")
    node = _fn_ast(fn, what)
    found = []
    for n in ast.walk(node):
        tg, val = [], None
        if isinstance(n, ast.Assign):
            tg, val = n.targets, n.value
        elif isinstance(n, ast.AnnAssign):
            tg, val = [n.target], n.value
        if any(_self_attr(t) == attr for t in tg):
            found.append(val)
    if len(found) != 1:
        raise ExtractError(f"{what}: expected exactly one assignment to self.{attr}, found {len(found)}")
    empty = isinstance(found[0], ast.Dict) and not found[0].keys
    return bool(empty)


def class_level(cls, attr):
    return [c.__name__ for c in cls.__mro__ if attr in c.__dict__]


def read_deprecated_mixin(pm):
    """`CachingMapperMixin.rec`: the key `self.result_cache[...]` is indexed with"""
    cls = getattr(pm, "CachingMapperMixin", None)
    if cls is None:
        return None
    fn = cls.__dict__.get("rec")
    if not inspect.isfunction(fn):
        raise ExtractError("CachingMapperMixin.rec: not a plain function")
    node = _fn_ast(fn, "CachingMapperMixin.rec")
    keys = set()
    for n in ast.walk(node):
        if isinstance(n, ast.Subscript) and _self_attr(n.value) == "result_cache":
            keys.add(ast.unparse(n.slice))
    if len(keys) != 1:
        raise ExtractError(f"CachingMapperMixin.rec: result_cache indexed with {sorted(keys)}")
    k = ast.parse(keys.pop(), mode="eval").body
    if isinstance(k, ast.Tuple):
        return read_key_items(k, "CachingMapperMixin.rec")
    return [read_key_item(k, "CachingMapperMixin.rec")]

# }}}


# {{{ classes, MRO, attribute resolution

def import_all():
    """import every module of the pymbolic package that can be imported here"""
    import pymbolic
    failed = []
    for info in sorted(pkgutil.walk_packages(pymbolic.__path__, "pymbolic."), key=lambda i: i.name):
        try:
            importlib.import_module(info.name)
        except Exception as e:   # optional third-party dependency missing
            failed.append((info.name, type(e).__name__))
    return failed


def all_subclasses(c):
    out, todo = [], list(c.__subclasses__())
    while todo:
        s = todo.pop()
        if s not in out:
            out.append(s)
            todo += s.__subclasses__()
    return out


def stock(c):
    return (c.__module__ == "pymbolic" or c.__module__.startswith("pymbolic.")) \
        and "<locals>" not in c.__qualname__


def fn_ident(v):
    f = v
    if isinstance(f, (staticmethod, classmethod)):
        f = f.__func__
    q = getattr(f, "__qualname__", None)
    m = getattr(f, "__module__", None)
    if not isinstance(q, str) or not isinstance(m, str):
        raise ExtractError(f"protocol attribute bound to an object without __qualname__: {v!r}")
    return f"{m}.{q}"


_CLASS_IDS: dict = {}


def class_id(k):
    """the class name, qualified by its module when two classes on the tables share a name"""
    return _CLASS_IDS.get(k, k.__name__)


def mro_names(c):
    return [class_id(k) for k in c.__mro__ if k is not object]


def resolve(defs, attr, mro):
    for cls in mro:
        for a, f in defs.get(cls, []):
            if a == attr:
                return f
    return None


def _eval_base(n, glb, what):
    """the class a `Base` / `pkg.mod.Base` expression names in the function's module"""
    if _name(n):
        if n.id not in glb:
            raise ExtractError(f"{what}: unknown base `{n.id}`")
        return glb[n.id]
    if isinstance(n, ast.Attribute):
        return getattr(_eval_base(n.value, glb, what), n.attr)
    raise ExtractError(f"{what}: unreadable base expression `{ast.unparse(n)}`")


def init_reaches(cls, target):
    """does `cls.__init__`, followed through `Base.__init__(self, …)` and `super().__init__(…)`
    calls, reach the function `target`"""
    mro = [k for k in cls.__mro__ if k is not object]
    seen = set()

    def first_def(classes):
        for k in classes:
            if "__init__" in k.__dict__:
                return k
        return None

    def visit(owner):
        if owner is None or owner in seen:
            return False
        seen.add(owner)
        fn = owner.__dict__["__init__"]
        if fn is target:
            return True
        if not inspect.isfunction(fn):
            return False
        what = f"{owner.__name__}.__init__"
        node = _fn_ast(fn, what)
        hit = False
        for n in ast.walk(node):
            if not (isinstance(n, ast.Call) and isinstance(n.func, ast.Attribute)
                    and n.func.attr == "__init__"):
                continue
            v = n.func.value
            if isinstance(v, ast.Call) and _name(v.func, "super") and not v.args:
                if owner not in mro:
                    raise ExtractError(f"{what}: super() outside the MRO of {cls.__name__}")
                nxt = first_def(mro[mro.index(owner) + 1:])
            else:
                base = _eval_base(v, fn.__globals__, what)
                if not isinstance(base, type):
                    raise ExtractError(f"{what}: `{ast.unparse(v)}` is not a class")
                nxt = first_def([k for k in base.__mro__ if k is not object])
            hit = visit(nxt) or hit
        return hit

    return visit(first_def(mro))


def read_call_override(cls, owner):
    """`def __call__(self, expr, P=DEFAULT, …, *args, **kwargs): return Target.__call__(…)`"""
    what = f"{owner.__name__}.__call__"
    fn = owner.__dict__["__call__"]
    node = _fn_ast(fn, what)
    a = node.args
    names = [x.arg for x in a.args]
    if (names[:2] != ["self", "expr"] or a.kwonlyargs or a.posonlyargs
            or len(a.defaults) != len(names) - 2
            or (a.vararg is not None and a.vararg.arg != "args")
            or (a.kwarg is not None and a.kwarg.arg != "kwargs")):
        raise ExtractError(f"{what}: signature is not (self, expr, P=DEFAULT…[, *args][, **kwargs]): "
                           f"({ast.unparse(a)})")
    extra = [(n, ast.unparse(d)) for n, d in zip(names[2:], a.defaults)]
    body = _body(node)
    if not (len(body) == 1 and isinstance(body[0], ast.Return) and isinstance(body[0].value, ast.Call)
            and isinstance(body[0].value.func, ast.Attribute)
            and body[0].value.func.attr == "__call__"):
        raise ExtractError(f"{what}: an override that is not `return Target.__call__(…)`")
    call = body[0].value
    target = _eval_base(call.func.value, fn.__globals__, what)
    if not isinstance(target, type):
        raise ExtractError(f"{what}: `{ast.unparse(call.func.value)}` is not a class")
    pos = list(call.args)
    passes_self = bool(pos and _name(pos[0], "self"))
    if passes_self:
        pos = pos[1:]
    want = ["expr", *[n for n, _ in extra]]
    plain = pos[:len(want)]
    rest = pos[len(want):]
    fwd = (len(plain) == len(want) and all(_name(x, n) for x, n in zip(plain, want))
           and len(rest) == (1 if a.vararg is not None else 0)
           and all(isinstance(x, ast.Starred) and _name(x.value, "args") for x in rest)
           and len(call.keywords) == (1 if a.kwarg is not None else 0)
           and all(k.arg is None and _name(k.value, "kwargs") for k in call.keywords))
    return dict(cls=class_id(owner), fn=fn_ident(fn), target=ast.unparse(call.func.value),
                targetFn=fn_ident(getattr(target, "__call__")), passesSelf=passes_self,
                extra=extra, forwardsAll=bool(fwd))


def class_tables(pm):
    cached = sorted((c for c in all_subclasses(pm.CachedMapper) if stock(c)),
                    key=lambda c: (c.__module__, c.__name__))
    cse = sorted((c for c in all_subclasses(pm.CSECachingMapperMixin) if stock(c)),
                 key=lambda c: (c.__module__, c.__name__))
    every = []
    for c in [pm.CachedMapper, pm.CSECachingMapperMixin, *cached, *cse]:
        every += [k for k in c.__mro__ if k is not object and k not in every]
    _CLASS_IDS.clear()
    for k in every:
        if sum(1 for o in every if o.__name__ == k.__name__) > 1:
            _CLASS_IDS[k] = f"{k.__module__}.{k.__name__}"
    byname = {class_id(k): k for k in every}
    if len(byname) != len(every):
        raise ExtractError("two classes with one qualified name on the MROs of caching classes")
    defs = {}
    for name in sorted(byname):
        k = byname[name]
        defs[name] = [(a, fn_ident(k.__dict__[a])) for a in PROTOCOL_ATTRS if a in k.__dict__]
    # the table-driven resolution must be Python's
    for c in [*cached, *cse]:
        for a in PROTOCOL_ATTRS:
            if a == "__init__":
                continue
            got = resolve(defs, a, mro_names(c))
            live = getattr(c, a, None)
            want = None if live is None else fn_ident(live)
            if got != want:
                raise ExtractError(f"{c.__name__}.{a}: MRO resolution gives {got}, getattr gives {want}")
    target = pm.CachedMapper.__dict__.get("__init__")

    def row(c):
        return dict(name=class_id(c), module=c.__module__, mro=mro_names(c),
                    init=bool(init_reaches(c, target)))
    overrides = []
    ident = fn_ident(pm.CachedMapper.__dict__["__call__"])
    for c in cached:
        if resolve(defs, "__call__", mro_names(c)) != ident:
            owner = next(k for k in c.__mro__ if "__call__" in k.__dict__)
            ov = read_call_override(c, owner)
            if ov not in overrides:
                overrides.append(ov)
    return dict(cachedClasses=[row(c) for c in cached],
                cseClasses=[row(c) for c in cse],
                defines=[(n, defs[n]) for n in sorted(defs)], overrides=overrides)

# }}}


# {{{ dispatch expressions (the model's `Disp` / `KeyExpr`) <-> Python source

def _args_src(subject, s, d):
    return subject + (", *args" if s else "") + (", **kwargs" if d else "")


def print_key(k, subject="expr"):
    if k[0] == "getKeyCall":
        return f"self.get_cache_key({_args_src(subject, k[1], k[2])})"
    part = {"ty": f"type({subject})", "expr": subject, "args": "args", "kwargs": "immutabledict(kwargs)"}
    elts = [part[p] for p in k[1]]
    return "(" + ", ".join(elts) + ("," if len(elts) == 1 else "") + ")"


def print_disp(d, subject="expr"):
    if d[0] == "recCall":
        return f"self.rec({_args_src(subject, d[1], d[2])})"
    if d[0] == "method":
        a = _args_src(subject, d[1], d[2])
        return (f"((method({a}) if (method := getattr(self, mname, None)) is not None "
                f"else self.rec_fallback({a})) "
                f"if (mname := getattr({subject}, 'mapper_method', None)) is not None "
                f"else self.rec_fallback({a}))")
    if d[0] == "cached":
        return (f"(result if (result := self._cache.get((cache_key := {print_key(d[1], subject)}), "
                f"_NOT_IN_CACHE)) is not _NOT_IN_CACHE "
                f"else _set_and_return(self._cache, cache_key, {print_disp(d[2], subject)}))")
    raise ExtractError(f"unknown dispatch expression {d!r}")


def _walrus_is_not_none(test, var):
    """`(VAR := VALUE) is not None` -> VALUE"""
    if (isinstance(test, ast.Compare) and len(test.ops) == 1 and isinstance(test.ops[0], ast.IsNot)
            and _is_none(test.comparators[0]) and isinstance(test.left, ast.NamedExpr)
            and _name(test.left.target, var)):
        return test.left.value
    return None


def read_disp(n, what, subject):
    # self.rec(subject, …)
    if isinstance(n, ast.Call) and _self_attr(n.func) == "rec":
        s, d = read_fwd(n, what, subject)
        return ("recCall", s, d)
    if isinstance(n, ast.IfExp):
        # the in-line method look-up
        v = _walrus_is_not_none(n.test, "mname")
        if v is not None:
            ok = (ast.unparse(v) == f"getattr({subject}, 'mapper_method', None)"
                  and isinstance(n.body, ast.IfExp))
            v2 = _walrus_is_not_none(n.body.test, "method") if ok else None
            if (v2 is not None and ast.unparse(v2) == "getattr(self, mname, None)"
                    and isinstance(n.body.body, ast.Call) and _name(n.body.body.func, "method")
                    and isinstance(n.body.orelse, ast.Call)
                    and _self_attr(n.body.orelse.func) == "rec_fallback"
                    and isinstance(n.orelse, ast.Call) and _self_attr(n.orelse.func) == "rec_fallback"):
                f = {read_fwd(c, what, subject) for c in (n.body.body, n.body.orelse, n.orelse)}
                if len(f) == 1:
                    s, d = f.pop()
                    return ("method", s, d)
        # the in-line cache look-up
        t = n.test
        if (isinstance(t, ast.Compare) and len(t.ops) == 1 and isinstance(t.ops[0], ast.IsNot)
                and _name(t.comparators[0], "_NOT_IN_CACHE") and isinstance(t.left, ast.NamedExpr)
                and _name(t.left.target, "result") and _name(n.body, "result")
                and isinstance(t.left.value, ast.Call)):
            get = t.left.value
            o = n.orelse
            if (isinstance(get.func, ast.Attribute) and get.func.attr == "get"
                    and _self_attr(get.func.value) == "_cache" and len(get.args) == 2
                    and not get.keywords and isinstance(get.args[0], ast.NamedExpr)
                    and _name(get.args[0].target, "cache_key")
                    and _name(get.args[1], "_NOT_IN_CACHE")
                    and isinstance(o, ast.Call) and _name(o.func, "_set_and_return")
                    and len(o.args) == 3 and not o.keywords and _self_attr(o.args[0]) == "_cache"
                    and _name(o.args[1], "cache_key")):
                return ("cached", read_key_expr(get.args[0].value, what, subject),
                        read_disp(o.args[2], what, subject))
    raise ExtractError(f"{what}: unreadable dispatch expression `{ast.unparse(n)[:160]}`")


def probe_disps():
    """the same list, in the same order, as `c05ProbeDisps` (lean/PV/Model/CacheTable.lean)"""
    bs = [True, False]
    flat = [("recCall", s, d) for s in bs for d in bs] + [("method", s, d) for s in bs for d in bs]
    keys = [("getKeyCall", s, d) for s in bs for d in bs] + \
        [("tuple", ["ty", "expr"]), ("tuple", ["ty", "expr", "args", "kwargs"])]
    return flat + [("cached", k, i) for k in keys for i in flat]


def _parse_expr(src):
    return ast.parse(src, mode="eval").body


def run_transformer(tr, d, what):
    tree = _parse_expr(print_disp(d))
    if read_disp(tree, what, "expr") != d:
        raise ExtractError(f"{what}: printer/reader of dispatch expressions disagree on {d!r}")
    out = tr.visit(tree)
    ast.fix_missing_locations(out)
    return read_disp(_parse_expr(ast.unparse(out)), what, "expr")

# }}}


# {{{ the optimizer

def read_set_and_return(opt):
    fn = getattr(opt, "_set_and_return", None)
    if not inspect.isfunction(fn):
        raise ExtractError("optimize._set_and_return: missing")
    node = _fn_ast(fn, "_set_and_return")
    names = [a.arg for a in node.args.args]
    body = [ast.unparse(s) for s in _body(node)]
    if len(names) != 3 or node.args.vararg or node.args.kwarg or \
            body != [f"{names[0]}[{names[1]}] = {names[2]}", f"return {names[2]}"]:
        raise ExtractError("_set_and_return: does not store `mapping[key] = value` and return `value`")


def read_options(opt):
    node = _fn_ast(opt.optimize_mapper, "optimize_mapper")
    a = node.args
    if a.args or a.vararg or a.kwarg or a.posonlyargs:
        raise ExtractError("optimize_mapper: not keyword-only")
    out = []
    for arg, dflt in zip(a.kwonlyargs, a.kw_defaults):
        if arg.arg == "print_modified_code_file":
            continue
        if not (isinstance(dflt, ast.Constant) and isinstance(dflt.value, bool)):
            raise ExtractError(f"optimize_mapper: option {arg.arg} has no boolean default")
        out.append((arg.arg, dflt.value))
    return node, out


def read_pipeline(node):
    """the per-method rewriting loop of `optimize_mapper.<locals>.wrapper`"""
    wrappers = [n for n in node.body if isinstance(n, ast.FunctionDef) and n.name == "wrapper"]
    if len(wrappers) != 1:
        raise ExtractError("optimize_mapper: no inner function `wrapper`")
    w = wrappers[0]
    loops = [n for n in ast.walk(w) if isinstance(n, ast.For) and _name(n.target, "mname")]
    if len(loops) != 1 or ast.unparse(loops[0].iter) != "sorted(method_defs)":
        raise ExtractError("optimize_mapper: no `for mname in sorted(method_defs)` loop")
    passes = []

    def visit_call(v, guard):
        """`mdef = X(kw=opt, …).visit(mdef)`"""
        if (isinstance(v, ast.Call) and isinstance(v.func, ast.Attribute) and v.func.attr == "visit"
                and len(v.args) == 1 and _name(v.args[0], "mdef") and not v.keywords
                and isinstance(v.func.value, ast.Call) and _name(v.func.value.func)
                and not v.func.value.args):
            ctor = v.func.value
            opts = []
            for k in ctor.keywords:
                if k.arg is None or not _name(k.value):
                    raise ExtractError(f"optimize_mapper: unreadable transformer argument in "
                                       f"`{ast.unparse(ctor)}`")
                opts.append(f"{k.arg}={k.value.id}")
            passes.append((ctor.func.id, opts, guard))
            return True
        return False

    def signature_edit(v):
        """`_replace(mdef, args=_replace(mdef.args, vararg=None if drop_args else mdef.args.vararg,
        kwarg=None if drop_kwargs else mdef.args.kwarg))`"""
        if not (isinstance(v, ast.Call) and _name(v.func, "_replace") and len(v.args) == 1
                and _name(v.args[0], "mdef") and len(v.keywords) == 1 and v.keywords[0].arg == "args"):
            return False
        inner = v.keywords[0].value
        if not (isinstance(inner, ast.Call) and _name(inner.func, "_replace") and len(inner.args) == 1
                and ast.unparse(inner.args[0]) == "mdef.args"):
            return False
        opts = []
        for k in inner.keywords:
            x = k.value
            if not (k.arg in ("vararg", "kwarg") and isinstance(x, ast.IfExp) and _name(x.test)
                    and _is_none(x.body) and ast.unparse(x.orelse) == f"mdef.args.{k.arg}"):
                return False
            opts.append(f"{k.arg}:{x.test.id}")
        passes.append(("signature", opts, ""))
        return True

    for s in loops[0].body:
        src = ast.unparse(s)
        if src in ("mdef = method_defs[mname]", "ast.fix_missing_locations(mdef)",
                   "new_method_defs.append(mdef)"):
            continue
        if isinstance(s, ast.Assign) and len(s.targets) == 1 and _name(s.targets[0], "mdef"):
            if signature_edit(s.value) or visit_call(s.value, ""):
                continue
        if (isinstance(s, ast.If) and not s.orelse and len(s.body) == 1
                and isinstance(s.body[0], ast.Assign) and len(s.body[0].targets) == 1
                and _name(s.body[0].targets[0], "mdef")
                and visit_call(s.body[0].value, ast.unparse(s.test))):
            continue
        raise ExtractError(f"optimize_mapper: unreadable step of the rewriting loop `{src[:100]}`")
    # where the inlined key expression comes from
    when = None
    for n in ast.walk(w):
        if (isinstance(n, ast.If) and len(n.body) == 1 and isinstance(n.body[0], ast.Assign)
                and _name(n.body[0].targets[0], "cache_key_expr")):
            if when is not None:
                raise ExtractError("optimize_mapper: cache_key_expr is assigned under two conditions")
            when = (ast.unparse(n.test), ast.unparse(n.body[0].value))
    if when is None:
        raise ExtractError("optimize_mapper: cache_key_expr is never computed")
    return passes, when


def transformer_rows(opt):
    probes = probe_disps()
    bools = list(itertools.product([False, True], repeat=2))
    va = [(a, b, d, run_transformer(opt._VarArgsRemover(drop_args=a, drop_kwargs=b), d,
                                     "_VarArgsRemover"))
          for a, b in bools for d in probes]
    ri = [(a, b, d, run_transformer(opt._RecInliner(inline_rec=a, inline_cache=b), d, "_RecInliner"))
          for a, b in bools for d in probes]
    ki = []
    for ka, kk in bools:
        body = ["ty", "expr"] + (["args"] if ka else []) + (["kwargs"] if kk else [])
        for d in probes:
            # a fresh tree of the key expression per run (the transformer splices it in)
            tr = opt._CacheKeyInliner(cache_key_expr=_parse_expr(print_key(("tuple", body))))
            ki.append((body, d, run_transformer(tr, d, "_CacheKeyInliner")))
    return va, ki, ri


def read_code(src, clsname, what):
    """the rewritten class source -> the model's `Code` record"""
    tree = ast.parse(src)
    cls = [n for n in tree.body if isinstance(n, ast.ClassDef) and n.name == clsname]
    if len(cls) != 1:
        raise ExtractError(f"{what}: no class {clsname} in the rewritten source")
    m = {n.name: n for n in cls[0].body if isinstance(n, ast.FunctionDef)}
    for need in ("get_cache_key", "__call__", "rec", "map_sum", "map_product", "map_variable"):
        if need not in m:
            raise ExtractError(f"{what}: rewritten class has no {need}")
    gk = m["get_cache_key"]
    gbody = _body(gk)
    if len(gbody) != 1 or not isinstance(gbody[0], ast.Return):
        raise ExtractError(f"{what}: get_cache_key is not a single return")
    code = dict(getKeySig=read_sig(gk, what + " get_cache_key"),
                getKeyBody=read_key_parts(gbody[0].value, what + " get_cache_key"))
    call, rec = m["__call__"], m["rec"]
    if ast.dump(call.args) != ast.dump(rec.args) or \
            [ast.dump(s) for s in call.body] != [ast.dump(s) for s in rec.body]:
        raise ExtractError(f"{what}: rec and __call__ were rewritten differently")
    code["callSig"] = read_sig(call, what + " __call__")
    code["callBody"] = protocol_to_disp(read_stmts(_body(call), what + " __call__"), what)
    sigs = {read_sig(m[h], what + " " + h) for h in ("map_sum", "map_product", "map_variable")}
    if len(sigs) != 1:
        raise ExtractError(f"{what}: handlers with different signatures")
    code["handlerSig"] = sigs.pop()
    sites = {}
    for h, ctor in (("map_sum", "Sum"), ("map_product", "Product")):
        b = _body(m[h])
        ok = (len(b) == 1 and isinstance(b[0], ast.Return) and isinstance(b[0].value, ast.Call)
              and _name(b[0].value.func, ctor) and len(b[0].value.args) == 1)
        t = b[0].value.args[0] if ok else None
        ok = (ok and isinstance(t, ast.Call) and _name(t.func, "tuple") and len(t.args) == 1
              and isinstance(t.args[0], ast.ListComp) and len(t.args[0].generators) == 1)
        if ok:
            g = t.args[0].generators[0]
            ok = (_name(g.target, "child") and ast.unparse(g.iter) == "expr.children" and not g.ifs)
        if not ok:
            raise ExtractError(f"{what}: {h} is not `return {ctor}(tuple([… for child in "
                               f"expr.children]))`")
        site = read_disp(t.args[0].elt, f"{what} {h}", "child")
        sites[repr(site)] = site
    if len(sites) != 1:
        raise ExtractError(f"{what}: map_sum and map_product dispatch differently")
    code["recSite"] = next(iter(sites.values()))
    return code


def protocol_to_disp(st, what):
    """the statement form of a rewritten `__call__` -> `Disp.cached KEY (.method s d)`: the key
    expression of its one dictionary look-up and the arguments its handler calls (method path and
    `rec_fallback` path) forward.  The ORDER of look-up, call and store is not read here: that is
    the obligation `cache_protocol_current` on the un-rewritten method."""
    gets, calls = [], []

    def walk(ss):
        for s in ss:
            if s[0] == "assign" and s[2][0] == "cacheGet":
                gets.append(s[2])
            elif s[0] == "assign" and s[2][0] == "callVar":
                calls.append((s[2][2], s[2][3]))
            elif s[0] == "assign" and s[2][0] == "callSelf":
                if s[2][1] != "rec_fallback":
                    raise ExtractError(f"{what}: the rewritten __call__ calls self.{s[2][1]}")
                calls.append((s[2][2], s[2][3]))
            elif s[0] == "ifThen":
                walk(s[2])
                walk(s[3])
            elif s[0] == "tryIndexReturn":
                raise ExtractError(f"{what}: the rewritten __call__ indexes its cache in a try block")
    walk(st)
    if len(gets) != 1 or gets[0][1] != ("selfAttr", "_cache") or gets[0][3] is None:
        raise ExtractError(f"{what}: the rewritten __call__ does not have exactly one "
                           f"self._cache.get((key := …), …)")
    if not calls or len(set(calls)) != 1:
        raise ExtractError(f"{what}: the handler calls of the rewritten __call__ forward different "
                           f"arguments: {calls}")
    return ("cached", gets[0][3], ("method", calls[0][0], calls[0][1]))


def optimized_rows():
    """`optimize_mapper(**opts)(cls)` for the four user classes x 32 option sets (the classes are
    built once per process and shared with the correspondence streams)"""
    from harness import c05_classes as C
    from harness.props.c05 import optimized
    rows = []
    for ka, kk in itertools.product([False, True], repeat=2):
        for bits in itertools.product([False, True], repeat=5):
            cls = optimized(ka, kk, bits)
            src = cls.__call__.__globals__.get("_MODULE_SOURCE_CODE")
            name = C.OPT_CLASSES[(ka, kk)][0].__name__
            what = f"optimize_mapper({dict(zip(OPT_NAMES, bits))})({name})"
            if not isinstance(src, str):
                raise ExtractError(f"{what}: no rewritten source")
            rows.append((bits, ka, kk, read_code(src, name, what)))
    return rows

# }}}


def tables(ctx=None):
    import pymbolic.mapper as pm
    import pymbolic.mapper.optimize as opt
    repo = (ctx or {}).get("repo")
    if repo is not None:
        root = os.path.realpath(repo) + os.sep
        for mod in (pm, opt):
            if not os.path.realpath(mod.__file__).startswith(root):
                raise ExtractError(f"{mod.__name__} was imported from {mod.__file__}, "
                                   f"not from the tree under test {repo}")
    import_all()
    t = {}
    t["getKey"] = read_get_cache_key(pm.CachedMapper)
    t["call"] = read_method(pm.CachedMapper, "__call__")
    t["cse"] = read_method(pm.CSECachingMapperMixin, "map_common_subexpression")
    keys = [s[2][1] for s in t["cse"]["body"] if s[0] == "assign" and s[2][0] == "keyTuple"]
    if len(keys) != 1:
        raise ExtractError("CSECachingMapperMixin.map_common_subexpression: expected one key tuple")
    t["cseKey"] = keys[0]
    t["sentinels"] = [(g, read_sentinel(pm, g))
                      for g in sorted(set(stmt_globals(t["call"]["body"])))]
    lazy = [s for s in t["cse"]["body"] if s[0] == "lazyDict"]
    t["dictInits"] = [
        dict(cls="CachedMapper", attr="_cache",
             ok=read_cache_init(pm.CachedMapper, "_cache")),
        *[dict(cls="CSECachingMapperMixin", attr=s[2], ok=True) for s in lazy]]
    t["deprecatedKey"] = read_deprecated_mixin(pm)
    ct = class_tables(pm)
    t.update(ct)
    # a cache attribute bound in a class body would be shared by all instances
    shared = []
    for c in [pm.CachedMapper, pm.CSECachingMapperMixin,
              *[k for k in all_subclasses(pm.CachedMapper) if stock(k)],
              *[k for k in all_subclasses(pm.CSECachingMapperMixin) if stock(k)]]:
        for d in t["dictInits"]:
            for n in class_level(c, d["attr"]):
                if (n, d["attr"]) not in shared:
                    shared.append((n, d["attr"]))
    t["classLevel"] = sorted(shared)
    read_set_and_return(opt)
    node, t["options"] = read_options(opt)
    t["passes"], t["keyExprWhen"] = read_pipeline(node)
    t["varArgsRows"], t["keyInlineRows"], t["recInlineRows"] = transformer_rows(opt)
    t["optRows"] = optimized_rows()
    return t


# {{{ Lean output

def q(s):
    return '"' + s.replace("\\", "\\\\").replace('"', '\\"') + '"'


def lb(b):
    return "true" if b else "false"


def lean_sig(s):
    return f"⟨{lb(s[0])}, {lb(s[1])}⟩"


def lean_parts(ps):
    return "[" + ", ".join("." + p for p in ps) + "]"


def lean_item(i):
    return ".splatArgs" if i == "splat" else f".part .{i}"


def lean_items(items):
    return "[" + ", ".join(lean_item(i) for i in items) + "]"


def lean_keyexpr(k):
    if k[0] == "getKeyCall":
        return f".getKeyCall {lb(k[1])} {lb(k[2])}"
    return f".tuple {lean_parts(k[1])}"


def lean_disp(d):
    if d[0] in ("recCall", "method"):
        return f".{d[0]} {lb(d[1])} {lb(d[2])}"
    return f".cached ({lean_keyexpr(d[1])}) ({lean_disp(d[2])})"


def lean_dictref(d):
    return f"(.{d[0]} {q(d[1])})"


def lean_atom(a):
    return ".pyNone" if a[0] == "pyNone" else f"(.global {q(a[1])})"


def lean_test(t):
    if t[0] in ("is", "isNot"):
        return f"(.{t[0]} {q(t[1])} {lean_atom(t[2])})"
    return f"(.{t[0]} {q(t[1])})"


def lean_opt(x, f):
    return "none" if x is None else f"(some {f(x)})"


def lean_rhs(r):
    k = r[0]
    if k == "cacheGet":
        return (f"(.cacheGet {lean_dictref(r[1])} {q(r[2])} "
                f"{lean_opt(r[3], lambda e: '(' + lean_keyexpr(e) + ')')} {lean_opt(r[4], q)})")
    if k == "keyTuple":
        return f"(.keyTuple {lean_items(r[1])})"
    if k == "mapperMethodName":
        return ".mapperMethodName"
    if k == "selfMethod":
        return f"(.selfMethod {q(r[1])})"
    if k in ("callVar", "callSelf"):
        return f"(.{k} {q(r[1])} {lb(r[2])} {lb(r[3])})"
    raise ExtractError(f"unknown rhs {r!r}")


def lean_stmt(s, ind):
    pad = " " * ind
    k = s[0]
    if k == "assign":
        return f"{pad}.assign {q(s[1])} {lean_rhs(s[2])}"
    if k == "ifThen":
        return (f"{pad}.ifThen {lean_test(s[1])}\n{lean_stmts(s[2], ind + 2)}\n"
                f"{lean_stmts(s[3], ind + 2)}")
    if k == "store":
        return f"{pad}.store {lean_dictref(s[1])} {q(s[2])} {q(s[3])}"
    if k == "ret":
        return f"{pad}.ret {q(s[1])}"
    if k == "lazyDict":
        return f"{pad}.lazyDict {q(s[1])} {q(s[2])}"
    if k == "tryIndexReturn":
        return f"{pad}.tryIndexReturn {lean_dictref(s[1])} {q(s[2])}\n{lean_stmts(s[3], ind + 2)}"
    raise ExtractError(f"unknown statement {s!r}")


def lean_stmts(ss, ind):
    pad = " " * ind
    if not ss:
        return f"{pad}[]"
    return f"{pad}[\n" + ",\n".join(lean_stmt(s, ind + 2) for s in ss) + f"\n{pad}]"


def lean_method(m):
    return (f"{{ cls := {q(m['cls'])}, name := {q(m['name'])}, sig := {lean_sig(m['sig'])},\n"
            f"    body :=\n{lean_stmts(m['body'], 4)} }}")


def lean_strs(xs):
    return "[" + ", ".join(q(x) for x in xs) + "]"


def lean_class(c):
    return f"  ⟨{q(c['name'])}, {q(c['module'])}, {lean_strs(c['mro'])}, {lb(c['init'])}⟩"


def lean_code(c):
    return (f"{{ getKeySig := {lean_sig(c['getKeySig'])}, getKeyBody := {lean_parts(c['getKeyBody'])}, "
            f"callSig := {lean_sig(c['callSig'])},\n      callBody := {lean_disp(c['callBody'])}, "
            f"handlerSig := {lean_sig(c['handlerSig'])},\n      recSite := {lean_disp(c['recSite'])} }}")


def lean_opts(bits):
    return "⟨" + ", ".join(lb(b) for b in bits) + "⟩"


def render(t):
    out = ["import PV.Model.CacheTable",
           "/- GENERATED by extract/caching.py from the live classes of pymbolic.mapper (and every pymbolic",
           "   module that defines a caching mapper) and from the live optimizer — do not edit. -/",
           "namespace PV.Generated", "open PV PV.Memo", ""]
    g = t["getKey"]
    out.append("/-- `CachedMapper.get_cache_key` -/\n"
               f"def c05GetCacheKey : C05KeyMethod :=\n  ⟨{q(g['cls'])}, {q(g['name'])}, "
               f"{lean_sig(g['sig'])}, {lean_items(g['items'])}⟩\n")
    out.append("/-- `CachedMapper.__call__`, statement by statement -/\n"
               f"def c05CachedMapperCall : C05Method :=\n  {lean_method(t['call'])}\n")
    out.append("/-- `CSECachingMapperMixin.map_common_subexpression`, statement by statement -/\n"
               f"def c05CseMixinMethod : C05Method :=\n  {lean_method(t['cse'])}\n")
    out.append(f"def c05CseMixinKey : List C05KeyItem := {lean_items(t['cseKey'])}\n")
    out.append("/-- the module-level names the look-up of `CachedMapper.__call__` mentions, and whether each\n"
               "is bound exactly once, at module level, to a fresh `object()` -/\n"
               "def c05Sentinels : List (String × Bool) := ["
               + ", ".join(f"({q(n)}, {lb(b)})" for n, b in t["sentinels"]) + "]\n")
    out.append("def c05DictInits : List C05DictInit := ["
               + ", ".join(f"⟨{q(d['cls'])}, {q(d['attr'])}, {lb(d['ok'])}⟩" for d in t["dictInits"])
               + "]\n")
    out.append("/-- class bodies (on the MRO of a caching class) that bind a cache attribute: shared by all\n"
               "instances -/\n"
               "def c05ClassLevelCaches : List (String × String) := ["
               + ", ".join(f"({q(a)}, {q(b)})" for a, b in t["classLevel"]) + "]\n")
    dk = t["deprecatedKey"]
    out.append("/-- the key the deprecated `CachingMapperMixin.rec` indexes `result_cache` with -/\n"
               "def c05DeprecatedMixinKey : Option (List C05KeyItem) := "
               + ("none" if dk is None else f"some {lean_items(dk)}") + "\n")
    out.append("/-- every subclass of `CachedMapper` defined in a pymbolic module -/\n"
               "def c05CachedClasses : List C05Class := [\n"
               + ",\n".join(lean_class(c) for c in t["cachedClasses"]) + "\n]\n")
    out.append("/-- every subclass of `CSECachingMapperMixin` defined in a pymbolic module -/\n"
               "def c05CseClasses : List C05Class := [\n"
               + ",\n".join(lean_class(c) for c in t["cseClasses"]) + "\n]\n")
    out.append("/-- per class on those MROs: the protocol attributes its body defines -/\n"
               "def c05Defines : List C05Defines := [\n"
               + ",\n".join("  ⟨" + q(n) + ", [" + ", ".join(f"({q(a)}, {q(f)})" for a, f in attrs) + "]⟩"
                            for n, attrs in t["defines"]) + "\n]\n")
    out.append("def c05CallOverrides : List C05CallOverride := ["
               + ", ".join(f"⟨{q(o['cls'])}, {q(o['fn'])}, {q(o['target'])}, {q(o['targetFn'])}, "
                           f"{lb(o['passesSelf'])}, ["
                           + ", ".join(f"({q(n)}, {q(d)})" for n, d in o["extra"])
                           + f"], {lb(o['forwardsAll'])}⟩"
                           for o in t["overrides"]) + "]\n")
    out.append("/-- the boolean options of `optimize_mapper` with their defaults -/\n"
               "def c05OptOptions : List (String × Bool) := ["
               + ", ".join(f"({q(n)}, {lb(b)})" for n, b in t["options"]) + "]\n")
    out.append("/-- the per-method rewriting loop of `optimize_mapper`, in order -/\n"
               "def c05OptPasses : List C05Pass := [\n"
               + ",\n".join(f"  ⟨{q(n)}, {lean_strs(o)}, {q(gd)}⟩" for n, o, gd in t["passes"]) + "\n]\n")
    out.append("/-- (condition, value) of the one assignment that computes the inlined key expression -/\n"
               f"def c05CacheKeyExprWhen : String × String := ({q(t['keyExprWhen'][0])}, "
               f"{q(t['keyExprWhen'][1])})\n")
    for ident, rows, doc in (("c05VarArgsRemoverRows", t["varArgsRows"],
                              "`_VarArgsRemover(drop_args=a, drop_kwargs=b)`"),
                             ("c05RecInlinerRows", t["recInlineRows"],
                              "`_RecInliner(inline_rec=a, inline_cache=b)`")):
        out.append(f"/-- {doc} run on every probe expression -/\n"
                   f"def {ident} : List C05DispRow := [\n"
                   + ",\n".join(f"  ⟨{lb(a)}, {lb(b)}, {lean_disp(i)}, {lean_disp(o)}⟩"
                                for a, b, i, o in rows) + "\n]\n")
    out.append("/-- `_CacheKeyInliner(cache_key_expr=<tuple>)` run on every probe expression -/\n"
               "def c05CacheKeyInlinerRows : List C05KeyInlineRow := [\n"
               + ",\n".join(f"  ⟨{lean_parts(b)}, {lean_disp(i)}, {lean_disp(o)}⟩"
                            for b, i, o in t["keyInlineRows"]) + "\n]\n")
    out.append("/-- `optimize_mapper(**opts)(cls)` for the four user classes of harness/c05_classes.py: the\n"
               "rewritten source read back -/\n"
               "def c05OptRows : List C05OptRow := [\n"
               + ",\n".join(f"  ⟨{lean_opts(bits)}, {lb(ka)}, {lb(kk)},\n    {lean_code(c)}⟩"
                            for bits, ka, kk, c in t["optRows"]) + "\n]\n")
    out.append("end PV.Generated\n")
    return "\n".join(out)


def extract_caching(ctx=None):
    t = tables(ctx)
    write_if_changed(os.path.join(LEAN, "PV", "Generated", "Caching.lean"), render(t))
    return t

# }}}


if __name__ == "__main__":
    tt = extract_caching({"repo": os.environ.get("REPO", "/repo")})
    for key in ("getKey", "call", "cse", "cseKey", "sentinels", "dictInits", "classLevel",
                "deprecatedKey", "cachedClasses", "cseClasses", "defines", "overrides", "options",
                "passes",
                "keyExprWhen"):
        print(key, tt[key])
