import Proto.DiffModel
import Mathlib.Analysis.Calculus.Deriv.Mul
import Mathlib.Analysis.Calculus.Deriv.Inv
import Mathlib.Analysis.Calculus.Deriv.Add
namespace DM
open Expr

mutual
noncomputable def evalR (ρ : String → ℝ) : Expr → ℝ
  | .const n => (n : ℝ)
  | .var x => ρ x
  | .sum cs => evalSum ρ cs
  | .prod cs => evalProd ρ cs
  | .quot a b => evalR ρ a / evalR ρ b
noncomputable def evalSum (ρ : String → ℝ) : List Expr → ℝ
  | [] => 0
  | c :: cs => evalR ρ c + evalSum ρ cs
noncomputable def evalProd (ρ : String → ℝ) : List Expr → ℝ
  | [] => 1
  | c :: cs => evalR ρ c * evalProd ρ cs
end

mutual
def Dom (ρ : String → ℝ) : Expr → Prop
  | .const _ => True
  | .var _ => True
  | .sum cs => DomL ρ cs
  | .prod cs => DomL ρ cs
  | .quot a b => Dom ρ a ∧ Dom ρ b ∧ evalR ρ b ≠ 0
def DomL (ρ : String → ℝ) : List Expr → Prop
  | [] => True
  | c :: cs => Dom ρ c ∧ DomL ρ cs
end

theorem evalProd_append (ρ : String → ℝ) (xs ys : List Expr) :
    evalProd ρ (xs ++ ys) = evalProd ρ xs * evalProd ρ ys := by
  induction xs with
  | nil => simp [evalProd]
  | cons x xs ih => simp [evalProd, ih, mul_assoc]

abbrev upd (ρ : String → ℝ) (v : String) (t : ℝ) : String → ℝ := Function.update ρ v t


theorem evalR_upd_self (ρ : String → ℝ) (v : String) (e : Expr) :
    evalR (upd ρ v (ρ v)) e = evalR ρ e := by simp [upd]

mutual
theorem diff_correct (v : String) (ρ : String → ℝ) :
    ∀ e : Expr, Dom ρ e →
      HasDerivAt (fun t => evalR (upd ρ v t) e) (evalR ρ (diff v e)) (ρ v)
  | .const n, _ => by
      have := hasDerivAt_const (ρ v) ((n : ℤ) : ℝ)
      simpa [evalR, diff] using this
  | .var x, _ => by
      by_cases hx : x = v
      · subst hx
        have := hasDerivAt_id' (ρ x)
        simpa [evalR, diff, upd] using this
      · have := hasDerivAt_const (ρ v) (ρ x)
        simpa [evalR, diff, upd, hx] using this
  | .sum cs, h => by
      have := diff_sum v ρ cs h
      simpa [evalR, diff] using this
  | .prod cs, h => by
      obtain ⟨D, hD, hpre⟩ := diff_prod v ρ cs h
      have e1 : evalR ρ (diff v (.prod cs)) = D := by
        simp [evalR, diff, hpre [], evalProd]
      rw [e1]; simpa [evalR] using hD
  | .quot f g, h => by
      obtain ⟨hf, hg, hne⟩ := h
      have h1 := diff_correct v ρ f hf
      have h2 := diff_correct v ρ g hg
      have hne' : evalR (upd ρ v (ρ v)) g ≠ 0 := by rw [evalR_upd_self]; exact hne
      have := h1.fun_div h2 hne'
      simp only [evalR_upd_self] at this
      have e3 : evalR ρ (diff v (.quot f g)) =
          (evalR ρ (diff v f) * evalR ρ g - evalR ρ f * evalR ρ (diff v g)) / evalR ρ g ^ 2 := by
        simp only [diff, evalR, evalSum, evalProd]
        push_cast
        ring
      rw [e3]
      simpa [evalR] using this
theorem diff_sum (v : String) (ρ : String → ℝ) :
    ∀ cs : List Expr, DomL ρ cs →
      HasDerivAt (fun t => evalSum (upd ρ v t) cs) (evalSum ρ (diffL v cs)) (ρ v)
  | [], _ => by
      have := hasDerivAt_const (ρ v) (0 : ℝ)
      simpa [evalSum, diffL] using this
  | c :: cs, h => by
      have := (diff_correct v ρ c h.1).fun_add (diff_sum v ρ cs h.2)
      simpa [evalSum, diffL] using this
theorem diff_prod (v : String) (ρ : String → ℝ) :
    ∀ (cs : List Expr), DomL ρ cs →
      ∃ D : ℝ, HasDerivAt (fun t => evalProd (upd ρ v t) cs) D (ρ v) ∧
        ∀ pre : List Expr, evalSum ρ (dprod v pre cs) = evalProd ρ pre * D
  | [], _ => ⟨0, by
      have := hasDerivAt_const (ρ v) (1 : ℝ)
      simpa [evalProd] using this, by intro pre; simp [dprod, evalSum]⟩
  | c :: cs, h => by
      obtain ⟨D, hD, hpre⟩ := diff_prod v ρ cs h.2
      have hc := diff_correct v ρ c h.1
      refine ⟨evalR ρ (diff v c) * evalProd ρ cs + evalR ρ c * D, ?_, ?_⟩
      · have := hc.fun_mul hD
        simp only [evalR_upd_self] at this
        have e2 : evalProd (upd ρ v (ρ v)) cs = evalProd ρ cs := by simp [upd]
        rw [e2] at this
        simpa [evalProd] using this
      · intro pre
        simp only [dprod, evalSum, evalR, hpre, evalProd_append, evalProd]
        ring
end

#print axioms diff_correct
end DM
