namespace Memo

inductive Prog (E R : Type) where
  | ret : R → Prog E R
  | call : E → (R → Prog E R) → Prog E R

variable {E R : Type} [DecidableEq E]

def interp (rec : E → Option R) : Prog E R → Option R
  | .ret r => some r
  | .call e k => match rec e with
    | none => none
    | some r => interp rec (k r)

def evalE (h : E → Prog E R) : Nat → E → Option R
  | 0, _ => none
  | n+1, e => interp (evalE h n) (h e)

abbrev Cache (E R : Type) := List (E × R)
def Cache.get (c : Cache E R) (e : E) : Option R := (c.find? (fun p => p.1 = e)).map (·.2)

def interpC (rec : E → Cache E R → Option (R × Cache E R)) : Prog E R → Cache E R → Option (R × Cache E R)
  | .ret r, c => some (r, c)
  | .call e k, c => match rec e c with
    | none => none
    | some (r, c') => interpC rec (k r) c'

def evalC (h : E → Prog E R) : Nat → E → Cache E R → Option (R × Cache E R)
  | 0, _, _ => none
  | n+1, e, c => match c.get e with
    | some r => some (r, c)
    | none => match interpC (evalC h n) (h e) c with
      | none => none
      | some (r, c') => some (r, (e, r) :: c')

theorem interp_mono {f g : E → Option R} (hfg : ∀ e r, f e = some r → g e = some r) :
    ∀ (p : Prog E R) (r : R), interp f p = some r → interp g p = some r
  | .ret _, _, h => h
  | .call e k, r, h => by
      simp only [interp] at h ⊢
      cases hf : f e with
      | none => simp [hf] at h
      | some x =>
        simp only [hf] at h
        simp only [hfg e x hf]
        exact interp_mono hfg (k x) r h

theorem evalE_succ (h : E → Prog E R) : ∀ (n : Nat) (e : E) (r : R), evalE h n e = some r → evalE h (n+1) e = some r
  | 0, _, _, hh => by simp [evalE] at hh
  | n+1, e, r, hh => by
      simp only [evalE] at hh ⊢
      exact interp_mono (fun e' r' h' => evalE_succ h n e' r' h') (h e) r hh

theorem evalE_mono (h : E → Prog E R) {n m : Nat} (hnm : n ≤ m) (e : E) (r : R) :
    evalE h n e = some r → evalE h m e = some r := by
  induction hnm with
  | refl => exact id
  | step _ ih => exact fun hh => evalE_succ h _ e r (ih hh)

def Inv (h : E → Prog E R) (c : Cache E R) : Prop := ∀ e r, c.get e = some r → ∃ n, evalE h n e = some r

theorem get_cons (c : Cache E R) (e e' : E) (r : R) :
    Cache.get ((e, r) :: c) e' = if e = e' then some r else c.get e' := by
  simp only [Cache.get, List.find?]
  by_cases hee : e = e' <;> simp [hee]

theorem evalE_det (h : E → Prog E R) {n m : Nat} {e : E} {r r' : R}
    (h1 : evalE h n e = some r) (h2 : evalE h m e = some r') : r = r' := by
  have a := evalE_mono h (Nat.le_max_left n m) e r h1
  have b := evalE_mono h (Nat.le_max_right n m) e r' h2
  rw [a] at b; exact Option.some.inj b

/-- cached evaluation returns exactly the plain answer, from any cache satisfying the invariant -/
theorem cached_refines (h : E → Prog E R) : ∀ (n : Nat) (e : E) (c : Cache E R) (r : R),
    Inv h c → evalE h n e = some r → ∃ c', evalC h n e c = some (r, c') ∧ Inv h c'
  | 0, _, _, _, _, hh => by simp [evalE] at hh
  | n+1, e, c, r, hc, hh => by
      simp only [evalC]
      cases hg : c.get e with
      | some r' =>
        obtain ⟨m, hm⟩ := hc e r' hg
        have : r' = r := evalE_det h hm hh
        subst this
        exact ⟨c, rfl, hc⟩
      | none =>
        simp only [evalE] at hh
        have key : ∀ (p : Prog E R) (c : Cache E R) (r : R), Inv h c → interp (evalE h n) p = some r →
            ∃ c', interpC (evalC h n) p c = some (r, c') ∧ Inv h c' := by
          intro p
          induction p with
          | ret x => intro c r hc hp; exact ⟨c, by simpa [interp, interpC] using hp, hc⟩
          | call e' k ih =>
            intro c r hc hp
            simp only [interp] at hp
            cases he : evalE h n e' with
            | none => simp [he] at hp
            | some x =>
              simp only [he] at hp
              obtain ⟨c1, h1, hc1⟩ := cached_refines h n e' c x hc he
              obtain ⟨c2, h2, hc2⟩ := ih x c1 r hc1 hp
              exact ⟨c2, by simp only [interpC, h1, h2], hc2⟩
        obtain ⟨c', h', hc'⟩ := key (h e) c r hc hh
        refine ⟨(e, r) :: c', by simp [h'], ?_⟩
        intro e2 r2 hg2
        rw [get_cons] at hg2
        by_cases hee : e = e2
        · subst hee; simp at hg2; subst hg2; exact ⟨n+1, by simpa [evalE] using hh⟩
        · simp [hee] at hg2; exact hc' e2 r2 hg2

#print axioms cached_refines
end Memo
