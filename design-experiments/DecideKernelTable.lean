def gd : Fin 30 → Nat := fun i => 10 * (i.val % 7) + 3
def par : Fin 30 → Fin 3 → Fin 30 → Bool := fun p pos c => gd c < gd p + pos.val
theorem ok : ∀ (p : Fin 30) (pos : Fin 3) (c : Fin 30), par p pos c = false → gd c ≥ gd p + pos.val := by
  decide +kernel
#print axioms ok
