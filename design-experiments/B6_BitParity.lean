namespace GA

/-- number of set bits, by binary recursion -/
def pc : Nat → Nat
  | 0 => 0
  | n+1 => (n+1) % 2 + pc ((n+1) / 2)
decreasing_by omega

/-- Python: a >>= 1; s = 0; while a: s += bit_count(a & b); a >>= 1 -/
def signSum (a b : Nat) : Nat := go (a >>> 1) b a
where
  go (a b : Nat) : Nat → Nat
    | 0 => 0
    | fuel+1 => if a = 0 then 0 else pc (a &&& b) + go (a >>> 1) b fuel

theorem pc_zero : pc 0 = 0 := by simp [pc]
theorem pc_succ (n : Nat) (h : n ≠ 0) : pc n = n % 2 + pc (n / 2) := by
  cases n with
  | zero => exact absurd rfl h
  | succ k => rw [pc]

theorem pc_eq (n : Nat) : pc n = n % 2 + pc (n / 2) := by
  by_cases h : n = 0
  · subst h; simp [pc]
  · exact pc_succ n h

theorem and_mod2 (x y : Nat) : (x &&& y) % 2 = (x % 2) * (y % 2) := by
  have := Nat.and_mod_two_pow (a := x) (b := y) (n := 1)
  simp at this
  rcases Nat.mod_two_eq_zero_or_one x with hx | hx <;> rcases Nat.mod_two_eq_zero_or_one y with hy | hy <;>
    simp [this, hx, hy]

theorem xor_mod2 (x y : Nat) : (x ^^^ y) % 2 = (x % 2 + y % 2) % 2 := by
  have := Nat.xor_mod_two_pow (a := x) (b := y) (n := 1)
  simp at this
  rcases Nat.mod_two_eq_zero_or_one x with hx | hx <;> rcases Nat.mod_two_eq_zero_or_one y with hy | hy <;>
    simp [this, hx, hy]

theorem pc_and_xor_parity : ∀ (x b c : Nat),
    pc (x &&& (b ^^^ c)) % 2 = (pc (x &&& b) + pc (x &&& c)) % 2 := by
  intro x
  induction x using Nat.strongRecOn with
  | _ x ih =>
    intro b c
    by_cases hx : x = 0
    · subst hx; simp [pc]
    · rw [pc_eq (x &&& (b ^^^ c)), pc_eq (x &&& b), pc_eq (x &&& c)]
      have h1 : (x &&& (b ^^^ c)) / 2 = (x / 2) &&& ((b / 2) ^^^ (c / 2)) := by
        simp [Nat.and_div_two_pow (n := 1), Nat.xor_div_two_pow (n := 1)] <;> rfl
      have h2 : (x &&& b) / 2 = (x / 2) &&& (b / 2) := by
        simpa using Nat.and_div_two_pow (a := x) (b := b) (n := 1)
      have h3 : (x &&& c) / 2 = (x / 2) &&& (c / 2) := by
        simpa using Nat.and_div_two_pow (a := x) (b := c) (n := 1)
      rw [h1, h2, h3]
      have ih' := ih (x / 2) (by omega) (b / 2) (c / 2)
      rw [and_mod2, and_mod2, and_mod2, xor_mod2]
      rcases Nat.mod_two_eq_zero_or_one x with hx2 | hx2 <;>
      rcases Nat.mod_two_eq_zero_or_one b with hb | hb <;>
      rcases Nat.mod_two_eq_zero_or_one c with hc | hc <;>
      simp [hx2, hb, hc] <;> omega

#print axioms pc_and_xor_parity
end GA
