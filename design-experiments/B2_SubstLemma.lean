import Proto.Basic
namespace Proto

def envAfter (env : Env) (σ : String → Option Expr) : Env :=
  fun x => match σ x with
    | some e => match eval env e with
      | .ok v => some v
      | .error _ => none
    | none => env x

def SubstOK (env : Env) (σ : String → Option Expr) : Prop :=
  ∀ x e, σ x = some e → ∃ v, eval env e = .ok v

mutual
theorem eval_subst (env : Env) (σ : String → Option Expr) (h : SubstOK env σ) :
    ∀ e : Expr, eval env (subst σ e) = eval (envAfter env σ) e
  | .const n => by simp [subst, eval]
  | .var x => by
      simp only [subst, eval, envAfter]
      cases hx : σ x with
      | none => simp [eval]
      | some e' =>
        obtain ⟨v, hv⟩ := h x e' hx
        simp [hv]; rfl
  | .sum cs => by simp only [subst, eval]; exact evalSum_subst env σ h cs
  | .prod cs => by simp only [subst, eval]; exact evalProd_subst env σ h cs
  | .quot a b => by simp only [subst, eval, eval_subst env σ h a, eval_subst env σ h b]
  | .ite c t e => by
      simp only [subst, eval, eval_subst env σ h c, eval_subst env σ h t, eval_subst env σ h e]
  | .cse ch p => by simp only [subst, eval, eval_subst env σ h ch]
theorem evalSum_subst (env : Env) (σ : String → Option Expr) (h : SubstOK env σ) :
    ∀ cs : List Expr, evalSum env (substL σ cs) = evalSum (envAfter env σ) cs
  | [] => by simp [substL, evalSum]
  | c :: cs => by simp only [substL, evalSum, eval_subst env σ h c, evalSum_subst env σ h cs]
theorem evalProd_subst (env : Env) (σ : String → Option Expr) (h : SubstOK env σ) :
    ∀ cs : List Expr, evalProd env (substL σ cs) = evalProd (envAfter env σ) cs
  | [] => by simp [substL, evalProd]
  | c :: cs => by simp only [substL, evalProd, eval_subst env σ h c, evalProd_subst env σ h cs]
end

#print axioms eval_subst
end Proto
