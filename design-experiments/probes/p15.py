import warnings; warnings.simplefilter("ignore")
import random, itertools
import pymbolic.primitives as p
from pymbolic import var
rng = random.Random(3)
# C20 repeated fusion
from pymbolic.imperative.statement import Assignment, ConditionalAssignment, Nop
from pymbolic.imperative.transform import fuse_statement_streams_with_unique_ids, disambiguate_and_fuse
def stream(n, ids):
    out=[]
    for i in range(n):
        sid = rng.choice(ids)
        while sid in [s.id for s in out]: sid = sid + "_x"
        deps = [s.id for s in out if rng.random()<0.5]
        k = rng.random()
        if k<0.4: out.append(Assignment(var(rng.choice("ab")), var(rng.choice("xy"))+1, id=sid, depends_on=deps))
        elif k<0.7: out.append(ConditionalAssignment(lhs=var(rng.choice("ab"))[var("i")], rhs=var("x"), condition=p.Comparison(var("z"),"<",1), id=sid, depends_on=deps))
        else: out.append(Nop(id=sid, depends_on=deps))
    return out
bad=0
for it in range(300):
    ids = ["s","s_0","s_1","t","s_2","s_0_0"]
    A = stream(rng.randint(0,4), ids); B = stream(rng.randint(0,4), ids)
    cur = A
    for rep in range(3):
        fused, m = fuse_statement_streams_with_unique_ids(cur, B)
        fids = [s.id for s in fused]
        ok = len(set(fids))==len(fids) and fused[:len(cur)]==list(cur) or all(a is b for a,b in zip(fused, cur))
        ok = len(set(fids))==len(fids) and all(a is b for a,b in zip(fused, cur)) and len(fused)==len(cur)+len(B)
        for sb, sf in zip(B, fused[len(cur):]):
            ok = ok and sf.id == m[sb.id] and set(sf.depends_on) == {m[d] for d in sb.depends_on}
        if not ok:
            bad+=1
            if bad<5: print("FUSE BAD", [(s.id, sorted(s.depends_on)) for s in cur], [(s.id, sorted(s.depends_on)) for s in B], [(s.id, sorted(s.depends_on)) for s in fused], m)
        cur = fused
print("fuse bad", bad)
# C16 matchpy tofrom roundtrip
from pymbolic.interop.matchpy.tofrom import ToMatchpyExpressionMapper, FromMatchpyExpressionMapper
V="abc"
def gen(d):
    if d==0 or rng.random()<0.25: return rng.choice([var(rng.choice(V)), rng.choice([1,2,3])])
    k = rng.randrange(14)
    n = lambda: gen(d-1)
    if k==0: return p.Sum((n(),n(),n()))
    if k==1: return p.Product((n(),n()))
    if k==2: return p.Quotient(n(),n())
    if k==3: return p.Power(n(),n())
    if k==4: return p.Call(var("f"),(n(),n()))
    if k==5: return p.Subscript(var("arr"), rng.choice([n(), (n(),), (n(),n())]))
    if k==6: return p.FloorDiv(n(),n())
    if k==7: return p.Remainder(n(),n())
    if k==8: return p.Comparison(n(), rng.choice(["<","=="]), n())
    if k==9: return p.If(n(),n(),n())
    if k==10: return p.LogicalAnd((n(),n()))
    if k==11: return p.BitwiseXor((n(),n()))
    if k==12: return p.LeftShift(n(),n())
    if k==13: return p.LogicalNot(n())
def canon(e):
    if isinstance(e, (p.Sum, p.Product, p.LogicalAnd, p.LogicalOr, p.BitwiseAnd, p.BitwiseOr, p.BitwiseXor)):
        kids=[]
        for c in e.children:
            cc = canon(c)
            if isinstance(c, type(e)): kids.extend(cc[1])
            else: kids.append(cc)
        return (type(e).__name__, tuple(sorted(kids, key=repr)))
    if isinstance(e, p.Subscript):
        return ("Subscript", canon(e.aggregate), tuple(canon(i) for i in e.index_tuple))
    if isinstance(e, p.Expression):
        import dataclasses
        return (type(e).__name__,)+tuple(canon(getattr(e,f.name)) for f in dataclasses.fields(e))
    if isinstance(e, tuple): return tuple(canon(c) for c in e)
    return e
bad=0
for it in range(5000):
    e = gen(3)
    if not isinstance(e, p.Expression): continue
    try:
        r = FromMatchpyExpressionMapper()(ToMatchpyExpressionMapper()(e))
    except Exception as ex:
        bad+=1
        if bad<5: print("TOFROM EXC", e, type(ex).__name__, ex)
        continue
    if canon(r)!=canon(e):
        bad+=1
        if bad<5: print("TOFROM DIFF", e, "|", r)
print("tofrom bad", bad)
