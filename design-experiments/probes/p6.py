import warnings; warnings.simplefilter("ignore")
import pymbolic as pmbl
import pymbolic.primitives as p
from pymbolic import parse, evaluate, var, differentiate, flatten, expand
from fractions import Fraction as F
import math
x,y,z,a,b,c = [var(n) for n in "xyzabc"]
def show(label, f):
    try:
        print(label, "=>", f())
    except Exception as e:
        print(label, "=> EXC", type(e).__name__, e)
# C10
def fd(e, v, env, h=1e-6):
    e1 = dict(env); e1[v] = env[v]+h
    e0 = dict(env); e0[v] = env[v]-h
    return (evaluate(e, e1)-evaluate(e, e0))/(2*h)
env = {"x": 0.7, "y": 1.3, "math": math, "log": math.log}
import pymbolic.functions as fn
for name, e in [("quot", x/(x*x+y)), ("quot const num", 3/(x+y)), ("quot const den", (x*y)/3), ("pow var exp", x**y), ("pow x^x", x**x), ("pow const base", 2**x), ("pow const exp", (x+y)**3), 
                ("sin", fn.sin(x*y)), ("cos", fn.cos(x*y)), ("tan", fn.tan(x*y)), ("log", fn.log(x*y)), ("exp", fn.exp(x*y)), ("sinh", fn.sinh(x*y)), ("cosh", fn.cosh(x*y)), ("tanh", fn.tanh(x*y)), ("expm1", fn.expm1(x*y)),
                ("prod3", x*y*x), ("cse", p.CommonSubexpression(x*y)*x), ("prod w/ const", 3*x*y)]:
    def f():
        d = differentiate(e, "x")
        return f"{d} | sym={evaluate(d, env):.8f} fd={fd(e,'x',env):.8f}"
    show(name, f)
show("fabs none", lambda: differentiate(fn.fabs(x), "x"))
show("fabs cont", lambda: differentiate(fn.fabs(x), "x", allowed_nonsmoothness="continuous"))
show("sign cont", lambda: differentiate(fn.sign(x), "x", allowed_nonsmoothness="continuous"))
show("sign disc", lambda: differentiate(fn.sign(x), "x", allowed_nonsmoothness="discontinuous"))
show("if none", lambda: differentiate(p.If(p.Comparison(x,"<",0), x, x*x), "x"))
show("if disc", lambda: differentiate(p.If(p.Comparison(x,"<",0), x, x*x), "x", allowed_nonsmoothness="discontinuous"))
show("unknown fn", lambda: differentiate(a(x), "x"))
show("subscript var", lambda: differentiate(a[0]*a[1], a[0]))
show("floor div", lambda: differentiate(p.FloorDiv(x, 2), "x"))
show("remainder", lambda: differentiate(p.Remainder(x, 2), "x"))
show("min", lambda: differentiate(p.Min((x, 2)), "x"))
show("lookup", lambda: differentiate(p.Lookup(x, "f"), "x"))
show("atan2 two-arg", lambda: differentiate(p.Lookup(var("math"),"atan2")(x,y), "x"))
show("fabs(y) wrt x none", lambda: differentiate(fn.fabs(y), "x"))
show("quot df=0", lambda: differentiate(3/(x), "x"))
show("pow log var", lambda: differentiate(2**x, "x"))
# C11
from pymbolic.mapper.constant_folder import ConstantFoldingMapper, CommutativeConstantFoldingMapper
from pymbolic.mapper.collector import TermCollector
show("flatten", lambda: repr(flatten(p.Sum((p.Sum((x,0,p.Sum((y,)))), p.Product((1,z,p.Product((a,1))))))) ))
show("flatten prod 0", lambda: repr(flatten(p.Product((x, p.Product((0,y)))))))
show("cf", lambda: repr(ConstantFoldingMapper()(p.Sum((1,x,2,p.Sum((3,y)))))))
show("ccf", lambda: repr(CommutativeConstantFoldingMapper()(p.Product((2,x,3,p.Product((4,y)))))))
show("cf product untouched", lambda: repr(ConstantFoldingMapper()(p.Product((2,x,3)))))
show("cf with math fn", lambda: repr(ConstantFoldingMapper()(p.Sum((x, fn.sin(1), 2)))))
show("tc", lambda: TermCollector()(p.Sum((p.Product((2,x,y)), p.Product((3,y,x)), p.Product((x,x)), p.Power(x,2)))))
show("tc neg exp", lambda: TermCollector()(p.Sum((p.Power(x,-1), p.Product((2, p.Power(x,-1)))))))
show("tc quotient term", lambda: TermCollector()(p.Sum((p.Quotient(x,y), x))))
show("tc sum term", lambda: TermCollector()(p.Sum((p.Sum((x,y)), x))))
show("expand (x+1)^3", lambda: expand((x+1)**3))
show("expand (x+y)*(x-y)", lambda: expand((x+y)*(x-y)))
show("expand (x*y)**2", lambda: expand((x*y)**2))
show("expand (2*x)**2", lambda: expand((2*x)**2))
show("expand (x+1)**0", lambda: expand(p.Power(x+1, 0)))
show("expand (x+1)**-1", lambda: expand(p.Power(x+1, -1)))
show("expand (x+1)**-2", lambda: expand(p.Power(x+1, -2)))
show("expand quot", lambda: expand((x+1)/(y+1)))
show("expand quot2", lambda: expand(((x+1)*(x+2))/y))
show("expand 3*(x+1)", lambda: expand(3*(x+1)))
show("expand (x+1)*(x+1) - x*x", lambda: expand((x+1)*(x+1) - x*x - 2*x - 1))
show("expand x*(y+z)*a", lambda: expand(x*(y+z)*a))
show("expand ((x+1)**2)**2", lambda: expand(((x+1)**2)**2))
show("expand (x+y)**2 with y param", lambda: expand((x+y)**2, parameters={y}))
show("expand product base with sum", lambda: expand((x*(y+1))**2))
