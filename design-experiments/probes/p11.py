import warnings; warnings.simplefilter("ignore")
import pymbolic as pmbl
import pymbolic.primitives as p
from pymbolic import parse, evaluate, var, substitute, Polynomial, differentiate
x,y,z,a,b,c = [var(n) for n in "xyzabc"]
def show(label, f):
    try:
        print(label, "=>", f())
    except Exception as e:
        print(label, "=> EXC", type(e).__name__, e)
from pymbolic.mapper.substitutor import SubstitutionMapper, make_subst_func
P = Polynomial(x, ((0, a), (1, b), (2, a*b)))
show("poly coeff rewrite", lambda: SubstitutionMapper(make_subst_func({"a": 5}))(P).data)
show("poly coeff rewrite 2nd", lambda: SubstitutionMapper(make_subst_func({"b": 5}))(P).data)
from pymbolic.mapper.evaluator import EvaluationMapper
show("poly eval sym coeff", lambda: EvaluationMapper({"x": 2, "a": 3, "b": 4})(P))
import hashlib
from pymbolic.mapper.persistent_hash import PersistentHashWalkMapper
def ph(e):
    h = hashlib.sha256(); PersistentHashWalkMapper(h)(e); return h.hexdigest()[:12]
e1 = p.CallWithKwargs(a,(b,),{"k":c,"j":x}); e2 = p.CallWithKwargs(a,(b,),{"j":x,"k":c})
show("phash kw order", lambda: (e1==e2, ph(e1), ph(e2)))
show("phash 1 vs 1.0", lambda: (p.Sum((x,1))==p.Sum((x,1.0)), ph(p.Sum((x,1))), ph(p.Sum((x,1.0)))))
show("phash lookup name", lambda: (ph(p.Lookup(a,"f")), ph(p.Lookup(a,"g"))))
show("phash cse prefix", lambda: (ph(p.CommonSubexpression(a,"f")), ph(p.CommonSubexpression(a,"g"))))
show("phash sum vs nested", lambda: (ph(p.Sum((a,p.Sum((b,c))))), ph(p.Sum((p.Sum((a,b)),c)))))
cs = p.Lookup(var("math"),"copysign")
show("d copysign(x,1)/dx disc", lambda: differentiate(cs(x, 1), "x", allowed_nonsmoothness="discontinuous"))
show("flattened_product order", lambda: p.flattened_product([p.Product((a,b)), c]))
show("flattened_sum order", lambda: p.flattened_sum([p.Sum((a,b)), c]))
# optimizer
from pymbolic.mapper import CachedIdentityMapper, IdentityMapper
from pymbolic.mapper.optimize import optimize_mapper
import sys
sys.path.insert(0, "/tmp/probe")
open("/tmp/probe/optm.py","w").write('''
from pymbolic.mapper import CachedIdentityMapper, CachedMapper, IdentityMapper
from pymbolic.mapper.optimize import optimize_mapper
import pymbolic.primitives as p
class Base(CachedIdentityMapper):
    def map_variable(self, expr, suffix):
        return p.Variable(expr.name + suffix)
@optimize_mapper(inline_rec=True, inline_cache=True)
class Opt(CachedIdentityMapper):
    def map_variable(self, expr, suffix):
        return p.Variable(expr.name + suffix)
''')
import optm
def opt():
    m = optm.Opt(); b_ = optm.Base()
    e = x+y
    return str(m(e, "_a")), str(m(e, "_b")), str(m(x*y+x, "_c")), "| base:", str(b_(e,"_a")), str(b_(e,"_b"))
show("optimizer inline_cache with args", opt)
