import warnings; warnings.simplefilter("ignore")
import pymbolic as pmbl
import pymbolic.primitives as p
from pymbolic import parse, evaluate, var, differentiate, flatten, expand
from fractions import Fraction as F
import math
x,y,z,a,b,c = [var(n) for n in "xyzabc"]
def show(label, f):
    try:
        print(label, "=>", f())
    except Exception as e:
        print(label, "=> EXC", type(e).__name__, e)
# C12
from pymbolic.cse import tag_common_subexpressions
show("tag1", lambda: [str(e) for e in tag_common_subexpressions([(x+y)*(y+x), (x+y)+z, a(x+y)])])
show("tag nested", lambda: [str(e) for e in tag_common_subexpressions([(x*y+1)*(x*y+1), x*y])])
show("tag existing cse", lambda: [repr(e) for e in tag_common_subexpressions([p.CommonSubexpression(x+y)+ (x+y), p.CommonSubexpression(x+y, "pre")*2])])
show("tag power", lambda: [str(e) for e in tag_common_subexpressions([x**2 + a(x**2), x**2*3])])
show("tag if", lambda: [str(e) for e in tag_common_subexpressions([p.If(p.Comparison(x+y,"<",0), x+y, 0)])])
def count_calls():
    n = [0]
    def f(v): n[0]+=1; return v
    e = tag_common_subexpressions([a(x+y)*a(y+x) + a(x+y)])
    r = evaluate(e[0], {"a": f, "x":1, "y":2})
    return str(e[0]), r, n[0]
show("tag call count", count_calls)
def count_calls2():
    n = [0]
    def f(v): n[0]+=1; return v
    cse = p.CommonSubexpression(a(x))
    from pymbolic.mapper.evaluator import EvaluationMapper, CachedEvaluationMapper
    m = EvaluationMapper({"a": f, "x":1})
    r = m(cse+cse*cse); k1=n[0]
    r = m(cse); k2=n[0]
    return k1,k2
show("cse eval once", count_calls2)
show("wrap var", lambda: repr(p.make_common_subexpression(x)))
show("wrap_in_cse var", lambda: repr(p.wrap_in_cse(x)))
show("wrap const", lambda: repr(p.make_common_subexpression(3)))
show("wrap cse", lambda: repr(p.make_common_subexpression(p.CommonSubexpression(x+1))))
show("wrap cse scope", lambda: repr(p.make_common_subexpression(p.CommonSubexpression(x+1), scope=p.cse_scope.GLOBAL)))
show("wrap subscript", lambda: repr(p.make_common_subexpression(a[1])))
# C15
from pymbolic.mapper.coefficient import CoefficientCollector
show("coeff", lambda: CoefficientCollector()(3*x + 2*(y+x) - 7))
show("coeff names", lambda: CoefficientCollector(["x"])(3*x*y + 2*(y+x) - 7))
show("coeff nonlin", lambda: CoefficientCollector()(x*y))
show("coeff quot", lambda: CoefficientCollector()((x+1)/3))
show("coeff x/x", lambda: CoefficientCollector()(p.Quotient(x, x)))
show("coeff second factor", lambda: CoefficientCollector()(p.Product((2, x, 3))))
show("coeff x*x", lambda: CoefficientCollector()(p.Product((x, x))))
show("coeff (x+1)*(x+1)", lambda: CoefficientCollector()(p.Product((x+1, x+1))))
show("coeff (x+1)*2*(y)", lambda: CoefficientCollector(["x"])(p.Product((x+1, 2, y))))
show("coeff subscript", lambda: CoefficientCollector()(3*a[0]+a[1]))
show("coeff subscript names", lambda: CoefficientCollector(["a"])(3*a[0]+a[1]))
show("coeff pow", lambda: CoefficientCollector()(x**2))
show("coeff pow const", lambda: CoefficientCollector(["x"])(y**2*x))
show("coeff dup sum", lambda: CoefficientCollector()(p.Sum((x, x, 1, 1))))
show("coeff quot mutation", lambda: (lambda e: (CoefficientCollector()(e), CoefficientCollector()(e)))(p.Quotient(x, 2)))
from pymbolic.algorithm import solve_affine_equations_for, gaussian_elimination, extended_euclidean, gcd, lcm, integer_power
show("solve", lambda: solve_affine_equations_for(["x","y"], [(x+y, a), (x-y, b)]))
show("solve2", lambda: solve_affine_equations_for(["x","y"], [(x+y, 5), (x, 2)]))
show("solve param", lambda: solve_affine_equations_for(["x","y"], [(x+2*y, a+1), (y, b)]))
show("solve underdet", lambda: solve_affine_equations_for(["x","y"], [(x+y, 5)]))
show("solve overdet inconsistent", lambda: solve_affine_equations_for(["x"], [(x, 5), (x, 6)]))
show("solve nonint", lambda: solve_affine_equations_for(["x"], [(2*x, 5)]))
show("solve 2x=4", lambda: solve_affine_equations_for(["x"], [(2*x, 4)]))
show("solve neg", lambda: solve_affine_equations_for(["x"], [(-x, 4)]))
show("solve 3", lambda: solve_affine_equations_for(["x","y","z"], [(x+y+z, 6), (x-y, 0), (z, 2*a)]))
# C19
show("eucl", lambda: [extended_euclidean(q,r) for q,r in [(12,18),(18,12),(-12,18),(12,-18),(0,5),(5,0),(0,0),(7,7),(-7,-7)]])
show("lcm", lambda: [lcm(q,r) for q,r in [(4,6),(-4,6),(0,5)]])
show("lcm00", lambda: lcm(0,0))
show("ipow", lambda: [integer_power(3,n) for n in range(6)])
show("ipow neg", lambda: integer_power(3,-1))
show("ipow F", lambda: integer_power(F(1,2),5))
from pymbolic import Polynomial
X = Polynomial(x)
show("poly", lambda: (X+1)**3)
show("poly eval", lambda: evaluate((X+1)**3, {"x": 2}))
from pymbolic.mapper.evaluator import EvaluationMapper
show("poly eval uncached", lambda: EvaluationMapper({"x": 2})((X+1)**3))
show("poly cancel", lambda: ((X+1)*(X-1)).data)
show("poly sub self", lambda: ((X+1)-(X+1)).data)
show("poly divmod", lambda: divmod((X+1)**3, X+1))
show("poly divmod2", lambda: [q.data for q in divmod(X*X+1, X+1)])
show("poly identity map", lambda: pmbl.mapper.IdentityMapper()((X+1)**2).data)
show("poly subst coeff", lambda: pmbl.mapper.substitutor.SubstitutionMapper(lambda v: None)((X+1)**2))
show("poly hash", lambda: hash(X))
show("poly bool", lambda: bool(Polynomial(x, ())))
show("quotient", lambda: (repr(pmbl.quotient(1,3)), evaluate(pmbl.quotient(1,3)), evaluate(pmbl.quotient(6,3)), evaluate(pmbl.quotient(7,-2))))
show("quotient ops", lambda: (pmbl.quotient(1,3)+pmbl.quotient(1,6)))
