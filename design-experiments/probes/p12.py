import warnings; warnings.simplefilter("ignore")
import random, itertools
import pymbolic.primitives as p
from pymbolic import var, evaluate, substitute, flatten
from pymbolic.mapper.unifier import UnidirectionalUnifier
from pymbolic.cse import tag_common_subexpressions
from pymbolic.mapper.evaluator import EvaluationMapper
from fractions import Fraction as F
rng = random.Random(1)
PV = ["x","y","z"]; TV = ["a","b","c"]
def gen(depth, vars_, consts=True):
    if depth == 0 or rng.random() < 0.25:
        if consts and rng.random() < 0.25: return rng.choice([1,2,3])
        return var(rng.choice(vars_))
    k = rng.random()
    if k < 0.3: return p.Sum(tuple(gen(depth-1, vars_) for _ in range(rng.choice([2,2,3]))))
    if k < 0.6: return p.Product(tuple(gen(depth-1, vars_) for _ in range(rng.choice([2,2,3]))))
    if k < 0.7: return p.Power(gen(depth-1, vars_), gen(depth-1, vars_))
    if k < 0.8: return p.Quotient(gen(depth-1, vars_), gen(depth-1, vars_))
    if k < 0.9: return p.Call(var("f"), (gen(depth-1, vars_),))
    return p.Comparison(gen(depth-1, vars_), "<", gen(depth-1, vars_))
def acnorm(e):
    # normal form modulo AC of sum/product, flattening
    if isinstance(e, (p.Sum, p.Product)):
        kids = []
        for ch in e.children:
            n = acnorm(ch)
            if type(n) is tuple and n[0] == type(e).__name__: kids.extend(n[1])
            else: kids.append(n)
        # drop neutral
        neutral = 0 if isinstance(e, p.Sum) else 1
        kids = [k for k in kids if not (k == ("c", neutral))]
        kids.sort(key=repr)
        if len(kids) == 1: return kids[0]
        if len(kids) == 0: return ("c", neutral)
        return (type(e).__name__, tuple(kids))
    if isinstance(e, p.Variable): return ("v", e.name)
    if isinstance(e, p.Power): return ("pow", acnorm(e.base), acnorm(e.exponent))
    if isinstance(e, p.Quotient): return ("quo", acnorm(e.numerator), acnorm(e.denominator))
    if isinstance(e, p.Call): return ("call", acnorm(e.function), tuple(acnorm(c) for c in e.parameters))
    if isinstance(e, p.Comparison): return ("cmp", acnorm(e.left), e.operator, acnorm(e.right))
    return ("c", e)
bad = 0; nrec = 0; nonempty = 0; tot=0; incomplete=0
for it in range(4000):
    pat = gen(3, PV)
    if rng.random() < 0.6:
        # target as instance
        sig = {v: gen(1, TV) for v in PV}
        tgt = substitute(pat, sig)
    else:
        tgt = gen(3, TV)
    cands = rng.choice([["x","y","z"], ["x","y"], ["x"]])
    try:
        recs = UnidirectionalUnifier(cands)(pat, tgt)
    except Exception as ex:
        print("EXC", type(ex).__name__, ex, pat, "|", tgt); continue
    tot += 1
    if recs: nonempty += 1
    for r in recs:
        nrec += 1
        m = dict(r.lmap)
        if not set(m) <= set(cands):
            bad += 1; print("BINDS NONCAND", pat, "|", tgt, m); continue
        inst = substitute(pat, m)
        if acnorm(inst) != acnorm(tgt):
            bad += 1
            if bad < 8: print("UNSOUND", pat, "|", tgt, "|", m, "|", inst)
print("unifier: cases", tot, "nonempty", nonempty, "records", nrec, "bad", bad)
# completeness under injective renaming
inc = 0
for it in range(1500):
    pat = gen(3, PV, consts=True)
    ren = dict(zip(PV, rng.sample(TV, 3)))
    tgt = substitute(pat, {k: var(v) for k, v in ren.items()})
    try:
        recs = UnidirectionalUnifier(PV)(pat, tgt)
    except Exception as ex:
        print("EXC2", type(ex).__name__, ex, pat); continue
    if not recs:
        inc += 1
        if inc < 6: print("INCOMPLETE", pat, "|", tgt)
print("renaming incomplete", inc)
# C12 tagging value preservation + CSE(CSE)
def has_cse_cse(e):
    from pymbolic.mapper import WalkMapper
    found=[False]
    class W(WalkMapper):
        def visit(self, ex, *a):
            if isinstance(ex, p.CommonSubexpression) and isinstance(ex.child, p.CommonSubexpression): found[0]=True
            return True
    W()(e); return found[0]
badv=0
for it in range(1500):
    es = [gen(3, TV) for _ in range(rng.choice([1,2,3]))]
    if rng.random()<0.5:
        es.append(p.Sum((es[0], p.CommonSubexpression(es[-1], rng.choice([None,"q"])))))
    try:
        ts = tag_common_subexpressions(es)
    except Exception as ex:
        print("EXC3", type(ex).__name__, ex, es); continue
    env = {"a": F(1,2), "b": F(3), "c": F(-2,3), "f": lambda v: v*v+1}
    for e, t in zip(es, ts):
        try: v1 = EvaluationMapper(env)(e)
        except Exception as ex: v1 = type(ex).__name__
        try: v2 = EvaluationMapper(env)(t)
        except Exception as ex: v2 = type(ex).__name__
        if v1 != v2:
            badv+=1
            if badv<5: print("CSE VALUE", e, "|", t, v1, v2)
        if has_cse_cse(t):
            badv+=1; print("CSE CSE", e, "|", t)
print("cse bad", badv)
