import warnings; warnings.simplefilter("ignore")
import pymbolic as pmbl
import pymbolic.primitives as p
from pymbolic import parse, evaluate, var, substitute
from fractions import Fraction as F
import numpy as np
x,y,z,a,b,c = [var(n) for n in "xyzabc"]
def show(label, f):
    try:
        print(label, "=>", f())
    except Exception as e:
        print(label, "=> EXC", type(e).__name__, e)
from pymbolic.mapper.unifier import UnidirectionalUnifier
def uni(pat, tgt, cands):
    recs = UnidirectionalUnifier(cands)(pat, tgt)
    out=[]
    for r in recs:
        out.append((sorted((str(l),str(rh)) for l,rh in r.equations), sorted(r.lmap.items(), key=str)))
    return out
show("u1", lambda: uni(x+y, a+b*c, ["x","y"]))
show("u2 same var twice", lambda: uni(x*x, a*b, ["x"]))
show("u3 same var twice ok", lambda: uni(x*x, a*a, ["x"]))
show("u4 3 vars", lambda: uni(x+y+z, a+b+c, ["x","y"]))
show("u5 fewer", lambda: uni(x+y, a+b+c, ["x","y"]))
show("u6 nonvar", lambda: uni(x+2*y, a+2*b, ["x","y"]))
show("u7 power", lambda: uni(x**y, a**(b+c), ["x","y"]))
show("u8 call", lambda: uni(a(x, y), a(b, c+1), ["x","y"]))
show("u9 const mismatch", lambda: uni(x+1, a+2, ["x"]))
show("u10 x+a vs a", lambda: uni(x+a, p.Sum((a,)), ["x"]))
show("u11 cmp", lambda: uni(p.Comparison(x,"<",y), p.Comparison(a,"<",b+1), ["x","y"]))
show("u12 if", lambda: uni(p.If(x,y,z), p.If(a,b,c), ["x","y","z"]))
show("u13 quotient", lambda: uni(x/y, (a+1)/b, ["x","y"]))
show("u14 subscript", lambda: uni(a[x], a[b+1], ["x"]))
show("u15 2*x vs x*2", lambda: uni(2*x, p.Product((a,2)), ["x"]))
show("u16 literal var", lambda: uni(x+c, a+c, ["x"]))
show("u17 rename", lambda: uni(x*y+x, a*b+a, ["x","y"]))
show("u18 rename2", lambda: uni(x*y+x, a*b+b, ["x","y"]))
# C18 GA
from pymbolic.geometric_algebra import MultiVector, Space
sp = Space(3)
e0 = MultiVector({1:1}, sp); e1 = MultiVector({2:1}, sp); e2=MultiVector({4:1}, sp)
show("zero eq 0", lambda: ((e0-e0)==0, bool(e0-e0), (e0-e0)==MultiVector({}, sp), MultiVector(0, sp).data))
show("e0*e1", lambda: (e0*e1, e1*e0, e0*e0))
show("inv", lambda: ((e0*e1).inv()*(e0*e1), (e0^e1^e2).inv()*(e0^e1^e2)))
sp2 = Space(["a","b"], np.array([[1,0],[0,-1]], dtype=object))
f0 = MultiVector({1:1}, sp2); f1=MultiVector({2:1}, sp2)
show("metric", lambda: (f0*f0, f1*f1, (f0*f1)*(f0*f1), (f0*f1).inv()*(f0*f1)))
sp3 = Space(["a","b"], np.array([[2,0],[0,0]], dtype=object))
g0 = MultiVector({1:1}, sp3); g1=MultiVector({2:1}, sp3)
show("null", lambda: (g1*g1, g0*g0, (g0).inv()*g0))
show("null inv", lambda: g1.inv())
show("hash eq", lambda: (hash(e0+e1)==hash(e1+e0), (e0+e1)==(e1+e0)))
show("mv frac", lambda: (MultiVector({1:F(1,2)}, sp)*MultiVector({1:F(2,3)}, sp)))
show("sym coeff", lambda: (MultiVector({1:x}, sp)*MultiVector({2:y}, sp), MultiVector({1:x}, sp)*MultiVector({1:y}, sp)))
show("sym cancel", lambda: (MultiVector({1:x}, sp)-MultiVector({1:x}, sp)).data)
show("sym sum cancel", lambda: (MultiVector({1:x}, sp)+MultiVector({1:-x}, sp)).data)
show("dual", lambda: (e0.dual(), (e0^e1).dual(), e0.I))
show("tuple init", lambda: MultiVector({(1,0): 3, (0,1): 1}, sp).data)
# C20
from pymbolic.imperative.statement import Assignment, ConditionalAssignment, Nop
from pymbolic.imperative.transform import fuse_statement_streams_with_unique_ids, disambiguate_identifiers, disambiguate_and_fuse
from pymbolic.imperative.utils import get_dot_dependency_graph
s1 = Assignment(a[x], y+1, id="s")
show("reads", lambda: (s1.get_read_variables(), s1.get_written_variables()))
s2 = ConditionalAssignment(lhs=a, rhs=y, condition=p.Comparison(z,"<",1), id="t", depends_on=["s"])
show("reads cond", lambda: (s2.get_read_variables(), s2.get_written_variables()))
A=[Assignment(a, x+1, id="s"), Assignment(b, a, id="s_0", depends_on=["s"])]
B=[Assignment(c, x+2, id="s"), Assignment(y, c, id="s_0", depends_on=["s"]), Nop(id="s_1", depends_on=["s","s_0"])]
def fuse():
    r, m = fuse_statement_streams_with_unique_ids(A,B)
    return [(s.id, sorted(s.depends_on), str(s)) for s in r], m
show("fuse", fuse)
def dis():
    r, m = disambiguate_identifiers(A,B)
    return [str(s) for s in r], m
show("disamb", dis)
def dis2():
    A2=[Assignment(a[x], 1, id="s")]
    B2=[Assignment(b, x, id="s")]
    r, m = disambiguate_identifiers(A2,B2)
    return [str(s) for s in r], m
show("disamb lhs-only", dis2)
C=[Nop(id="n1"), Nop(id="n2", depends_on=["n1"]), Nop(id="n3", depends_on=["n1","n2"]), Nop(id="n4", depends_on=["n1","n2","n3"])]
show("dot", lambda: [l for l in get_dot_dependency_graph(C).split("\n") if "->" in l])
