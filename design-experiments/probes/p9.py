import warnings; warnings.simplefilter("ignore")
import sys, pickle, base64
import pymbolic.primitives as p
from pymbolic import parse, var, compile as pcompile
e = parse("x + y*f(z, k=3)[1].a")
mode = sys.argv[1]
if mode == "dump":
    h = hash(e)  # compute hash before pickling
    ce = pcompile(parse("x+y*2"), ["x"])
    sys.stdout.write(base64.b64encode(pickle.dumps((e, ce, h))).decode())
else:
    e2, ce2, h_prod = pickle.loads(base64.b64decode(sys.stdin.read()))
    print("eq", e2 == e, "hash_eq_local", hash(e2) == hash(e), "hash_eq_producer", hash(e2) == h_prod, "in set", e2 in {e}, "has _hash_value pre", ce2(1,2))
