import warnings; warnings.simplefilter("ignore")
import operator as op, itertools
import pymbolic.primitives as p
from pymbolic import var, evaluate
from pymbolic.mapper.evaluator import EvaluationMapper
from fractions import Fraction as F
x, y = var("x"), var("y")
ops = {"+":op.add,"-":op.sub,"*":op.mul,"/":op.truediv,"//":op.floordiv,"%":op.mod,"**":op.pow,"<<":op.lshift,">>":op.rshift,"&":op.and_,"|":op.or_,"^":op.xor}
exprs = {"x": x, "x+y": x+y, "x*y": x*y, "x/y": p.Quotient(x,y), "x**y": p.Power(x,y), "f(x)": var("f")(x)}
consts = [0, 1, -1, 2, 0.0, 1.0, True, False]
envs = [dict(x=a, y=b, f=lambda v: v) for a in [0,1,-1,2,F(1,2),3] for b in [0,1,-1,2,F(3,2)]]
def plain(f, a, b):
    try: return ("ok", f(a(),b()) )
    except Exception as e: return ("exc", type(e).__name__)
seen=set()
def check(name, build, plainf):
    try:
        t = build()
    except Exception as e:
        t = ("BUILD-EXC", type(e).__name__)
    for env in envs:
        pv = plainf(env)
        if pv[0] != "ok": continue
        if isinstance(t, tuple) and t and t[0]=="BUILD-EXC":
            key=(name,"build")
            if key not in seen: seen.add(key); print("BUILD", name, t[1], "plain ok e.g.", pv[1])
            return
        try: tv = ("ok", EvaluationMapper(env)(t))
        except Exception as e: tv = ("exc", type(e).__name__)
        if tv != pv and not (tv[0]=="ok" and tv[1]==pv[1]):
            key=(name,)
            if key not in seen:
                seen.add(key); print("DIFF", name, "tree=", repr(t), "env x,y=", env["x"], env["y"], "tree->", tv, "plain->", pv)
for on, f in ops.items():
    for en, e in exprs.items():
        ev = lambda env, e=e: EvaluationMapper(env)(e)
        for c in consts:
            check(f"({en}) {on} {c!r}", lambda: f(e, c), lambda env: plain(f, lambda: ev(env), lambda: c))
            check(f"{c!r} {on} ({en})", lambda: f(c, e), lambda env: plain(f, lambda: c, lambda: ev(env)))
        for en2, e2 in exprs.items():
            ev2 = lambda env, e2=e2: EvaluationMapper(env)(e2)
            check(f"({en}) {on} ({en2})", lambda: f(e, e2), lambda env: plain(f, lambda: ev(env), lambda: ev2(env)))
for en, e in exprs.items():
    ev = lambda env, e=e: EvaluationMapper(env)(e)
    check(f"-({en})", lambda: -e, lambda env: plain(lambda a,b: -a, lambda: ev(env), lambda: 0))
    check(f"+({en})", lambda: +e, lambda env: plain(lambda a,b: +a, lambda: ev(env), lambda: 0))
    check(f"~({en})", lambda: ~e, lambda env: plain(lambda a,b: ~a, lambda: ev(env), lambda: 0))
print("done")
