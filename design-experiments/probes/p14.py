import warnings; warnings.simplefilter("ignore")
import random, operator as op
import pymbolic.primitives as p
from pymbolic import var
from pymbolic.mapper.dependency import DependencyMapper, CachedDependencyMapper
from pymbolic.mapper.evaluator import EvaluationMapper, CachedEvaluationMapper
from fractions import Fraction as F
rng = random.Random(7)
V = ["a","b","c"]
def gen(d, ctx="num"):
    if d == 0 or rng.random() < 0.2:
        if ctx == "bool": return rng.choice([True, False, p.Comparison(var("a"), "<", var("b"))])
        if ctx == "int": return rng.choice([var("i"), var("j"), 1, 2, 3])
        return rng.choice([var(rng.choice(V)), rng.choice([0,1,2,-1,3])])
    k = rng.randrange(22)
    if ctx == "bool":
        k = rng.choice([100,101,102,103])
    if ctx == "int":
        k = rng.choice([0,1,8,9,10,11,12,13,14])
    n = lambda c=ctx: gen(d-1, c if c != "bool" else "num")
    if k == 0: return p.Sum(tuple(n() for _ in range(rng.choice([1,2,3]))))
    if k == 1: return p.Product(tuple(n() for _ in range(rng.choice([1,2,3]))))
    if k == 2: return p.Quotient(n(), n())
    if k == 3: return p.Power(n(), gen(d-1, "int"))
    if k == 4: return p.Call(var("f"), tuple(n() for _ in range(rng.choice([0,1,2]))))
    if k == 5: return p.CallWithKwargs(var("g"), (n(),), {"k": n(), "j": n()})
    if k == 6: return p.Subscript(var("arr"), gen(d-1, "int"))
    if k == 7: return p.Lookup(var("obj"), rng.choice(["u","v"]))
    if k == 8: return p.FloorDiv(gen(d-1,"int"), gen(d-1,"int"))
    if k == 9: return p.Remainder(gen(d-1,"int"), gen(d-1,"int"))
    if k == 10: return p.LeftShift(gen(d-1,"int"), gen(d-1,"int"))
    if k == 11: return p.RightShift(gen(d-1,"int"), gen(d-1,"int"))
    if k == 12: return p.BitwiseOr(tuple(gen(d-1,"int") for _ in range(2)))
    if k == 13: return p.BitwiseXor(tuple(gen(d-1,"int") for _ in range(2)))
    if k == 14: return p.BitwiseNot(gen(d-1,"int"))
    if k == 15: return p.If(gen(d-1,"bool"), n(), n())
    if k == 16: return p.Min(tuple(n() for _ in range(2)))
    if k == 17: return p.Max(tuple(n() for _ in range(2)))
    if k == 18: return p.CommonSubexpression(n(), rng.choice([None,"q"]))
    if k == 19: return p.Subscript(var("arr"), (gen(d-1,"int"),))
    if k == 20: return p.BitwiseAnd(tuple(gen(d-1,"int") for _ in range(2)))
    if k == 21: return p.Sum((n(), p.Product((-1, n()))))
    if k == 100: return p.Comparison(gen(d-1,"num"), rng.choice(["<","<=","==","!=",">",">="]), gen(d-1,"num"))
    if k == 101: return p.LogicalAnd(tuple(gen(d-1,"bool") for _ in range(2)))
    if k == 102: return p.LogicalOr(tuple(gen(d-1,"bool") for _ in range(2)))
    if k == 103: return p.LogicalNot(gen(d-1,"bool"))
# independent oracle for evaluation
class Obj: u = 5; v = F(1,2)
def ev(e, env):
    if isinstance(e, p.Variable): return env[e.name]
    if not isinstance(e, p.Expression): return e
    t = type(e)
    from functools import reduce
    if t is p.Sum:
        r = 0
        for c in e.children: r = r + ev(c, env)
        return r
    if t is p.Product:
        r = 1
        for c in e.children: r = r * ev(c, env)
        return r
    if t is p.Quotient: return ev(e.numerator, env) / ev(e.denominator, env)
    if t is p.FloorDiv: return ev(e.numerator, env) // ev(e.denominator, env)
    if t is p.Remainder: return ev(e.numerator, env) % ev(e.denominator, env)
    if t is p.Power: return ev(e.base, env) ** ev(e.exponent, env)
    if t is p.Call: return ev(e.function, env)(*[ev(c, env) for c in e.parameters])
    if t is p.CallWithKwargs: return ev(e.function, env)(*[ev(c, env) for c in e.parameters], **{k: ev(v, env) for k, v in e.kw_parameters.items()})
    if t is p.Subscript:
        idx = e.index
        return ev(e.aggregate, env)[tuple(ev(i, env) for i in idx) if isinstance(idx, tuple) else ev(idx, env)]
    if t is p.Lookup: return getattr(ev(e.aggregate, env), e.name)
    if t is p.LeftShift: return ev(e.shiftee, env) << ev(e.shift, env)
    if t is p.RightShift: return ev(e.shiftee, env) >> ev(e.shift, env)
    if t is p.BitwiseOr: return reduce(op.or_, [ev(c, env) for c in e.children])
    if t is p.BitwiseXor: return reduce(op.xor, [ev(c, env) for c in e.children])
    if t is p.BitwiseAnd: return reduce(op.and_, [ev(c, env) for c in e.children])
    if t is p.BitwiseNot: return ~ev(e.child, env)
    if t is p.If: return ev(e.then, env) if ev(e.condition, env) else ev(e.else_, env)
    if t is p.Min: return min(ev(c, env) for c in e.children)
    if t is p.Max: return max(ev(c, env) for c in e.children)
    if t is p.CommonSubexpression: return ev(e.child, env)
    if t is p.Comparison:
        return {"<":op.lt,"<=":op.le,"==":op.eq,"!=":op.ne,">":op.gt,">=":op.ge}[e.operator](ev(e.left, env), ev(e.right, env))
    if t is p.LogicalAnd:
        for c in e.children:
            if not ev(c, env): return False
        return True
    if t is p.LogicalOr:
        for c in e.children:
            if ev(c, env): return True
        return False
    if t is p.LogicalNot: return not ev(e.child, env)
    raise NotImplementedError(t)
class Arr(dict):
    def __getitem__(self, k): return ("arr", k)
def outcome(f):
    try: return ("ok", f())
    except RecursionError: raise
    except Exception as ex: return ("exc", type(ex).__name__, str(ex) if isinstance(ex, KeyError) or type(ex).__name__=="UnknownVariableError" else "")
bad = 0; n=0; kinds={}
for it in range(20000):
    e = gen(4)
    env = {"a": rng.choice([0,1,-2,F(1,2),3]), "b": rng.choice([0,1,2,F(-3,2)]), "c": rng.choice([1,5]), "i": rng.choice([0,1,2,-1]), "j": rng.choice([1,3]),
           "f": lambda *a: ("f",)+a, "g": lambda *a, **k: ("g",)+a+tuple(sorted(k.items())), "arr": Arr(), "obj": Obj()}
    if rng.random() < 0.1: del env[rng.choice(["a","b","i"])]
    o1 = outcome(lambda: ev(e, env))
    if o1[0]=="exc" and o1[1]=="KeyError": o1 = ("exc","UnknownVariableError", o1[2].strip("'"))
    o2 = outcome(lambda: EvaluationMapper(env)(e))
    o3 = outcome(lambda: CachedEvaluationMapper(env)(e))
    n+=1; kinds[o1[0] if o1[0]=="ok" else o1[1]] = kinds.get(o1[0] if o1[0]=="ok" else o1[1],0)+1
    if not (o1 == o2 == o3):
        if o1[0]=="ok" and o2[0]=="ok" and o1[1]==o2[1]==o3[1]: continue
        bad+=1
        if bad<8: print("EVAL DIFF", e, {k:v for k,v in env.items() if k in "abcij"}, o1, o2, o3)
print("eval cases", n, "bad", bad, kinds)
# deps oracle
def occ(e, fl, out):
    if isinstance(e, p.Variable): out.add(e); return
    if not isinstance(e, p.Expression):
        if isinstance(e, (tuple, list)):
            for c in e: occ(c, fl, out)
        return
    t = type(e)
    if t is p.Subscript and fl["subs"]: out.add(e); return
    if t is p.Lookup and fl["look"]: out.add(e); return
    if t in (p.Call, p.CallWithKwargs):
        if fl["calls"] is True: out.add(e); return
        if fl["calls"] == "descend_args":
            for c in e.parameters: occ(c, fl, out)
            if t is p.CallWithKwargs:
                for c in e.kw_parameters.values(): occ(c, fl, out)
            return
    if t is p.CommonSubexpression and fl["cses"]: out.add(e); return
    import dataclasses
    for f in dataclasses.fields(e):
        val = getattr(e, f.name)
        if f.name in ("name","operator","prefix","scope"): continue
        if isinstance(val, dict) or hasattr(val, "items"):
            for c in val.values(): occ(c, fl, out)
        else: occ(val, fl, out)
bad=0; n=0
for it in range(6000):
    e = gen(4)
    for subs in [True, False]:
      for look in [True, False]:
        for calls in [True, False, "descend_args"]:
          for cses in [True, False]:
            fl = dict(subs=subs, look=look, calls=calls, cses=cses)
            out=set(); occ(e, fl, out)
            for M in (DependencyMapper, CachedDependencyMapper):
                r = outcome(lambda: M(include_subscripts=subs, include_lookups=look, include_calls=calls, include_cses=cses)(e))
                n+=1
                if r != ("ok", out):
                    bad+=1
                    if bad<6: print("DEPS DIFF", e, fl, M.__name__, r, out)
print("deps cases", n, "bad", bad)
