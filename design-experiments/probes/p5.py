import warnings; warnings.simplefilter("ignore")
import pymbolic as pmbl
import pymbolic.primitives as p
from pymbolic import parse, evaluate, var
from fractions import Fraction as F
x,y,z,a,b,c = [var(n) for n in "xyzabc"]
def show(label, f):
    try:
        print(label, "=>", f())
    except Exception as e:
        print(label, "=> EXC", type(e).__name__, e)
# C05
from pymbolic.mapper import CachedIdentityMapper, IdentityMapper
from pymbolic.mapper.evaluator import CachedEvaluationMapper, EvaluationMapper
def c05a():
    m = CachedEvaluationMapper({"x": 2})
    r1 = m(p.Sum((x, 4)))
    r2 = m(p.Sum((x, 4.0)))
    r3 = m(p.Sum((x, True)))
    return r1, r2, r3, type(r1), type(r2)
show("cached eval nested 4 vs 4.0", c05a)
def c05b():
    m = CachedEvaluationMapper({"x": 2})
    return m(4), m(4.0), m(True), m(1), m(1.0)
show("cached eval top consts", c05b)
def c05c():
    m = CachedIdentityMapper()
    e1 = p.Sum((x,4)); e2 = p.Sum((x,4.0))
    return repr(m(e1)), repr(m(e2))
show("cached identity nested", c05c)
# C08
from pymbolic import substitute
show("swap", lambda: substitute(x+2*y, {"x": y, "y": x}))
show("subst subscript key", lambda: substitute(a[x]+x, {a[x]: y, "x": z}))
show("subst lookup key", lambda: substitute(p.Lookup(a,"f")+a, {p.Lookup(a,"f"): y, "a": z}))
show("subst var key", lambda: substitute(x+y, {x: 5}, y=7))
show("subst in kwargs", lambda: substitute(p.CallWithKwargs(a,(x,),{"k":x}), {"x": 5}))
show("subst in slice", lambda: substitute(a[p.Slice((x,None,x))], {"x": 5}))
show("subst in fn", lambda: substitute(x(x), {"x": y}))
show("subst shared is", lambda: (lambda e: substitute(e, {"q": 1}) is e)(x+y*z))
show("subst lookup name untouched", lambda: substitute(p.Lookup(a,"x"), {"x": 5}))
show("subst CSE", lambda: repr(substitute(p.CommonSubexpression(x+1), {"x": -1})))
show("subst derivative", lambda: repr(substitute(p.Derivative(x*y,("x",)), {"x": 3})))
show("subst substitution", lambda: repr(substitute(p.Substitution(x*y,("x",),(y,)), {"x": 3, "y":4})))
# C09
from pymbolic.mapper.dependency import DependencyMapper
e = a[x] + p.Lookup(b,"f") + c(y, z) + p.CommonSubexpression(x+1)
for flags in [dict(), dict(composite_leaves=False), dict(include_calls="descend_args"), dict(include_cses=True), dict(include_subscripts=False)]:
    show(f"deps {flags}", lambda: sorted(map(str, DependencyMapper(**flags)(e))))
show("deps kw descend", lambda: sorted(map(str, DependencyMapper(include_calls="descend_args")(p.CallWithKwargs(a,(x,),{"k":y})))))
show("deps kw nocalls", lambda: sorted(map(str, DependencyMapper(include_calls=False)(p.CallWithKwargs(a,(x,),{"k":y})))))
show("deps if/cmp/min", lambda: sorted(map(str, DependencyMapper()(p.If(p.Comparison(a,"<",b), p.Min((x,y)), p.Max((z,c)))))))
show("deps shift/bit", lambda: sorted(map(str, DependencyMapper()(p.LeftShift(a, p.BitwiseNot(b)) + p.BitwiseXor((x,y))))))
show("deps subst", lambda: sorted(map(str, DependencyMapper()(p.Substitution(x*y,("x",),(y,))))))
show("deps deriv", lambda: sorted(map(str, DependencyMapper()(p.Derivative(x*y,("x",))))))
show("deps tuple/list", lambda: sorted(map(str, DependencyMapper()((x,[y,z])))))
show("deps slice", lambda: sorted(map(str, DependencyMapper(include_subscripts=False)(a[p.Slice((x,None,y))]))))
from pymbolic.mapper.analysis import get_num_nodes
show("nodes", lambda: (get_num_nodes(x+x*y), get_num_nodes(p.Sum((x,4))+p.Sum((x,4.0))), get_num_nodes(p.Product((4, 4.0, x)))))
from pymbolic.mapper.flop_counter import FlopCounter, CSEAwareFlopCounter
cse = p.CommonSubexpression(x*y+1)
show("flops", lambda: (FlopCounter()(cse*cse + x/y + x**2), CSEAwareFlopCounter()(cse*cse+ x/y + x**2)))
show("flops rem floordiv", lambda: (FlopCounter()(p.Remainder(x,y)), FlopCounter()(p.FloorDiv(x,y))))
show("flops if", lambda: FlopCounter()(p.If(p.Comparison(a,"<",b), x+y, x*y*z)))
show("flops call", lambda: FlopCounter()(a(x+y, x*y)))
show("flops shift", lambda: FlopCounter()(p.LeftShift(x+y, 2)))
show("flops empty", lambda: FlopCounter()(p.Sum(())))
