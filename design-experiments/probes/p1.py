import warnings; warnings.simplefilter("ignore")
import pymbolic as pmbl
import pymbolic.primitives as p
from pymbolic import parse, evaluate, var
x,y,z,a,b,c = [var(n) for n in "xyzabc"]
def show(label, f):
    try:
        print(label, "=>", f())
    except Exception as e:
        print(label, "=> EXC", type(e).__name__, e)

# C07 parser vs python
for s in ["-x**2", "a | b ^ c", "a & b == c", "not a == b", "a*b//c", "2*3//4", "a*b%c", "a//b*c", "-a*b", "~a**2", "a < b < c", "a+b*c", "a-b-c", "a/b/c", "2**-1", "-2**2", "a<<b+c", "a<<b<<c", "a**b**c", "a if b else c if x else y", "a or b and c", "not a and b", "a & b | c", "a ^ b & c", "+a", "a == b == c", "1 if a else 2 + 3", "a.b.c(1)[2]", "f(x, y=2)", "-a.b", "-a[1]", "-f(x)", "a* -b", "a - -b", "a % b % c", "a*b/c*x", "a//b//c"]:
    def f():
        e = parse(s)
        env = dict(x=3,y=5,z=7,a=2,b=3,c=4)
        class O: pass
        try:
            pv = evaluate(e, env)
        except Exception as ex:
            pv = "EXC "+type(ex).__name__
        try:
            ev = eval(s, {}, env)
        except Exception as ex:
            ev = "EXC "+type(ex).__name__
        return f"{e!r} | pymb={pv} py={ev} {'OK' if pv==ev else 'DIFF'}"
    show(s, f)
