import warnings; warnings.simplefilter("ignore")
import pymbolic as pmbl
import pymbolic.primitives as p
from pymbolic import parse, evaluate, var
x,y,z,a,b,c = [var(n) for n in "xyzabc"]
def show(label, f):
    try:
        print(label, "=>", f())
    except Exception as e:
        print(label, "=> EXC", type(e).__name__, e)
# C13
show("compile 2 unlisted", lambda: pmbl.compile(x+y*z, ["z"])(1,2,3))
show("compile 1 unlisted", lambda: pmbl.compile(x+z*z, ["z"])(1,2))
from pymbolic.interop.ast import to_python_ast, ASTToPymbolic, to_evaluatable_python_function
import ast
show("toast rshift", lambda: ast.unparse(ast.fix_missing_locations(ast.Expression(to_python_ast(p.RightShift(a,b))))))
show("toast lshift", lambda: ast.unparse(ast.fix_missing_locations(ast.Expression(to_python_ast(p.LeftShift(a,b))))))
show("toast sum3", lambda: ast.unparse(ast.fix_missing_locations(ast.Expression(to_python_ast(p.Sum((a,b,c)))))))
show("toast cmp", lambda: ast.unparse(ast.fix_missing_locations(ast.Expression(to_python_ast(p.Comparison(a,"<",b))))))
show("toast neg const", lambda: ast.unparse(ast.fix_missing_locations(ast.Expression(to_python_ast(p.Power(-2,a))))))
show("toast bool", lambda: ast.unparse(ast.fix_missing_locations(ast.Expression(to_python_ast(p.LogicalAnd((True,a)))))))
show("fromast ~", lambda: repr(ASTToPymbolic()(ast.parse("~a", mode="eval").body)))
show("fromast |", lambda: repr(ASTToPymbolic()(ast.parse("a|b", mode="eval").body)))
show("fromast and", lambda: repr(ASTToPymbolic()(ast.parse("a and b", mode="eval").body)))
show("fromast +a", lambda: repr(ASTToPymbolic()(ast.parse("+a", mode="eval").body)))
show("fromast a[1:2]", lambda: repr(ASTToPymbolic()(ast.parse("a[1:2]", mode="eval").body)))
show("fromast a<b<c", lambda: repr(ASTToPymbolic()(ast.parse("a<b<c", mode="eval").body)))
show("fromast -a", lambda: repr(ASTToPymbolic()(ast.parse("-a", mode="eval").body)))
show("fromast f(x,k=1)", lambda: repr(ASTToPymbolic()(ast.parse("f(x,k=1)", mode="eval").body)))
show("tofunc", lambda: to_evaluatable_python_function(parse("S//32 + E%32 + f(x)"), "foo"))
show("tofunc subscript", lambda: to_evaluatable_python_function(parse("a[i] + b.c"), "foo"))
show("tofunc slice", lambda: to_evaluatable_python_function(p.Subscript(a, p.Slice((1,None,2))), "foo"))
# C14
from pymbolic.mapper.c_code import CCodeMapper
def ccm():
    m = CCodeMapper()
    u = p.CommonSubexpression(3*x**2-5, "u")
    r1 = m(u/(u+3)*(u+5))
    m2 = m.copy()
    r2 = m2(p.CommonSubexpression(x+1,"u") + u)
    return r1, m.cse_name_list, r2, m2.cse_name_list, m2.cse_names
show("ccm copy", ccm)
def ccm2():
    m = CCodeMapper()
    r=[]
    r.append(m(p.CommonSubexpression(x+1,"u")))
    r.append(m(p.CommonSubexpression(x+2,"u")))
    r.append(m(p.CommonSubexpression(x+3,"u_2")))
    r.append(m(p.CommonSubexpression(x+4,"u")))
    r.append(m(p.CommonSubexpression(x+1)))
    r.append(m(p.CommonSubexpression(x+5)))
    return r, m.cse_name_list
show("ccm names", ccm2)
show("c a - b", lambda: CCodeMapper()(a - b*c + (-1)*x*y))
show("c neg first", lambda: CCodeMapper()((-1)*a + b))
show("c only neg", lambda: CCodeMapper()(p.Sum(((-1)*a, (-1)*b))))
show("c a-(b+c)", lambda: CCodeMapper()(a - (b+c)))
show("c a-(b-c)", lambda: CCodeMapper()(p.Sum((a, p.Product((-1, p.Sum((b, p.Product((-1,c))))))))))
show("c pow", lambda: CCodeMapper()(a**b + a**2 + (a+b)**2 + a**3))
show("c floordiv", lambda: CCodeMapper()(p.FloorDiv(a+b, c*x) + p.Remainder(a, b)))
show("c floordiv of floordiv", lambda: CCodeMapper()(p.FloorDiv(a, p.FloorDiv(b, c))))
show("c if", lambda: CCodeMapper()(p.If(p.Comparison(a,"<",b), a, b)))
show("c sort", lambda: CCodeMapper()(p.Product((a, p.Sum((b,c)), x))))
show("c quot", lambda: CCodeMapper()(p.Quotient(a, p.Product((b,c)))))
show("c neg prod in quot", lambda: CCodeMapper()(p.Quotient(p.Sum((a, p.Product((-1,b)))), c)))
show("c neg (-1)*(b+c)", lambda: CCodeMapper()(p.Sum((a, p.Product((-1, b, c))))))
show("c - sum", lambda: CCodeMapper()(p.Sum((a, p.Product((-1, p.Quotient(b, c)))))))
