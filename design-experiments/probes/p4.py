import warnings; warnings.simplefilter("ignore")
import pymbolic as pmbl
import pymbolic.primitives as p
from pymbolic import parse, evaluate, var
x,y,z,a,b,c = [var(n) for n in "xyzabc"]
def show(label, f):
    try:
        print(label, "=>", f())
    except Exception as e:
        print(label, "=> EXC", type(e).__name__, e)
# C04 walk slice
from pymbolic.mapper import WalkMapper, IdentityMapper, CombineMapper, Collector
class W(WalkMapper):
    def __init__(self): self.log=[]
    def visit(self, e, *a, **k): self.log.append(("v",repr(e),a,tuple(k.items()))); return True
    def post_visit(self, e, *a, **k): self.log.append(("p",repr(e),a,tuple(k.items())))
def w(e,*a,**k):
    m=W(); m(e,*a,**k); return m.log
show("walk slice1", lambda: w(p.Slice((a,))))
show("walk slice2", lambda: w(p.Slice((a,b))))
show("walk slice3None", lambda: w(p.Slice((None,b,None))))
show("walk subst args", lambda: w(p.Substitution(a,("a",),(b,)), 1))
show("walk lshift order", lambda: w(p.LeftShift(a,b)))
from pymbolic.geometric_algebra import MultiVector
import numpy as np
show("walk mv args", lambda: w(MultiVector(np.array([a,b],dtype=object)), 7))
show("identity slice none", lambda: IdentityMapper()(p.Slice((None,b,None))))
show("identity kwargs unchanged is", lambda: (lambda e: IdentityMapper()(e) is e)(p.CallWithKwargs(a,(b,),{"k":c})))
show("identity cse zero", lambda: IdentityMapper()(p.CommonSubexpression(0)))
show("identity min", lambda: (lambda e: IdentityMapper()(e) is e)(p.Min((a,b))))
show("identity nan", lambda: (lambda e: IdentityMapper()(e) is e)(p.NaN()))
show("identity derivative", lambda: (lambda e: IdentityMapper()(e) is e)(p.Derivative(a,("a",))))
class Col(Collector):
    def map_variable(self, e, *a, **k): return {e}
show("collector slice", lambda: Col()(p.Slice((a,b))))
show("collector if", lambda: Col()(p.If(a,b,c)))
show("collector subst", lambda: Col()(p.Substitution(a,("a",),(b,))))
show("collector deriv", lambda: Col()(p.Derivative(a,("a",))))
show("collector min", lambda: Col()(p.Min((a,b))))
show("collector nan", lambda: Col()(p.NaN()))
show("collector cse", lambda: Col()(p.CommonSubexpression(a+b)))
show("collector kwargs", lambda: Col()(p.CallWithKwargs(a,(b,),{"k":c})))
show("foreign str", lambda: IdentityMapper()("abc"))
show("foreign None", lambda: IdentityMapper()(None))
show("identity list", lambda: IdentityMapper()([a,b]))
# C01
show("eq 1 1.0 True", lambda: (p.Sum((x,1))==p.Sum((x,1.0)), p.Sum((x,1))==p.Sum((x,True)), hash(p.Sum((x,1)))==hash(p.Sum((x,1.0)))))
show("nan eq", lambda: (p.NaN()==p.NaN(), p.Sum((x,float("nan")))==p.Sum((x,float("nan")))))
def setattr_test():
    e = p.Sum((x,1))
    try:
        e.children = (y,)
    except Exception as ex:
        return type(ex).__name__
    return "no exception"
show("setattr", setattr_test)
def delattr_test():
    e = p.Sum((x,1))
    try:
        del e.children
    except Exception as ex:
        return type(ex).__name__
    return "no exception"
show("delattr", delattr_test)
show("kw eq", lambda: (p.CallWithKwargs(a,(b,),{"k":c,"j":x})==p.CallWithKwargs(a,(b,),{"j":x,"k":c}), hash(p.CallWithKwargs(a,(b,),{"k":c,"j":x}))==hash(p.CallWithKwargs(a,(b,),{"j":x,"k":c}))))
show("cmp name", lambda: (p.Comparison(a,"lt",b)==p.Comparison(a,"<",b)))
show("cse scope none", lambda: (p.CommonSubexpression(a,None,None)==p.CommonSubexpression(a)))
show("var vs str", lambda: (p.Variable("a")=="a"))
show("subclass eq", lambda: None)
# legacy
class Legacy(p.Expression):
    def __init__(self, u, v): self.u=u; self.v=v
    def __getinitargs__(self): return (self.u, self.v)
    init_arg_names=("u","v")
    mapper_method="map_legacy"
show("legacy eq", lambda: (Legacy(1,2)==Legacy(1,2), Legacy(1,2)==Legacy(1,3), hash(Legacy(1,2))==hash(Legacy(1,2))))
class LegacySub(p.Variable):
    def __init__(self, name, tag): super().__init__(name); object.__setattr__(self,"tag",tag)
    def __getinitargs__(self): return (self.name, self.tag)
    init_arg_names=("name","tag")
show("legacysub eq", lambda: (LegacySub("a",1)==LegacySub("a",1), LegacySub("a",1)==LegacySub("a",2), LegacySub("a",1)==p.Variable("a"), p.Variable("a")==LegacySub("a",1)))
@p.expr_dataclass()
class MyVar(p.Variable):
    tag: int
show("dc sub", lambda: (MyVar("a",1)==MyVar("a",1), MyVar("a",1)==MyVar("a",2), MyVar("a",1)==p.Variable("a"), p.Variable("a")==MyVar("a",1), MyVar.mapper_method))
