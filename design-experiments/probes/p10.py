import warnings; warnings.simplefilter("ignore")
import pymbolic.primitives as p
from pymbolic import var
from pymbolic.mapper import CachedIdentityMapper, IdentityMapper, CachedMapper
x,y = var("x"), var("y")
class M(CachedIdentityMapper):
    def map_variable(self, expr, suffix):
        return p.Variable(expr.name + suffix)
m = M()
print(m(x+y, "_a"), m(x+y, "_b"), m(x+y, suffix="_c"))
class N(CachedIdentityMapper):
    n = 0
    def map_variable(self, expr):
        N.n += 1
        return expr
n = N(); e = (x+y)*(x+y)+(y+x); n(e); n(e); print("calls", N.n)
