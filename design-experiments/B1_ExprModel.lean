namespace Proto

inductive Expr where
  | const (n : Int)
  | var (name : String)
  | sum (cs : List Expr)
  | prod (cs : List Expr)
  | quot (a b : Expr)
  | ite (c t e : Expr)
  | cse (child : Expr) (prefix_ : Option String)
  deriving Repr, BEq, Inhabited

inductive Err where
  | unknownVar (n : String)
  | zeroDiv
  deriving Repr, BEq, DecidableEq

abbrev Env := String → Option Int

mutual
def eval (env : Env) : Expr → Except Err Int
  | .const n => pure n
  | .var x => match env x with
    | some v => pure v
    | none => throw (.unknownVar x)
  | .sum cs => evalSum env cs
  | .prod cs => evalProd env cs
  | .quot a b => do
      let x ← eval env a
      let y ← eval env b
      if y = 0 then throw .zeroDiv else pure (x / y)
  | .ite c t e => do
      let cv ← eval env c
      if cv ≠ 0 then eval env t else eval env e
  | .cse ch _ => eval env ch
def evalSum (env : Env) : List Expr → Except Err Int
  | [] => pure 0
  | c :: cs => do
      let x ← eval env c
      let r ← evalSum env cs
      pure (x + r)
def evalProd (env : Env) : List Expr → Except Err Int
  | [] => pure 1
  | c :: cs => do
      let x ← eval env c
      let r ← evalProd env cs
      pure (x * r)
end

-- substitution
mutual
def subst (σ : String → Option Expr) : Expr → Expr
  | .const n => .const n
  | .var x => match σ x with
    | some e => e
    | none => .var x
  | .sum cs => .sum (substL σ cs)
  | .prod cs => .prod (substL σ cs)
  | .quot a b => .quot (subst σ a) (subst σ b)
  | .ite c t e => .ite (subst σ c) (subst σ t) (subst σ e)
  | .cse ch p => .cse (subst σ ch) p
def substL (σ : String → Option Expr) : List Expr → List Expr
  | [] => []
  | c :: cs => subst σ c :: substL σ cs
end

def envSubst (env : Env) (σ : String → Option Expr) : String → Option (Except Err Int) :=
  fun x => match σ x with
    | some e => some (eval env e)
    | none => (env x).map pure

end Proto
