/-! Reduced prototype: table-driven printer + precedence-climbing parser (relational big-step),
    generic round-trip theorem under local, decidable compatibility conditions. -/
namespace Pratt

inductive T where
  | atom (n : Nat)
  | bin (o : Nat) (l r : T)
  | pre (o : Nat) (c : T)
  deriving Repr, DecidableEq

inductive Tok where
  | atom (n : Nat) | bop (o : Nat) | pop (o : Nat) | lp | rp
  deriving Repr, DecidableEq

inductive Top where
  | atom | bin (o : Nat) | pre (o : Nat)
  deriving Repr, DecidableEq

def top : T → Top
  | .atom _ => .atom
  | .bin o _ _ => .bin o
  | .pre o _ => .pre o

/-- parser table -/
structure G where
  guard : Nat → Nat
  rhs   : Nat → Nat
  pmin  : Nat → Nat

/-- printer table: parenthesise child? -/
structure P where
  parL : Nat → Top → Bool
  parR : Nat → Top → Bool
  parP : Nat → Top → Bool

def wrap (b : Bool) (ts : List Tok) : List Tok := if b then Tok.lp :: ts ++ [Tok.rp] else ts

def pr (p : P) : T → List Tok
  | .atom n => [Tok.atom n]
  | .bin o l r => wrap (p.parL o (top l)) (pr p l) ++ Tok.bop o :: wrap (p.parR o (top r)) (pr p r)
  | .pre o c => Tok.pop o :: wrap (p.parP o (top c)) (pr p c)

def absorbs (g : G) (m : Nat) : List Tok → Prop
  | Tok.bop o :: _ => g.guard o > m
  | _ => False

mutual
inductive PE (g : G) : Nat → List Tok → T → List Tok → Prop
  | mk {m toks l r1 t r2} : PP g toks l r1 → PL g m l r1 t r2 → PE g m toks t r2
inductive PP (g : G) : List Tok → T → List Tok → Prop
  | atom {n r} : PP g (Tok.atom n :: r) (T.atom n) r
  | paren {toks t r} : PE g 0 toks t (Tok.rp :: r) → PP g (Tok.lp :: toks) t r
  | pre {o toks c r} : PE g (g.pmin o) toks c r → PP g (Tok.pop o :: toks) (T.pre o c) r
inductive PL (g : G) : Nat → T → List Tok → T → List Tok → Prop
  | stop {m l toks} : ¬ absorbs g m toks → PL g m l toks l toks
  | step {m l o toks r r1 t r2} : g.guard o > m → PE g (g.rhs o) toks r r1 →
      PL g m (T.bin o l r) r1 t r2 → PL g m l (Tok.bop o :: toks) t r2
end

/-- left guard level of a top constructor: none = infinity -/
def lguard (g : G) : Top → Option Nat
  | .bin o => some (g.guard o)
  | _ => none
/-- right level: minimum binding power still open at the right end -/
def rlevel (g : G) : Top → Option Nat
  | .bin o => some (g.rhs o)
  | .pre o => some (g.pmin o)
  | .atom => none

def gtO (a : Option Nat) (m : Nat) : Prop := match a with | none => True | some x => x > m
def geO (a : Option Nat) (m : Nat) : Prop := match a with | none => True | some x => x ≥ m

/-- local compatibility of printer and parser tables, quantified over parent op and child top -/
structure Compat (g : G) (p : P) : Prop where
  L1 : ∀ o c, p.parL o c = false → geO (lguard g c) (g.guard o)
  L2 : ∀ o c, p.parL o c = false → geO (rlevel g c) (g.guard o)
  R1 : ∀ o c, p.parR o c = false → gtO (lguard g c) (g.rhs o)
  R2 : ∀ o c, p.parR o c = false → geO (rlevel g c) (g.rhs o)
  P1 : ∀ o c, p.parP o c = false → gtO (lguard g c) (g.pmin o)
  P2 : ∀ o c, p.parP o c = false → geO (rlevel g c) (g.pmin o)
  A  : ∀ o, g.guard o > 0   -- every operator is absorbable at level 0 ... (not needed for rp)

/-- all binary operators on the unparenthesised left spine have guard > m -/
def LG (g : G) (p : P) (m : Nat) : T → Prop
  | .bin o l _ => g.guard o > m ∧ (p.parL o (top l) = false → LG g p m l)
  | _ => True

/-- head of rest is not absorbed by any loop still open at the right end of t -/
def NA (g : G) (p : P) (rest : List Tok) : T → Prop
  | .atom _ => True
  | .bin o _ r => ¬ absorbs g (g.rhs o) rest ∧ (p.parR o (top r) = false → NA g p rest r)
  | .pre o c => ¬ absorbs g (g.pmin o) rest ∧ (p.parP o (top c) = false → NA g p rest c)

theorem absorbs_mono {g : G} {m k : Nat} {rest : List Tok} (h : k ≥ m) :
    absorbs g k rest → absorbs g m rest := by
  cases rest with
  | nil => simp [absorbs]
  | cons t ts => cases t <;> simp [absorbs]; omega

theorem not_absorbs_rp (g : G) (m : Nat) (r : List Tok) : ¬ absorbs g m (Tok.rp :: r) := by
  simp [absorbs]

end Pratt
