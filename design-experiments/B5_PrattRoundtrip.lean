import Proto.Pratt
namespace Pratt

variable {g : G} {p : P}

def REge (g : G) (p : P) (k : Nat) : T → Prop
  | .atom _ => True
  | .bin o _ r => g.rhs o ≥ k ∧ (p.parR o (top r) = false → REge g p k r)
  | .pre o c => g.pmin o ≥ k ∧ (p.parP o (top c) = false → REge g p k c)

theorem geO_trans {a : Option Nat} {x y : Nat} (h : geO a x) (hxy : x ≥ y) : geO a y := by
  cases a <;> simp [geO] at *; omega
theorem gtO_of_geO {a : Option Nat} {x y : Nat} (h : geO a x) (hxy : x > y) : gtO a y := by
  cases a <;> simp [geO, gtO] at *; omega

theorem reGe_of_top (hc : Compat g p) : ∀ (t : T) (k : Nat), geO (rlevel g (top t)) k → REge g p k t
  | .atom _, _, _ => trivial
  | .bin o _ r, k, h => by
      have hk : g.rhs o ≥ k := by simpa [rlevel, top, geO] using h
      exact ⟨hk, fun hr => reGe_of_top hc r k (geO_trans (hc.R2 o _ hr) hk)⟩
  | .pre o c, k, h => by
      have hk : g.pmin o ≥ k := by simpa [rlevel, top, geO] using h
      exact ⟨hk, fun hr => reGe_of_top hc c k (geO_trans (hc.P2 o _ hr) hk)⟩

theorem na_of_reGe {rest : List Tok} {k : Nat} (hk : ¬ absorbs g k rest) :
    ∀ t : T, REge g p k t → NA g p rest t
  | .atom _, _ => trivial
  | .bin o _ r, h => ⟨fun ha => hk (absorbs_mono h.1 ha), fun hr => na_of_reGe hk r (h.2 hr)⟩
  | .pre o c, h => ⟨fun ha => hk (absorbs_mono h.1 ha), fun hr => na_of_reGe hk c (h.2 hr)⟩

theorem lg_of_top (hc : Compat g p) : ∀ (t : T) (m : Nat), gtO (lguard g (top t)) m → LG g p m t
  | .atom _, _, _ => trivial
  | .pre _ _, _, _ => trivial
  | .bin o l _, m, h => by
      have hm : g.guard o > m := by simpa [lguard, top, gtO] using h
      exact ⟨hm, fun hl => lg_of_top hc l m (gtO_of_geO (hc.L1 o _ hl) hm)⟩

theorem lg_zero (hc : Compat g p) : ∀ t : T, LG g p 0 t
  | .atom _ => trivial
  | .pre _ _ => trivial
  | .bin o l _ => ⟨hc.A o, fun _ => lg_zero hc l⟩

theorem na_rp (R : List Tok) : ∀ t : T, NA g p (Tok.rp :: R) t
  | .atom _ => trivial
  | .bin _ _ r => ⟨not_absorbs_rp _ _ _, fun _ => na_rp R r⟩
  | .pre _ c => ⟨not_absorbs_rp _ _ _, fun _ => na_rp R c⟩

theorem not_absorbs_self (o : Nat) (X : List Tok) : ¬ absorbs g (g.guard o) (Tok.bop o :: X) := by
  simp [absorbs]

/-- main lemma: parsing `pr t ++ R` at level `m` behaves like continuing the loop with `left = t`. -/
theorem main (hc : Compat g p) : ∀ (t : T) (m : Nat) (R : List Tok) (t' : T) (R' : List Tok),
    LG g p m t → NA g p R t → PL g m t R t' R' → PE g m (pr p t ++ R) t' R'
  | .atom n, m, R, t', R', _, _, hpl => by
      simpa [pr] using PE.mk PP.atom hpl
  | .pre o c, m, R, t', R', _, hna, hpl => by
      have hstop : ¬ absorbs g (g.pmin o) R := hna.1
      have hop : PE g (g.pmin o) (wrap (p.parP o (top c)) (pr p c) ++ R) c R := by
        cases hb : p.parP o (top c) with
        | true =>
          have h0 := main hc c 0 (Tok.rp :: R) c (Tok.rp :: R) (lg_zero hc c) (na_rp R c)
            (PL.stop (not_absorbs_rp _ _ _))
          have : PP g (Tok.lp :: (pr p c ++ Tok.rp :: R)) c R := PP.paren h0
          simpa [wrap, List.append_assoc] using PE.mk this (PL.stop hstop)
        | false =>
          have hlg : LG g p (g.pmin o) c := lg_of_top hc c _ (hc.P1 o _ hb)
          simpa [wrap] using main hc c (g.pmin o) R c R hlg (hna.2 hb) (PL.stop hstop)
      simpa [pr] using PE.mk (PP.pre hop) hpl
  | .bin o l r, m, R, t', R', hlg, hna, hpl => by
      have hstop : ¬ absorbs g (g.rhs o) R := hna.1
      have hop : PE g (g.rhs o) (wrap (p.parR o (top r)) (pr p r) ++ R) r R := by
        cases hb : p.parR o (top r) with
        | true =>
          have h0 := main hc r 0 (Tok.rp :: R) r (Tok.rp :: R) (lg_zero hc r) (na_rp R r)
            (PL.stop (not_absorbs_rp _ _ _))
          have : PP g (Tok.lp :: (pr p r ++ Tok.rp :: R)) r R := PP.paren h0
          simpa [wrap, List.append_assoc] using PE.mk this (PL.stop hstop)
        | false =>
          have hlg' : LG g p (g.rhs o) r := lg_of_top hc r _ (hc.R1 o _ hb)
          simpa [wrap] using main hc r (g.rhs o) R r R hlg' (hna.2 hb) (PL.stop hstop)
      have hX : PL g m l (Tok.bop o :: (wrap (p.parR o (top r)) (pr p r) ++ R)) t' R' :=
        PL.step hlg.1 hop hpl
      cases hb : p.parL o (top l) with
      | true =>
        have h0 := main hc l 0 (Tok.rp :: Tok.bop o :: (wrap (p.parR o (top r)) (pr p r) ++ R)) l _
          (lg_zero hc l) (na_rp _ l) (PL.stop (not_absorbs_rp _ _ _))
        have hpp : PP g (Tok.lp :: (pr p l ++ Tok.rp :: Tok.bop o :: (wrap (p.parR o (top r)) (pr p r) ++ R))) l _ :=
          PP.paren h0
        simpa [pr, hb, wrap, List.append_assoc] using PE.mk hpp hX
      | false =>
        have hna' : NA g p (Tok.bop o :: (wrap (p.parR o (top r)) (pr p r) ++ R)) l :=
          na_of_reGe (not_absorbs_self o _) l (reGe_of_top hc l _ (hc.L2 o _ hb))
        simpa [pr, hb, wrap, List.append_assoc] using
          main hc l m _ t' R' (hlg.2 hb) hna' hX

/-- round trip: the whole printed string parses back to the tree. -/
theorem roundtrip (hc : Compat g p) (t : T) : PE g 0 (pr p t) t [] := by
  have hna : NA g p [] t := na_of_reGe (k := 0) (by simp [absorbs]) t
    (by
      have : ∀ t : T, REge g p 0 t := by
        intro t; induction t with
        | atom n => trivial
        | bin o l r _ ihr => exact ⟨Nat.zero_le _, fun _ => ihr⟩
        | pre o c ih => exact ⟨Nat.zero_le _, fun _ => ih⟩
      exact this t)
  simpa using main hc t 0 [] t [] (lg_zero hc t) hna (PL.stop (by simp [absorbs]))

#print axioms roundtrip
end Pratt
