namespace DM
inductive Expr where
  | const (n : Int)
  | var (x : String)
  | sum (cs : List Expr)
  | prod (cs : List Expr)
  | quot (a b : Expr)
  deriving Repr, Inhabited

mutual
def diff (v : String) : Expr → Expr
  | .const _ => .const 0
  | .var x => if x = v then .const 1 else .const 0
  | .sum cs => .sum (diffL v cs)
  | .prod cs => .sum (dprod v [] cs)
  | .quot f g => .quot (.sum [.prod [diff v f, g], .prod [.const (-1), diff v g, f]]) (.prod [g, g])
def diffL (v : String) : List Expr → List Expr
  | [] => []
  | c :: cs => diff v c :: diffL v cs
/-- terms `pre * c' * cs` for every split `pre ++ c :: cs` — the shape pymbolic's map_product builds -/
def dprod (v : String) (pre : List Expr) : List Expr → List Expr
  | [] => []
  | c :: cs => .prod (pre ++ diff v c :: cs) :: dprod v (pre ++ [c]) cs
end
end DM
