import PV.Model.Sexp
import PV.Model.Expr
import PV.Model.PyNum
import PV.Model.PyEq
import PV.Model.Eval
import PV.Driver.Ops
import PV.Model.Ops
import PV.Model.Traverse
