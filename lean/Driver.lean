import PV.Driver.Ops
open PV PV.Driver

partial def loop (h : IO.FS.Stream) (out : IO.FS.Stream) : IO Unit := do
  let line ← h.getLine
  if line.isEmpty then return ()
  let reply := match Sexp.parse line with
    | some req => handle req
    | none => bad "parse"
  out.putStrLn (toString reply)
  loop h out

def main : IO Unit := do
  let out ← IO.getStdout
  loop (← IO.getStdin) out
  out.flush
