import PV.Model.Sexp
import PV.Model.SymFft
/- Driver operation for the symbolic FFT (C19).

  `(c19-symfft "z" (x0 x1 …))`

answers the trees `fft(wrap_intermediate(x), wrap_intermediate=wrap_intermediate)` builds on the
expressions `x_j` when the twiddle `exp(sign·(-2πi)·e/n)` is the symbol `symTw z e` (`1` for
`e = 0`, `Power(z, e)` otherwise): a list of trees, or `(err)` when an operator refused its
operands. -/
namespace PV.Driver
open PV PV.Algo

def handleSymFft : Sexp → Option Sexp
  | .list [.atom "c19-symfft", z, .list xs] => do
      let z ← z.text
      let es ← Expr.ofSexpL? xs
      pure (match symFftAll (symTw z) es with
        | some ts => .list (ts.map Expr.toSexp)
        | none => .list [.atom "err"])
  | _ => none

end PV.Driver
