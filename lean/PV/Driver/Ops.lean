import PV.Model.Eval
import PV.Model.Ops
import PV.Model.Traverse
import PV.Driver.GAOps
import PV.Driver.LexOps
import PV.Driver.EvalTableOps
import PV.Driver.SubstOps
import PV.Driver.C13GroupOps
import PV.Driver.MatchpyOps
import PV.Driver.CseTallyOps
import PV.Driver.NodeCountOps
import PV.Driver.AlgoFftOps
import PV.Driver.CompileOps
import PV.Driver.EqHashOps
import PV.Driver.CCodeOps
import PV.Driver.MemoOps
import PV.Driver.UnifyOps
import PV.Driver.RewriteOps
import PV.Driver.PickleOps
import PV.Driver.DiffOps
import PV.Driver.CoeffOps
import PV.Driver.CseOps
import PV.Driver.ImpOps
import PV.Driver.AlgoOps
import PV.Driver.SyntaxOps
import PV.Driver.DispatchOps
import PV.Driver.CseTableOps
import PV.Driver.ParserTableOps
import PV.Driver.CodegenOps
import PV.Driver.AlgoTableOps
import PV.Driver.CoeffTableOps
import PV.Driver.RewriteTableOps
import PV.Driver.C18TableOps
import PV.Driver.StrTableOps
import PV.Driver.AnalysisHistOps
import PV.Driver.OpsSyntaxOps
import PV.Driver.CCodeProgOps
import PV.Driver.MemoArgsOps
import PV.Driver.RationalOps
import PV.Driver.SymFftOps
import PV.Driver.ForeignOps
import PV.Driver.StockNodesOps
import PV.Driver.CompileHistOps
import PV.Driver.CCodeBodiesOps
import PV.Driver.AlgoScalarOps
/-
  Driver operations: one request S-expression in, one reply S-expression out.
-/
namespace PV.Driver
open PV

def envOfSexp? : Sexp → Option Env
  | .list kvs => kvs.mapM fun kv => match kv with
    | .list [n, v] => do pure ((← n.text), (← Value.ofSexp? v))
    | _ => none
  | _ => none

def bad (msg : String) : Sexp := Sexp.mk "bad-op" [Sexp.str msg]

def pynumOp (op : String) (a b : Value) : Option R :=
  match op with
  | "add" => some (a.add b) | "sub" => some (a.sub b) | "mul" => some (a.mul b)
  | "truediv" => some (a.div b) | "floordiv" => some (a.floordiv b) | "mod" => some (a.mod b)
  | "pow" => some (a.pow b) | "lshift" => some (a.lshift b) | "rshift" => some (a.rshift b)
  | "and" => some (a.band b) | "or" => some (a.bor b) | "xor" => some (a.bxor b)
  | "eq" => some (Value.cmp .eq a b) | "ne" => some (Value.cmp .ne a b)
  | "lt" => some (Value.cmp .lt a b) | "le" => some (Value.cmp .le a b)
  | "gt" => some (Value.cmp .gt a b) | "ge" => some (Value.cmp .ge a b)
  | "invert" => some a.invert | "neg" => some a.neg
  | "truth" => some (a.truthy.map Value.bool)
  | "getitem" => some (a.index b)
  | "min" => some (Value.minmax true [a, b]) | "max" => some (Value.minmax false [a, b])
  | _ => none

def OpErr.toSexp : OpErr → Sexp
  | .typeError => Sexp.mk "err" [.atom "TypeError"]
  | .assertion => Sexp.mk "err" [.atom "AssertionError"]
  | .noClaim => Sexp.mk "noclaim" []

def OpR.toSexp : OpR → Sexp
  | .ok e => e.toSexp
  | .error e => OpErr.toSexp e

def unOpOfName? : String → Option PyUnOp
  | "neg" => some .neg | "pos" => some .pos | "invert" => some .invert | _ => none

partial def progOfSexp? : Sexp → Option OpProg
  | .list [.atom "leaf", e] => (Expr.ofSexp? e).map .leaf
  | .list [.atom "bin", .atom o, p, q] => do
      pure (.bin (← PyBinOp.ofName? o) (← progOfSexp? p) (← progOfSexp? q))
  | .list [.atom "un", .atom o, p] => do
      pure (.un (← unOpOfName? o) (← progOfSexp? p))
  | _ => none

def handleOps : Sexp → Option Sexp
  | .list [.atom "opprog", p] =>
    match progOfSexp? p with
    | some p => some (OpR.toSexp p.build)
    | none => some (bad "opprog")
  | .list [.atom "truthy", e] =>
    match Expr.ofSexp? e with
    | some e => some (Sexp.ofBool e.truthy)
    | none => some (bad "truthy")
  | .list (.atom "flatsum" :: es) =>
    match Expr.ofSexpL? es with
    | some es => some (flattenedSum es).toSexp
    | none => some (bad "flatsum")
  | .list (.atom "flatprod" :: es) =>
    match Expr.ofSexpL? es with
    | some es => some (flattenedProduct es).toSexp
    | none => some (bad "flatprod")
  | _ => none

def handleCore : Sexp → Sexp
  | .list [.atom "pynum", .atom op, a, b] =>
    match Value.ofSexp? a, Value.ofSexp? b with
    | some a, some b => match pynumOp op a b with
      | some r => R.toSexp r
      | none => bad "pynum op"
    | _, _ => bad "pynum value"
  | .list [.atom "den", env, e] =>
    match envOfSexp? env, Expr.ofSexp? e with
    | some env, some e => R.toSexp (den env e)
    | _, _ => bad "den args"
  | .list [.atom "evalhist", .atom c, env, .list es] =>
    match envOfSexp? env, Expr.ofSexpL? es with
    | some env, some es => .list ((runHist (c == "true") env es {}).map R.toSexp)
    | _, _ => bad "evalhist args"
  | .list [.atom "echo", e] =>
    match Expr.ofSexp? e with
    | some e => e.toSexp
    | none => bad "echo"
  | _ => bad "unknown request"

def substMapOfSexp? : Sexp → Option SubstMap
  | .list entries => do
      let mut σ : SubstMap := {}
      for en in entries do
        match en with
        | .list [.atom "name", n, v] =>
          σ := { σ with byName := σ.byName ++ [((← n.text), (← Expr.ofSexp? v))] }
        | .list [.atom "expr", k, v] =>
          σ := { σ with byExpr := σ.byExpr ++ [((← Expr.ofSexp? k), (← Expr.ofSexp? v))] }
        | _ => none
      pure σ
  | _ => none

def depErrToSexp : DepErr → Sexp
  | .unsupported => Sexp.mk "err" [.atom "Unsupported"]
  | .foreign => Sexp.mk "err" [.atom "Foreign"]
  | .unhashable => Sexp.mk "err" [.atom "TypeError"]

def depFlagsOfSexp? : Sexp → Option DepFlags
  | .list [.atom s, .atom l, .atom c, .atom cs] =>
    some { subscripts := s == "true", lookups := l == "true",
           calls := if c == "yes" then .yes else if c == "no" then .no else .descend,
           cses := cs == "true" }
  | _ => none

/-- canonical (sorted) rendering of a set of expressions -/
def setToSexp (xs : List Expr) : Sexp :=
  let strs := (xs.map fun e => toString e.toSexp).toArray.qsort (· < ·)
  .list (strs.toList.map .atom)

def eventsToSexp (ev : List Event) : Sexp :=
  .list (ev.map fun e => .list [.atom (if e.post then "post" else "visit"), e.node.toSexp,
    Sexp.ofBool e.args])

def handleTraverse : Sexp → Option Sexp
  | .list [.atom "subst", sg, e] =>
    match substMapOfSexp? sg, Expr.ofSexp? e with
    | some σ, some e =>
      let (r, ch) := substM σ e
      some (.list [r.toSexp, Sexp.ofBool ch])
    | _, _ => some (bad "subst")
  | .list [.atom "deps", fl, .atom cached, e] =>
    match depFlagsOfSexp? fl, Expr.ofSexp? e with
    | some fl, some e =>
      if cached == "true" && e.hasList then some (depErrToSexp .unhashable) else
      match deps fl e with
      | .ok xs => some (setToSexp xs)
      | .error err => some (depErrToSexp err)
    | _, _ => some (bad "deps")
  | .list [.atom "walk", .list skip, .atom args, e] =>
    match strList? skip, Expr.ofSexp? e with
    | some skip, some e => match walk skip (args == "true") e with
      | .ok ev => some (eventsToSexp ev)
      | .error err => some (depErrToSexp err)
    | _, _ => some (bad "walk")
  | .list [.atom "combine", e] =>
    match Expr.ofSexp? e with
    | some e => match combineL e with
      | .ok xs => some (.list (xs.map Expr.toSexp))
      | .error err => some (depErrToSexp err)
    | none => some (bad "combine")
  | .list [.atom "numnodes", e] =>
    match Expr.ofSexp? e with
    | some e => match c09NumNodes e with
      | .ok n => some (Sexp.ofNat n)
      | .error err => some (depErrToSexp err)
    | none => some (bad "numnodes")
  | .list [.atom "flops", .atom aware, .list es] =>
    match Expr.ofSexpL? es with
    | some es =>
      -- successive calls on ONE counter instance (the CSE seen-set persists)
      let rec go (es : List Expr) (seen : List Expr) : List Sexp :=
        match es with
        | [] => []
        | e :: rest =>
          -- a counter instance is not used again after it raised (its seen-set is then in an
          -- intermediate state): the history stops at the first error
          if aware != "true" && e.hasList then [depErrToSexp .unhashable]
          else match flopsG (aware == "true") e seen with
            | .ok (n, seen') => Sexp.ofNat n :: go rest seen'
            | .error err => [depErrToSexp err]
      some (.list (go es []))
    | none => some (bad "flops")
  | _ => none

/-- per-property request handlers, tried in order (each returns `none` for foreign requests) -/
def handlers : List (Sexp → Option Sexp) :=
  [handleGA, handleAlgo, handleSyntax, handleDispatch, handleTraverse, handleOps
   , handleImp
   , handleCse
   , handleCoeff
   , handleDiff
   , handlePickle
   , handleRewrite
   , handleUnify
   , handleMemo
   , handleCCode
   , handleEqHash
   , handleCompile
   , handleC19Fft
   , handleNodeCount
   , handleCseTally
   , handleMatchpy
   , handleC13Groups
   , handleSubst
   , handleEvalTable
   , handleLex
   , handleCseTable
   , handleParserTable
   , handleCodegen
   , handleC19Table
   , handleCoeffTable
   , handleRewriteTable
   , handleC18Table
   , handleStrTable
   , handleAnalysisHist
   , handleOpsSyntax
   , handleCCodeProg
   , handleMemoArgs
   , handleRational
   , handleSymFft
   , handleForeignReg
   , handleStockNodes
   , handleCompileHist
   , handleCCodeBodies
   , handleAlgoScalar
   -- HANDLERS
  ]

def handle (req : Sexp) : Sexp :=
  match handlers.findSome? (fun h => h req) with
  | some r => r
  | none => handleCore req

end PV.Driver
