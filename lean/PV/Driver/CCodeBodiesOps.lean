import PV.Model.Sexp
import PV.Model.CCodeBodies
import PV.Generated.Prec
import PV.Driver.CCodeOps
/- Driver operations for mappers constructed from an explicit assignment list (C14, stream
   `ccode-bodies`). -/
namespace PV.Driver
open PV

def cbodyOpOfSexp? : Sexp → Option CBodyOp
  | .list [.atom "copylist", i, j, k, .list pairs] => do
      let ps ← pairs.mapM fun p => match p with
        | .list [n, e] => do pure ((← n.text), (← Expr.ofSexp? e))
        | _ => none
      pure (.copyList (← i.nat?) (← j.nat?) (← k.nat?) ps)
  | s => do pure (.op (← copnOfSexp? s))

def handleCCodeBodies : Sexp → Option Sexp
  | .list [.atom "ccode-bodies", .atom rev, .atom pfx, .list ops] =>
    match ops.mapM cbodyOpOfSexp? with
    | none => some (.list [.atom "bad-op", Sexp.str "ccode-bodies"])
    | some ops =>
      let st0 : CSt := { reverse := rev == "true", pfx := (Sexp.atom pfx).text.getD "_cse" }
      match runBodyOps Generated.printPrec [st0] ops with
      | .ok (outs, pool) => some (.list [.list (outs.map stepOutToSexp), .list (pool.map cstToSexp)])
      | .error e => some (ccodeErrToSexp e)
  | _ => none

end PV.Driver
