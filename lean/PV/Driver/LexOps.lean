import PV.Model.Sexp
import PV.Model.Lexer
import PV.Model.Stringify
import PV.Generated.Prec
import PV.Generated.Lex
import PV.Driver.SyntaxOps
import PV.Proofs.SyntaxLexPrint
/- Driver operations for the lexer model (C06, C07).  Strings travel as lists of code points (the
wire protocol is line based and the lexer must see newlines, tabs, quotes and non-ASCII text). -/
namespace PV.Driver
open PV PV.Lexer

def c06CharsOfSexp? : Sexp → Option (List Char)
  | .list xs => xs.mapM fun x => x.nat?.map Char.ofNat
  | _ => none

def c06CharsToSexp (cs : List Char) : Sexp := .list (cs.map fun c => Sexp.ofNat c.toNat)

def c06LexErrToSexp : LexErr → Sexp
  | .invalidToken i => Sexp.mk "err" [.atom "InvalidTokenError", Sexp.ofNat i]
  | .floatText => Sexp.mk "err" [.atom "FloatValueError"]
  | .nonFinite => Sexp.mk "noclaim" [.atom "nonfinite"]
  | .intTooLong => Sexp.mk "noclaim" [.atom "int-too-long"]
  | .imaginary => Sexp.mk "err" [.atom "AssertionError"]
  | .unsupportedTable => Sexp.mk "unsupported-table" []

def handleLex : Sexp → Option Sexp
  | .list [.atom "lexraw", cs] => do
      let cs ← c06CharsOfSexp? cs
      pure (match lexRawWith Generated.lexTable cs with
        | .ok ls => Sexp.mk "ok" [.list (ls.map fun l => .list [.atom l.1, c06CharsToSexp l.2])]
        | .error e => c06LexErrToSexp e)
  | .list [.atom "lex", cs] => do
      let cs ← c06CharsOfSexp? cs
      pure (match lexWith Generated.lexTable (String.ofList cs) with
        | .ok ts => Sexp.mk "ok" [.list (ts.map tokToSexp)]
        | .error e => c06LexErrToSexp e)
  | .list [.atom "parsestr", mp, cs] => do
      let mp ← mp.nat?
      let cs ← c06CharsOfSexp? cs
      pure (match parseStringWith Generated.lexTable Generated.parserPrec mp (String.ofList cs) with
        | .ok e => e.toSexp
        | .error (.lex e) => c06LexErrToSexp e
        | .error (.parse e) => pErrToSexp e)
  | .list [.atom "strlex", e] => do
      -- print, then LEX THE STRING with the model lexer: the rendered string, the tokens the
      -- printer meant, and whether the model lexer returns exactly those
      let e ← Expr.ofSexp? e
      pure (match strTop Generated.printPrec e with
        | .ok ps =>
          match lexWith Generated.lexTable (render ps) with
          | .ok ts => if ts == toks ps then Sexp.mk "same" [] else Sexp.mk "differ" [.list (ts.map tokToSexp)]
          | .error err => c06LexErrToSexp err
        | .error err => sErrToSexp err)
  | .list [.atom "fragmentstr", e] => do
      -- the fragments of `PV.C06.roundtrip_string_current` / `roundtrip_string_flat_current`
      -- (token-level fragment AND lexical safety); `adj`: the piece-level check of
      -- `PV.C06.lex_render_adj` on the printed pieces
      let e ← Expr.ofSexp? e
      let safe := LexSafe Generated.printPrec e
      let adj := match strTop Generated.printPrec e with
        | .ok ps => adjOk ps
        | .error _ => false
      let frag :=
        if Syntax.InFragment Generated.parserPrec Generated.printPrec e then "in"
        else if Syntax.InFragmentFlat Generated.parserPrec Generated.printPrec e then "flat"
        else "out"
      pure (.list [.atom frag, Sexp.ofBool safe, Sexp.ofBool adj])
  | .list [.atom "floatrepr", cs] => do
      -- `repr(float(text))` and `as_integer_ratio()` of a float literal
      let cs ← c06CharsOfSexp? cs
      pure (match floatTok cs with
        | .ok t => tokToSexp t
        | .error e => c06LexErrToSexp e)
  | _ => none

end PV.Driver
