import PV.Model.Sexp
import PV.Model.GA
/- Driver operations for the geometric-algebra model (C18). -/
namespace PV.Driver
open PV PV.GA

def metricOf (xs : List Int) : Nat → Int := fun i => xs.getD i 1

def intList? (s : Sexp) : Option (List Int) :=
  match s with
  | .list xs => xs.mapM Sexp.int?
  | _ => none

def natList? (s : Sexp) : Option (List Nat) :=
  match s with
  | .list xs => xs.mapM Sexp.nat?
  | _ => none

def mvOf? (s : Sexp) : Option MV :=
  match s with
  | .list xs => xs.mapM fun p => match p with
    | .list [k, v] => do pure ((← k.nat?), (← v.int?))
    | _ => none
  | _ => none

def mvToSexp (m : MV) : Sexp := .list (m.map fun (k, v) => .list [Sexp.ofNat k, Sexp.ofInt v])

def optIntToSexp : Option Int → Sexp
  | none => .atom "ERR"
  | some v => Sexp.ofInt v

def invToSexp : InvResult → Sexp
  | .zeroDivision => .atom "ZeroDivisionError"
  | .notImplemented => .atom "NotImplementedError"
  | .valueError => .atom "ValueError"
  | .ok n d => .list [mvToSexp n, Sexp.ofInt d]

def handleGA : Sexp → Option Sexp
  | .list [.atom "ga-bitcount", n] => n.nat?.map fun n => Sexp.ofNat (bitCount n)
  | .list [.atom "ga-blade", g, a, b] => do
      let g ← intList? g; let a ← a.nat?; let b ← b.nat?
      let gm := metricOf g
      pure (.list [Sexp.ofInt (reorderSign a b), Sexp.ofInt (wOuter gm a b),
        Sexp.ofInt (wGeometric gm a b), Sexp.ofInt (wInner gm a b),
        Sexp.ofInt (wLeftContraction gm a b), Sexp.ofInt (wRightContraction gm a b),
        Sexp.ofInt (wScalar gm a b)])
  | .list [.atom "ga-mv", g, dims, a, b] => do
      let g ← intList? g; let dims ← dims.nat?; let a ← mvOf? a; let b ← mvOf? b
      let gm := metricOf g
      pure (.list [
        mvToSexp (mvMul gm a b), mvToSexp (mvOuter gm a b), mvToSexp (mvInner gm a b),
        mvToSexp (mvLeftContraction gm a b), mvToSexp (mvRightContraction gm a b),
        optIntToSexp (scalarProduct gm a b),
        mvToSexp (rev a), mvToSexp (invol a), mvToSexp (project a 2),
        optIntToSexp (normSquared gm a), invToSexp (inv gm dims a),
        Sexp.ofBool (mvEq a b), Sexp.ofBool (mvEq a a), Sexp.ofBool (mvBool a),
        Sexp.ofBool (mvEqScalar a 0), mvToSexp (dual gm dims a),
        (match getPureGrade a with | none => .atom "none" | some k => Sexp.ofNat k),
        mvToSexp (mvAdd a b), mvToSexp (mvSub a b)])
  | .list [.atom "ga-permsign", p] => do
      let p ← natList? p
      pure (match permutationSign? p with | none => .atom "IndexError" | some s => Sexp.ofInt s)
  | .list [.atom "ga-bitsandsign", p] => do
      let p ← natList? p
      let (b, s) := bitsAndSign p
      pure (.list [Sexp.ofNat b, Sexp.ofInt s])
  | .list [.atom "ga-oftuples", .list entries] => do
      let es ← entries.mapM fun e => match e with
        | .list [k, v] => do pure ((← natList? k), (← v.int?))
        | _ => none
      pure (mvToSexp (ofTuplesDict es))
  | _ => none

end PV.Driver
